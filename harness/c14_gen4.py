"""C14, strengthening round 4: generators and encoders.

 (G-plants)  every diagnostic of the argument-list parsers (parse_func_args / parse_js_obj / parse_component / parse_list /
             parse_param) planted at every argument index 0..4 behind every mix of positional / keyword / signed / arrow-function /
             list / JS-object arguments, on one line and over several lines, in several carriers and nestings; the token the
             diagnostic must cite is marked in the template, so the expected (line, col) holds by construction.
 (H-plants)  anchors: for every raise site with col_length=True (enumerated from the tree under test with `ast`) statements in
             which a token of a given kind stands right in front of the missing text; anchors of every kind: keywords, numbers,
             selectors, string literals written in every way (both quotes, escape sequences, escaped quotes, non-ASCII, astral,
             continuation lines, backtick strings), brackets of each kind on one or several lines, header-macro expansions.
             Expected position, by construction: right after the anchor's last character.
 encoders    recorded calls -> Coq cases of Run/C14.v (gcase, xcase, ercase).
"""
from __future__ import annotations

import ast
import re
from pathlib import Path

from lib import coq_bool, coq_list, coq_opt, coq_str, coq_z
from c14_lib import encodable, pos_of, rtok_term

BO, BC = "⟪", "⟫"
BRK = "¦"

# ------------------------------------------------------------------ raise sites with col_length=True


def col_length_sites(repo: Path):
    """[(file relative to src/jmc, first line, last line, message source, token source)] of every call that passes col_length=True"""
    out = []
    base = Path(repo) / "src" / "jmc"
    for p in sorted((base / "compile").rglob("*.py")):
        try:
            tree = ast.parse(p.read_text())
        except (SyntaxError, OSError, UnicodeDecodeError):
            continue
        for node in ast.walk(tree):
            if isinstance(node, ast.Call) and any(k.arg == "col_length" and isinstance(k.value, ast.Constant) and k.value.value is True
                                                  for k in node.keywords):
                msg = ast.unparse(node.args[0])[:80] if node.args else "?"
                tok = ast.unparse(node.args[1])[:60] if len(node.args) > 1 else "?"
                out.append((p.relative_to(base).as_posix(), node.lineno, node.end_lineno, msg, tok))
    return out


def site_of(sites, site):
    """index into `sites` of a recorded raise site [file, line, function] (the frame's line lies within the call or its `raise`)"""
    if not site:
        return None
    f, ln = site[0], site[1]
    for i, (sf, a, b, _m, _t) in enumerate(sites):
        if sf == f and a - 1 <= ln <= b:
            return i
    return None


# ------------------------------------------------------------------ (G-plants)

POS_KINDS = ['@a', '"s{i}"', '5', '() => {{ say "p{i}"; }}', '[1, 2]', '{{a: 1}}', 'zz{i}', "-7"]
KW_KINDS = ['k{i}=@s', 'k{i}="v"', 'k{i}=-3', 'k{i} = +2', 'k{i}=() => {{ say "q{i}"; }}', 'k{i}=[1, 2]', 'k{i}={{b: 2}}', 'k{i}=zz', 'k{i} = "w"']
PAIR_KINDS = ['k{i}: 1', 'k{i}: "s"', 'k{i}: () => {{ say "r{i}"; }}', 'k{i}: [1, 2]', 'k{i}: {{z: 1}}', 'k{i}: -3', 'k{i}: @s']
COMP_KINDS = ['k{i}=1', 'k{i}="s"', 'k{i}=[1, 2]', 'k{i}={{z: 1}}', 'k{i} = 3', 'k{i}=zz']
LIST_KINDS = ['"s{i}"', '"t{i}"']
PARAM_KINDS = ['p{i}']
SEP = "," + BRK + " "

# carriers: (name, where, statement with {ARGS}, family)
ARG_CARRIERS = [
    ("tellraw", "body", "Text.tellraw(" + BRK + "{ARGS}" + BRK + ");", "args"),
    ("user-call", "body", "zg(" + BRK + "{ARGS}" + BRK + ");", "args"),
    ("varop", "body", "$r = Math.random(" + BRK + "{ARGS}" + BRK + ");", "args"),
    ("bool-func", "body", "if (Timer.isOver(" + BRK + "{ARGS}" + BRK + ")) {{ say \"a\"; }}", "args"),
    ("execute-run", "body", "execute as @a run Text.tellraw(" + BRK + "{ARGS}" + BRK + ");", "args"),
    ("particle", "body", "Particle.line(" + BRK + "{ARGS}" + BRK + ");", "args"),
    ("in-arrow-arg", "body", "Raycast.simple(onHit=() => {{ Text.tellraw(" + BRK + "{ARGS}" + BRK + "); }}, interval=0.1, maxIter=5);", "args"),
    ("team-properties", "root", 'Team.add(zt, "n", properties={{' + BRK + "{ARGS}" + BRK + "}});", "obj"),
    ("trigger-map", "root", "Trigger.setup(zobj, {{" + BRK + "{ARGS}" + BRK + "}});", "obj"),
    # (not a carrier: `component=[a=1, nbt={...}]` - parse_component hands parse_js_obj the CLEANED-UP text of the merged value token,
    #  not raw source text: positions inside drift, like the substituted text of @lazy / Hardcode.*; observation in reports/C14.md)
    ("summon-nbt-object", "root", 'Item.create(zi, stone, "n");\nfunction zs() {{ Item.summon(zi, "~ ~ ~", nbt={{' + BRK + "{ARGS}" + BRK + "}}); }}", "obj"),
    ("component", "root", 'Item.create(zi, stone, "n", component=[' + BRK + "{ARGS}" + BRK + "]);", "comp"),
    ("repeat-list", "body", 'Hardcode.repeatList((x, n) => {{ say "x"; }}, strings=[' + BRK + "{ARGS}" + BRK + "]);", "list"),
    ("lore", "root", 'Item.create(zi, stone, "n", lore=[' + BRK + "{ARGS}" + BRK + "]);", "list"),
    ("lazy-params", "root", "@lazy function zlp(" + BRK + "{ARGS}" + BRK + ') {{ say "x"; }}\nfunction zcall() {{ zlp(1, 2); }}', "param"),
]

# planted errors per family: (name, message regex of the first line, builder(pre, i, has_kw) -> (text with BO/BC, needs_post, needs))
M = lambda t: BO + t + BC


def _errors(family):
    if family == "args":
        return [
            ("comma", r"^Unexpected comma in function arguments", lambda i: (M(","), True, None)),
            ("comma-end", r"^Unexpected comma at the end of function arguments", lambda i: (None, False, "trailing")),
            ("kw-no-value", r"^Expected keyword argument after '='", lambda i: (f"k{i}" + M("="), None, None)),
            ("dup-key", r"^Duplicated key\(", lambda i: (M("k0") + "=2", None, "kw")),
            ("arrow-nothing", r"^Expected curly bracket after '\(\)=>' \(got nothing\)", lambda i: ("() " + M("=>"), None, "nokw")),
            ("arrow-not-curly", r"^Expected curly bracket after '\(\)=>' \(got", lambda i: ("() => " + M("5"), None, "nokw")),
            ("arrow-not-curly-kw", r"^Expected curly bracket after '\(\)=>' \(got", lambda i: (f"k{i}=() => " + M('"s"'), None, None)),
            ("arrow-extra", r"^Unexpected token after arrow function", lambda i: ('() => { say "x"; } ' + M("zz"), None, "nokw")),
            ("unexpected-after", r"^Unexpected .* after .* in function argument", lambda i: ('"a" ' + M('"b"'), None, "nokw")),
            ("unexpected-after-kw", r"^Unexpected .* after .* in function argument", lambda i: (f'k{i}=[1] ' + M("zz"), None, None)),
            ("empty-key", r"^Empty key in function argument", lambda i: (M("="), None, "nokw")),
            ("positional-after-kw", r"^Positional argument follows keyword argument", lambda i: (M("zq"), None, "kw")),
        ]
    if family in ("obj", "comp"):
        op = ":" if family == "obj" else "="
        what = "JSObject/NBT" if family == "obj" else "component"
        return [
            ("comma", r"^Unexpected comma in " + re.escape(what), lambda i: (M(","), True, None)),
            ("comma-end", r"^Unexpected comma at the end of " + re.escape(what), lambda i: (None, False, "trailing")),
            ("expected-pair", r"^Expected 'key[:=]value' in", lambda i: (M(f"k{i}"), None, None)),
            ("expected-pair-2", r"^Expected 'key[:=]value' in", lambda i: (M(f"k{i}") + " zz 1", None, None)),
            ("no-value", r"^Expected value after '[:=]' in", lambda i: (f"k{i}" + M(op), None, None)),
            ("dup-key", r"^Duplicated key\(", lambda i: (M("k0") + op + " 2", None, "item")),
            ("value-unexpected-after", r"^Unexpected .* after .* in JSObject/NBT", lambda i: (f'k{i}{op} "a" ' + M('"b"'), None, None)),
            ("value-arrow-not-curly", r"^Expected curly bracket after", lambda i: (f"k{i}{op} () => " + M("5"), None, None)),
        ]
    if family == "list":
        return [
            ("dup-comma", r"^Unexpected duplicated comma", lambda i: (M(","), True, None)),
            ("expected-comma", r"^Expected comma", lambda i: (M('"zz"'), None, "item-glued")),
        ]
    if family == "param":
        return [
            ("dup-comma", r"^Unexpected duplicated comma", lambda i: (M(","), True, None)),
            ("expected-comma", r"^Expected comma", lambda i: (M("zz"), None, "item-glued")),
            ("not-keyword", r"^Expected keyword in parameters", lambda i: (M('"b"'), None, None)),
        ]
    raise ValueError(family)


def _mix(rng, family, n, need):
    """n valid items in front of the planted one"""
    if family == "args":
        if need == "nokw":
            n_pos = n
        elif need == "kw":
            n_pos = rng.randrange(0, n) if n else 0
        else:
            n_pos = rng.randrange(0, n + 1)
        items = [rng.choice(POS_KINDS).format(i=i) for i in range(n_pos)]
        items += [rng.choice(KW_KINDS).format(i=i) for i in range(n - n_pos)]
        return items, n - n_pos
    kinds = {"obj": PAIR_KINDS, "comp": COMP_KINDS, "list": LIST_KINDS, "param": PARAM_KINDS}[family]
    return [rng.choice(kinds).format(i=i) for i in range(n)], n


def argdiag_plants(rng, tier, nest_program, render_bracket, chains_by_where, base_layouts, brace_layouts, inner_layouts):
    out = []
    per = 2 if tier == "quick" else 8
    kc = 0
    for cname, where, stmt, family in ARG_CARRIERS:
        for ename, rx, build in _errors(family):
            for idx in range(5):
                for _rep in range(per if idx else max(1, per // 2)):
                    planted, needs_post, need = build(idx)
                    if need in ("kw", "item") and idx == 0:
                        continue
                    if need == "item-glued" and idx == 0:
                        continue
                    pre, n_kw = _mix(rng, family, idx, need)
                    if need == "kw" and n_kw == 0:
                        pre[-1] = KW_KINDS[rng.randrange(len(KW_KINDS))].format(i=idx - 1)
                        n_kw = 1
                    if need == "kw" and ename == "dup-key" and not any(p.startswith("k0") for p in pre):
                        pre = ["k0=1"] + pre[1:]        # the key that is repeated (first argument; the others are then keywords too)
                        pre = [p if re.match(r"k\d+ ?=", p) else f"k{j}=7" for j, p in enumerate(pre)]
                    if need == "item" and not pre[0].startswith("k0"):
                        continue
                    # what follows the planted item
                    if family == "args":
                        after_kw = n_kw > 0 or (planted or "").startswith("k")
                        post_pool = [k.format(i=8) for k in (KW_KINDS if after_kw else POS_KINDS + KW_KINDS)]
                    else:
                        post_pool = [k.format(i=8) for k in {"obj": PAIR_KINDS, "comp": COMP_KINDS, "list": LIST_KINDS, "param": PARAM_KINDS}[family]]
                    n_post = 1 if needs_post else rng.choice([0, 1, 2])
                    post = [rng.choice(post_pool)] + ([rng.choice(post_pool).replace("8", "9")] if n_post == 2 else []) if n_post else []
                    if need == "trailing":
                        if idx == 0:
                            continue
                        text = SEP.join(pre) + M(",")
                    elif need == "item-glued":
                        text = SEP.join(pre) + " " + planted + (SEP + SEP.join(post) if post else "")
                    elif ename in ("comma", "dup-comma"):
                        text = (SEP.join(pre) + SEP if pre else "") + planted + BRK + " " + SEP.join(post)
                    else:
                        text = SEP.join(pre + [planted] + post)
                    full = stmt.replace("{{", "{").replace("}}", "}").replace("{ARGS}", text)
                    chains = chains_by_where[where]
                    chain = chains[kc % len(chains)]
                    inner = inner_layouts[kc % len(inner_layouts)]
                    kc += 1
                    outer = rng.choice(base_layouts if (not chain or rng.random() < 0.5) else brace_layouts)
                    ind = "" if outer == "one-line" else ("\t" if outer in ("tabs", "broken-tabs") else "    ")
                    plant = render_bracket(full, inner, ind * len(chain))
                    src = nest_program(chain, outer, 0, plant=plant)
                    if where == "body":
                        src += "\nfunction zg() { say \"g\"; }"
                    if src.count(BO) != 1:
                        continue
                    o = src.index(BO)
                    src = src.replace(BO, "").replace(BC, "")
                    line, col = pos_of(src, o)
                    out.append(dict(name=f"argdiag:{cname}:{ename}:{idx}:{inner}:{'>'.join(chain)}:{outer}", kind="argdiag", carrier=cname,
                                    family=family, error=ename, index=idx, n_kw=n_kw, inner=inner, layout=outer, depth=len(chain),
                                    src=src, header=None, pack_format=None, line=line, col=col, rx=rx, multiline=("\n" in plant)))
    return out


# ------------------------------------------------------------------ (H-plants)

ANCHORS = {
    "kw": ["abc", "a.b.c", "@s", "~5", "12", "stone_block"],
    "str": ['"ab"', "'ab'", '""', '"a\\\\b"', '"a\\nb"', '"a\\tb"', '"a\\rb"', '"a\\"b"', "'a\\'b'", '"it\'s"', "'say \"hi\"'",
            '"\\x41\\u00e9"', '"hé ✓"', '"\U0001d4b3 x"', '"\\\\\\\\"', '"\\"\\""', '"a\\\nb"', '"\\N{DIGIT ONE}x"', '"tab\\there\\\\n"',
            "'\\\\\\'\"'", '"\\0"', '"é\\té"'],
    "btick": ["`\nab\n`", "`\n a\"b \n cd\n`", "`\n\tx\\ty\n`"],
    "round": ["(1, 2)", "(\n1,\n\t2\n)", '("a)b", 1)', "()", "(\n)"],
    "square": ["[1, 2]", "[\n1,\n2\n]", '["]"]'],
    "curly": ["{a: 1}", "{\n a: 1\n}", '{a: "}"}'],
}
HEADER = '#define ZMACN 12345\n#define ZMACS "a\\tb"\n#define ZMACF(x) x + 123456'
MACRO_ANCHORS = ["ZMACN", "ZMACS", "ZMACF(7)"]
DIGIT_STRINGS = ['"1"', "'1'", '"\\x31"', '"\\061"', '"\\u0031"']

# (name, where, statement with {A} (slot) or with BO..BC (fixed anchor), admissible slot kinds or None)
ANCHOR_TEMPLATES = [
    ("semi-end", "body-last", "tellraw @a {A}", ("kw", "str", "btick", "round", "square", "curly", "macro")),
    ("semi-end-say", "body-last", "say {A}", ("str",)),
    ("semi-end-assign", "body-last", "$zv = {A}", ("kw",)),
    ("cmd-after", "body", 'tellraw @a {A} say "n";', ("kw", "str", "btick", "round", "square", "curly", "macro")),
    ("cmd-after-give", "body", "tellraw @a {A} give @s stone;", ("kw", "str", "square", "curly")),
    ("str-kw", "body", "tellraw @a {A}now;", ("str",)),
    ("kw-str", "body", 'tellraw @a {A}"x";', ("kw",)),
    ("varop-noparen", "body", "$zq = Math.sqrt {A};", ("kw", "str", "square", "curly")),
    ("case-string", "body", "switch ($x) {{ case {A}; }}", ("digits",)),
    ("file-end", "root-last", "tellraw @a {A}", ("kw", "str", "btick", "round", "square", "curly")),
    # fixed anchors
    ("if", "body", M("if") + ";", None), ("if-cond", "body", "if " + M("(" + BRK + "$x ==" + BRK + " 1" + BRK + ")") + ";", None),
    ("else", "body", 'if ($x == 1) { say "a"; } ' + M("else") + ";", None),
    ("else-if", "body", 'if ($x == 1) { say "a"; } else ' + M("if") + ";", None),
    ("else-if-cond", "body", 'if ($x == 1) { say "a"; } else if ' + M("(" + BRK + "$y ==" + BRK + " 1" + BRK + ")") + ";", None),
    ("while", "body", M("while") + ";", None), ("while-cond", "body", "while " + M("(" + BRK + "$x ==" + BRK + " 1" + BRK + ")") + ";", None),
    ("do", "body", M("do") + ";", None), ("do-while", "body", 'do { say "a"; } ' + M("while") + ";", None),
    ("for", "body", M("for") + ";", None),
    ("for-head", "body", "for " + M("(" + BRK + "$i = 0;" + BRK + " $i < 3;" + BRK + " $i++" + BRK + ")") + ";", None),
    ("switch", "body", M("switch") + ";", None), ("switch-head", "body", "switch " + M("(" + BRK + "$x" + BRK + ")") + ";", None),
    ("case", "body", "switch ($x) { " + M("case") + "; }", None), ("case-minus", "body", "switch ($x) { case " + M("-") + "; }", None),
    ("case-number", "body", "switch ($x) { case " + M("1") + "; }", None),
    ("default", "body", 'switch ($x) { case 1: say "a"; ' + M("default") + "; }", None),
    ("async", "body", M("async") + ";", None), ("async-for", "body", "async " + M("for") + ";", None),
    ("async-for-head", "body", "async for " + M("(" + BRK + "$i = 0;" + BRK + " $i < 3;" + BRK + " $i++" + BRK + ")") + ";", None),
    ("async-for-body", "body", "async for ($i = 0; $i < 3; $i++) " + M("{" + BRK + ' say "a";' + BRK + " }") + ";", None),
    ("async-while", "body", "async " + M("while") + ";", None),
    ("async-while-cond", "body", "async while " + M("(" + BRK + "$x ==" + BRK + " 1" + BRK + ")") + ";", None),
    ("async-while-body", "body", "async while ($x == 1) " + M("{" + BRK + ' say "a";' + BRK + " }") + ";", None),
    ("bool-func", "body", "if (" + M("Timer.isOver") + ') { say "a"; }', None),
    ("builtin-noparen", "body", M("Text.tellraw") + ";", None), ("builtin-noparen-2", "body", M("JMC.put") + ";", None),
    ("user-call-extra", "body", "zg" + M("(" + BRK + ")") + " zz;", None),
    ("user-call-extra-args", "body", "zg" + M("(" + BRK + "1," + BRK + ' "a\\tb"' + BRK + ")") + " zz;", None),
    ("unless", "body", "unless " + M("(" + BRK + "$x ==" + BRK + " 1" + BRK + ")") + " zz;", None),
    ("varop", "body", "$zq = " + M("Math.sqrt") + ";", None),
    ("macro-if", "body", M("$if") + ";", None), ("macro-if-cond", "body", "$if " + M("(" + BRK + "$x ==" + BRK + " 1" + BRK + ")") + ";", None),
    ("macro-if-expand", "body", "$if ($x == 1) " + M("expand") + ";", None), ("if-expand", "body", "if ($x == 1) " + M("expand") + ";", None),
    ("hardcode-call-extra", "body", "Hardcode.repeat" + M("(" + BRK + '(i) => { say "i"; },' + BRK + " start=1," + BRK + " stop=2" + BRK + ")") + " zz;", None),
    ("particle-call-extra", "body", "Particle.line" + M("(" + BRK + '"flame",' + BRK + " distance=5," + BRK + " spread=2" + BRK + ")") + " zz;", None),
    ("function", "top", M("function") + ";", None), ("function-name", "top", "function " + M("zf") + ";", None),
    ("function-params", "top", "function zf" + M("()") + ";", None), ("class-name", "top", "class " + M("zc") + ";", None),
    ("new", "root", M("new") + ";", None), ("new-type", "root", "new " + M("advancements") + ";", None),
    ("new-path", "root", "new advancements" + M("(" + BRK + "a.b" + BRK + ")") + ";", None), ("new-path-flat", "root", "new advancements" + M("(a.b)") + ";", None),
    ("new-extends", "root", "new advancements(a.b) " + M("extends") + ";", None),
    ("new-stringify", "root", "new advancements(a.b) " + M("stringify") + ";", None),
    ("import", "root", M("import") + ";", None),
]


def anchor_plants(rng, tier, nest_program, render_bracket, chains_by_where, base_layouts, brace_layouts, inner_layouts):
    out = []
    kc = 0
    for name, where, stmt, kinds in ANCHOR_TEMPLATES:
        variants = []
        if kinds is None:
            variants.append((stmt, "fixed", None))
        else:
            for k in kinds:
                pool = MACRO_ANCHORS if k == "macro" else DIGIT_STRINGS if k == "digits" else ANCHORS[k]
                for a in pool:
                    variants.append((stmt.replace("{{", "{").replace("}}", "}").replace("{A}", M(a)), k, a))
        last = where.endswith("-last")
        w = {"body-last": "body", "root-last": "root"}.get(where, where)
        chains = chains_by_where[w]
        for text, akind, atext in variants:
            n_chain = (2 if tier == "quick" else len(chains)) if akind in ("str", "btick", "digits", "fixed", "macro") else (1 if tier == "quick" else 3)
            if len(chains) <= 3:
                n_chain = len(chains)
            for _ in range(min(n_chain, len(chains))):
                chain = chains[kc % len(chains)]
                inner = inner_layouts[kc % len(inner_layouts)] if BRK in text else "flat"
                kc += 1
                if inner == "crlf" and atext and "\n" in atext:
                    inner = "lines"
                outer = rng.choice(base_layouts if (not chain or rng.random() < 0.5) else brace_layouts)
                if atext and "\n" in atext and outer == "one-line":
                    outer = "multi-line"        # (nest_program strips the lines of a one-line layout)
                ind = "" if outer == "one-line" else ("\t" if outer in ("tabs", "broken-tabs") else "    ")
                plant = render_bracket(text, inner, ind * len(chain)) if BRK in text else text
                src = nest_program(chain, outer, 0, plant=plant)
                if outer == "one-line" and ("\n" in plant):
                    continue
                if w == "body":
                    src += "\nfunction zg() { say \"g\"; }"
                if src.count(BO) != 1 or src.count(BC) != 1:
                    continue
                o, c = src.index(BO), src.index(BC) - 1
                src = src.replace(BO, "").replace(BC, "")
                line, col = pos_of(src, o)
                eline, ecol = pos_of(src, c)
                out.append(dict(name=f"anchor:{name}:{akind}:{inner}:{'>'.join(chain)}:{outer}", kind="anchor", template=name, akind=akind,
                                anchor=src[o:c], inner=inner, layout=outer, depth=len(chain), src=src,
                                header=HEADER if akind == "macro" else None, pack_format=None, line=line, col=col, end=[eline, ecol],
                                multiline=("\n" in src[o:c]), last=last))
    return out


# ------------------------------------------------------------------ encoders

ADIAG_RX = [
    ("ACommaEnd", r"^Unexpected comma at the end of (function arguments|JSObject/NBT|component)$"),
    ("AComma", r"^Unexpected comma in (function arguments|JSObject/NBT|component)$"),
    ("AKwNoValue", r"^(Expected keyword argument after '=' in function arguments|Expected value after '[:=]' in (JSObject/NBT|component))$"),
    ("ADupKey", r"^Duplicated key\("),
    ("AArrowNothing", r"^Expected curly bracket after '\(\)=>' \(got nothing\)$"),
    ("AArrowNotCurly", r"^Expected curly bracket after '\(\)=>' \(got "),
    ("AArrowExtra", r"^Unexpected token after arrow function"),
    ("AUnexpectedAfter", r"^Unexpected .* after .* in (function argument|JSObject/NBT)$"),
    ("AEmptyKey", r"^Empty key in (function argument|JSObject/NBT)$"),
    ("APositional", r"^Positional argument follows keyword argument$"),
    ("AExpectedPair", r"^Expected 'key[:=]value' in (JSObject/NBT|component)$"),
    ("AListDupComma", r"^Unexpected duplicated comma\(,\)$"),
    ("AListExpectedComma", r"^Expected comma\(,\)$"),
    ("AParamKeyword", r"^Expected keyword in parameters \(got "),
]
FN_TERM = {"parse_func_args": "FArgs", "parse_js_obj": "FObj", "parse_component": "FComp", "parse_list": "FList", "parse_param": "FParam"}
PRECHECK = re.compile(r"^(Expected \($|Expected list/array$|Expected JavaScript Object$)")


def adiag_of(message: str):
    for name, rx in ADIAG_RX:
        if re.search(rx, message, re.S):
            return name
    return None


def gcase_of(res, d):
    """Coq term of Run.C14.gcase for one recorded call of an argument-list parser, or (None, reason)"""
    fn = FN_TERM.get(d["fn"])
    if fn is None or d["macros"]:
        return None, "not-modelled"
    if d.get("inner") is None:
        return None, "no-inner-run"         # the pre-check refused the token, or `()` / `[]` returned early
    call = res["calls"][d["inner"]]
    out = call.get("out")
    if not out or out["kind"] != "ok":
        return None, "inner-run-diagnostic"  # the tokenizer's own diagnostic: tie (A)
    if not out["programs"]:
        return None, "empty"
    kws = out["programs"][0]
    if not all(encodable(t[3]) for t in kws):
        return None, "not-encodable"
    kws_t = coq_list(rtok_term(t) for t in kws)
    if "err" in d:
        msg = d["err"]["message"]
        if PRECHECK.search(msg):
            return None, "pre-check"
        a = adiag_of(msg)
        if a is None or d["err"]["token"] is None:
            return None, "other-diagnostic:" + msg[:40]
        return f"GC {fn} {kws_t} (GDiag {a} ({rtok_term(d['err']['token'])}))", None
    r = d.get("res")
    if r is None:
        return None, "no-result"
    if fn == "FArgs":
        args = coq_list(coq_list(rtok_term(t) for t in g) for g in r["args"])
        kw = coq_list(f"({coq_str(k)}, {coq_list(rtok_term(t) for t in v)})" for k, v in r["kwargs"])
        if not all(encodable(k) for k, _ in r["kwargs"]):
            return None, "not-encodable"
        return f"GC {fn} {kws_t} (GArgs {args} {kw})", None
    if fn in ("FObj", "FComp"):
        items = coq_list(f"({coq_str(k)}, Some ({v[0]}, {coq_z(v[1])}, {coq_z(v[2])}))" for k, v in r["dict"])
        if not all(encodable(k) for k, _ in r["dict"]):
            return None, "not-encodable"
        return f"GC {fn} {kws_t} (GPairs {items})", None
    if fn == "FList":
        return f"GC {fn} {kws_t} (GList {coq_list(rtok_term(t) for t in r['list'])})", None
    if fn == "FParam":
        if not all(encodable(k) for k in r["params"]):
            return None, "not-encodable"
        return f"GC {fn} {kws_t} (GParams {coq_list(coq_str(k) for k in r['params'])})", None
    return None, "?"


def xcase_of(call):
    """Coq term of Run.C14.xcase for a recorded Tokenizer.parse call that produced string-literal tokens"""
    ends = call.get("ends")
    if not ends:
        return None
    ent = coq_list(f"(({coq_z(e[0])}, {coq_z(e[1])}), ({coq_z(e[2])}, {coq_z(e[3])}), {coq_z(e[4])})" for e in ends)
    return (f"XC {coq_str(call['string'])} {coq_z(call['line'])} {coq_z(call['col'])} {coq_bool(call['es'])} {coq_bool(call['alms'])} "
            f"{coq_bool(call['allow_semi'])} {ent}")


def ercase_of(e, hdr, snt):
    oz = lambda x: coq_opt(coq_z(x) if x is not None else None)
    rec = coq_opt(f"({coq_z(e['trec'][0])}, {coq_z(e['trec'][1])})" if e.get("trec") else None)
    tend = e.get("tend") or [0, 0]
    return (f"ER ({rtok_term(e['token'])}) {coq_bool(e['cl'])} {coq_bool(e['el'])} {coq_z(snt[0])} {oz(snt[1])} {coq_z(hdr[0])} {oz(hdr[1])} "
            f"{rec} ({coq_z(tend[0])}, {coq_z(tend[1])}) {coq_z(e.get('tlen') if e.get('tlen') is not None else -1)}")
