"""C14 — diagnostics cite the true line and column.

Proof step (Props/C14.v) + three ties to the tree under test, all re-done on every run:
 (A) every call of `Tokenizer.parse` the real compiler makes on the corpus (3 layouts) and on a sample of
     character-level mutants is replayed in the Coq model `Tok.parse` (same text, start position, flags):
     tokens (type, line, col, string, quote) resp. the cited (line, col) of the diagnostic must be equal;
 (B) real side only, the property's own observable: every hand-over of raw source text to a nested tokenizer
     must pass the position of the first character of that text, and every token must be cited where its
     text is in file_string;
 (C) plants: a known-bad statement is inserted at statement boundaries (every nesting depth the corpus and
     the generated nests 0-4 offer, three layouts); the reported `line L col C` must be the planted position
     and the model's deep re-tokenisation (repaired hand-overs) must put the needle there too.
"""
from __future__ import annotations

import json
import re
from concurrent.futures import ThreadPoolExecutor

from lib import (Check, COMMON_TRUSTED, NCPU, REPO, VERIF, coq_str, coq_z, eval_cases, run_py)
from c13_corpus import corpus, FULL_CERT
from c14_lib import (COQ_HEADER, call_encodable, encodable, env_term, offset_of, pos_of, tcase_term, token_at)

PROP = "C14"
RUNNER = VERIF / "harness" / "c14_run.py"
NEEDLE = "zzplantqq"
PLANT = NEEDLE + " 1;"


def run_jobs(jobs, chunk=60):
    chunks = [jobs[i:i + chunk] for i in range(0, len(jobs), chunk)]
    with ThreadPoolExecutor(max_workers=NCPU) as ex:
        res = list(ex.map(lambda c: run_py(RUNNER, c, timeout=900), chunks))
    return [r for rs in res for r in rs]


# ------------------------------------------------------------------ layouts

def layouts(src: str):
    """(name, text) variants with the same tokens: original, one line, tabs."""
    out = [("multi-line", src)]
    plain = "//" not in src and "#" not in src and "`" not in src and "\\\n" not in src
    if plain and "\n" in src:
        out.append(("one-line", src.replace("\n", " ")))
        out.append(("tabs-one-line", src.replace("\n", "\t")))
    else:
        t = re.sub(r"(?m)^( {4})+", lambda m: "\t" * (len(m.group(0)) // 4), src)
        t = t.replace("{ ", "{\t")
        if t != src:
            out.append(("tabs", t))
    return out


# ------------------------------------------------------------------ where to plant (untrusted scanner:
# a wrong guess only makes a plant ineffective; the planted position itself is exact by construction)

def boundaries(text: str):
    """[(offset, curly depth)] right after each `{` and after each `;` that is not inside ( ) [ ] or a string."""
    out = [(0, 0)]
    stack = []
    i, n = 0, len(text)
    quote = None
    while i < n:
        c = text[i]
        if quote:
            if c == "\\":
                i += 2
                continue
            if c == quote:
                quote = None
            i += 1
            continue
        if c in "'\"`":
            quote = c
        elif c == "/" and text[i:i + 2] == "//":
            j = text.find("\n", i)
            i = n if j < 0 else j
            continue
        elif c in "([{":
            stack.append(c)
            if c == "{":
                out.append((i + 1, stack.count("{")))
        elif c in ")]}":
            if stack:
                stack.pop()
        elif c == ";" and (not stack or stack[-1] == "{"):
            out.append((i + 1, stack.count("{")))
        i += 1
    return out


# ------------------------------------------------------------------ generated nests (depth 0-4)

CONSTRUCTS = {
    "function": ("function f%d() {", "}"),
    "class": ("class c%d {", "}"),
    "if": ("if ($x == %d) {", "}"),
    "ifelse": ("if ($x == %d) { say \"t\"; } else {", "}"),
    "elif": ("if ($x == %d) { say \"t\"; } else if ($y == 2) {", "}"),
    "while": ("while ($w < %d) {", "}"),
    "for": ("for ($i = 0; $i < %d; $i++) {", "}"),
    "do": ("do {", "} while ($d < %d);"),
    "switch": ("switch ($s) { case 1: say \"%d\";", "}"),
    "execute": ("execute as @a[limit=%d] run {", "}"),
    "expand": ("if ($e == %d) expand {", "}"),
    "arrow": ("Hardcode.repeat((n%d) => {", "}, start=1, stop=2);"),
    "returnrun": ("return run {", "}"),
}
TOP_ONLY = {"function", "class"}
IN_CLASS = {"function", "class"}
BODY = [k for k in CONSTRUCTS if k not in TOP_ONLY]


def nest_program(chain, layout):
    """chain of construct names, outermost first; returns program text with the PLANT in the innermost body."""
    if layout == "one-line":
        sep, ind = " ", ""
    elif layout == "tabs":
        sep, ind = "\n", "\t"
    else:
        sep, ind = "\n", "    "
    lines = []
    for d, k in enumerate(chain):
        head = CONSTRUCTS[k][0]
        lines.append(ind * d + (head % (d + 1) if "%d" in head else head))
    d = len(chain)
    inner_is_class = bool(chain) and chain[-1] == "class"
    if not inner_is_class and chain:
        lines.append(ind * d + 'say "before";')
    lines.append(ind * d + PLANT)
    for d in range(len(chain) - 1, -1, -1):
        tail = CONSTRUCTS[chain[d]][1]
        lines.append(ind * d + (tail % (d + 1) if "%d" in tail else tail))
    if layout == "one-line":
        return " ".join(x.strip() for x in lines)
    return sep.join(lines)


def valid_chain(chain):
    for i, k in enumerate(chain):
        parent = chain[i - 1] if i else None
        if parent is None:
            continue
        if parent == "class" and k not in IN_CLASS:
            return False
        if parent != "class" and k in TOP_ONLY:
            return False
    return True


def gen_nests(rng, tier):
    chains = [[]]
    kinds = list(CONSTRUCTS)
    for a in kinds:
        chains.append([a])
        for b in kinds:
            chains.append([a, b])
    chains = [c for c in chains if valid_chain(c)]
    n_deep = 60 if tier == "quick" else 600
    tries = 0
    while n_deep and tries < 100000:
        tries += 1
        depth = rng.choice([3, 4])
        c = [rng.choice(kinds) for _ in range(depth)]
        if valid_chain(c):
            chains.append(c)
            n_deep -= 1
    out = []
    for c in chains:
        for layout in ("one-line", "multi-line", "tabs"):
            out.append(dict(name="nest:" + ">".join(c) + ":" + layout, src=nest_program(c, layout), depth=len(c),
                            layout=layout, header=None, kind="nest"))
    return out


# ------------------------------------------------------------------ mutants for diagnostic positions

SPECIAL = ['"', "'", "`", "\\", "{", "}", "(", ")", "[", "]", "/", "//", "#", ";", "\n", ",", "\t", "$", "=>",
           "\\n", "\\x", "\\u00e9", "\\N{DIGIT ONE}", "\\N{NOPE}", "\r", "é", "\\\n", "I;", "　", "\x1c"]


def char_mutants(rng, programs, n):
    out = []
    for _ in range(n):
        s = rng.choice(programs)
        for _ in range(rng.choice([1, 1, 2])):
            i = rng.randrange(len(s) + 1)
            op = rng.random()
            if op < 0.3 and i < len(s):
                s = s[:i] + s[i + 1:]
            elif op < 0.4:
                s = s[:i]
            else:
                s = s[:i] + rng.choice(SPECIAL) + s[i:]
        out.append(s)
    return out


# ------------------------------------------------------------------ the checks on one traced compile

def handover_failures(res):
    """(B) hand-overs of raw source text that do not pass the position of the text's first character,
    and tokens not cited where their text is.  Only texts that literally occur in file_string count."""
    bad, n_calls, n_tokens, skipped = [], 0, 0, 0
    for call in res["calls"]:
        if "out" not in call:
            continue
        fs = res["file_strings"][call["fs"]]
        if call["macros"] or call["string"] == "" or call["string"] not in fs:
            skipped += 1
            continue
        o = offset_of(fs, call["line"], call["col"])
        if o is None or not fs.startswith(call["string"], o):
            # raw text handed over at a wrong position, or text that merely resembles the source (merged /
            # cleaned-up / substituted tokens are re-tokenised too)?  It is a wrong position iff the very text
            # sits on the same line within three columns of the position that was passed.
            near = [m.start() for m in re.finditer(re.escape(call["string"]), fs)
                    if pos_of(fs, m.start())[0] == call["line"] and abs(pos_of(fs, m.start())[1] - call["col"]) <= 3]
            if near:
                n_calls += 1
                bad.append(dict(kind="hand-over", text=call["string"][:200], passed=[call["line"], call["col"]],
                                true_positions=[list(pos_of(fs, x)) for x in near][:3]))
            else:
                skipped += 1
            continue
        n_calls += 1
        if call["out"]["kind"] == "ok":
            for st in call["out"]["programs"]:
                for tok in st:
                    n_tokens += 1
                    if not token_at(fs, tok):
                        bad.append(dict(kind="token", token=tok[:4], text_there=fs[(offset_of(fs, tok[1], tok[2]) or 0):][:20]))
    return bad, n_calls, n_tokens, skipped


def needle_in_raw_text(res) -> bool:
    """was the planted statement tokenised (last) from text that literally occurs in the file?"""
    last = None
    for call in res["calls"]:
        out = call.get("out")
        if out and out["kind"] == "ok" and any(t[3] == NEEDLE for st in out["programs"] for t in st):
            last = call
    if last is None:
        return True
    return last["string"] in res["file_strings"][last["fs"]]


def main(tier: str) -> int:
    ck = Check(PROP, tier)
    ck.cov["trusted_base"] = COMMON_TRUSTED[:1] + [
        "Model/Tok.v: hand-written character-exact port of Tokenizer.parse (tokenizer.py:285-735; header macros outside); "
        "Model/TokPos.v: pos_of, the three hand-over offsets (body/arrow/args), reach; tied to the tree by (A) token/diagnostic "
        "equality on every recorded Tokenizer.parse call, (B) the real hand-overs checked against file_string, (C) plants",
        "harness: c14.py, c14_run.py (wraps Tokenizer.parse from the runner process), c14_lib.py, Run/C14.v (UTF-8 decoding, comparison)",
        "str.isprintable / unicodedata tables are taken from the interpreter running the harness",
    ]
    ck.proof(extra_targets=["Run/C14.vo"])
    rng = ck.rng

    # ---- corpus in three layouts, traced
    progs = []
    for c in corpus(REPO):
        for lname, text in layouts(c["src"]):
            progs.append(dict(name=c["name"], layout=lname, src=text, header=c["header"], pack_format=c["pack_format"],
                              kind="corpus"))
    jobs = [dict(src=p["src"], header=p["header"], cert=FULL_CERT, pack_format=p["pack_format"], timeout=10) for p in progs]
    res = run_jobs(jobs)
    valid = [(p, r) for p, r in zip(progs, res) if r["ok"]]

    # ---- mutants (diagnostic positions of the tokenizer itself)
    n_mut = 400 if tier == "quick" else 4000
    base = [p["src"] for p, _ in valid if p["header"] is None and p["layout"] == "multi-line"]
    muts = char_mutants(rng, base, n_mut)
    mres = run_jobs([dict(src=s, cert=FULL_CERT, timeout=5) for s in muts])

    # ---- (B) real hand-overs / token positions
    nB_calls = nB_tokens = nB_skipped = 0
    reportedB = set()
    for p, r in list(zip(progs, res)) + [(dict(name="mutant", layout="-", src=s, header=None), r) for s, r in zip(muts, mres)]:
        bad, a, b, sk = handover_failures(r)
        nB_calls += a; nB_tokens += b; nB_skipped += sk
        for f in bad:
            key = (f["kind"], p["name"].split(".")[0])
            if key in reportedB or len(reportedB) >= 5:
                continue
            reportedB.add(key)
            ck.violation(dict(kind="position-not-faithful", check="B", program=p["src"], header=p.get("header"),
                              layout=p["layout"], failure=f,
                              expected="nested tokenizer started at the position of the first character of the text it is given; "
                                       "every token cited at the position of its own text"))

    # ---- (A) model == real on every recorded call
    calls, seen = [], set()
    n_crash_calls = 0
    for p, r in list(zip(progs, res)) + [(dict(name="mutant", src=s, header=None), r) for s, r in zip(muts, mres)]:
        for call in r["calls"]:
            if call["macros"] or "out" not in call or not call_encodable(call):
                continue
            if call["out"]["kind"] == "exc" and not call["out"]["jmc"]:
                n_crash_calls += 1      # an internal exception cites nothing: property C13's business
                continue
            kind = call["out"]["kind"]
            key = (call["string"], call["line"], call["col"], call["es"], call["alms"], call["allow_semi"])
            if key in seen:
                continue
            seen.add(key)
            calls.append((p, call, kind))
    header = COQ_HEADER + env_term([c["string"] for _, c, _ in calls])
    bad, errs = eval_cases(PROP, header, [tcase_term(c) for _, c, _ in calls], per_file=300, checker="tmismatches E")
    for e in errs:
        ck.violation(dict(kind="correspondence-file-failed", log=e), no_input=True)
    for i in bad[:5]:
        p, call, kind = calls[i]
        ck.violation(dict(kind="model-differs-from-tokenizer", check="A", program=p["src"], text=call["string"][:500],
                          start=[call["line"], call["col"]], flags=dict(es=call["es"], alms=call["alms"], allow_semi=call["allow_semi"]),
                          real=json.dumps(call["out"])[:1500],
                          theorem="C14_tok_pos / C14_diag_pos no longer speak about the code"), no_input=True)

    # ---- (C) plants
    plant_jobs = []
    for p, r in valid:
        bs = boundaries(p["src"])
        if tier == "quick" and len(bs) > 8:
            bs = [bs[0]] + rng.sample(bs[1:], 7)
        for off, depth in bs:
            text = p["src"][:off] + " " + PLANT + " " + p["src"][off:]
            line, col = pos_of(text, off + 1)
            plant_jobs.append(dict(name=p["name"], layout=p["layout"], src=text, header=p["header"],
                                   pack_format=p["pack_format"], line=line, col=col, depth=depth, kind="corpus"))
    for g in gen_nests(rng, tier):
        off = g["src"].index(NEEDLE)
        line, col = pos_of(g["src"], off)
        plant_jobs.append(dict(name=g["name"], layout=g["layout"], src=g["src"], header=None, pack_format=None,
                               line=line, col=col, depth=g["depth"], kind="nest"))
    pres = run_jobs([dict(src=j["src"], header=j["header"], cert=FULL_CERT, pack_format=j["pack_format"], timeout=10)
                     for j in plant_jobs], chunk=100)
    n_named = n_unnamed_ok = n_other = n_compiled = n_generated = 0
    by_depth, by_layout = {}, {}
    model_cases = []
    reportedC = 0
    for j, r in zip(plant_jobs, pres):
        if r["ok"]:
            n_compiled += 1
            continue
        if not r["jmc"] or r["cited"] is None or r["cited"][1] is None:
            n_other += 1
            continue
        first = r["msg"].split("\n")[1] if "\n" in r["msg"] else r["msg"]
        named = NEEDLE in first
        cited = tuple(r["cited"])
        if not needle_in_raw_text(r):
            # the statement was re-tokenised from *generated* text (@lazy parameter substitution,
            # Hardcode.* index substitution, JMC.python output): not a re-tokenisation of raw source text
            n_generated += 1
            continue
        if named:
            n_named += 1
            by_depth[j["depth"]] = by_depth.get(j["depth"], 0) + 1
            by_layout[j["layout"]] = by_layout.get(j["layout"], 0) + 1
            if cited != (j["line"], j["col"]):
                if reportedC < 5:
                    reportedC += 1
                    ck.violation(dict(kind="diagnostic-cites-wrong-position", check="C", program=j["src"], header=j["header"],
                                      layout=j["layout"], depth=j["depth"], expected=dict(line=j["line"], col=j["col"]),
                                      actual=dict(line=cited[0], col=cited[1]), message=r["msg"][:600]))
            if j["header"] is None and encodable(j["src"]):
                model_cases.append(j)
        elif cited == (j["line"], j["col"]):
            n_unnamed_ok += 1
        else:
            n_other += 1
    if tier == "quick" and len(model_cases) > 700:
        model_cases = rng.sample(model_cases, 700)
    pterms = [f"PC {coq_str(j['src'])} {coq_str(NEEDLE)} {coq_z(j['line'])} {coq_z(j['col'])}" for j in model_cases]
    pbad, perrs = eval_cases(PROP, COQ_HEADER + env_term([]), pterms, per_file=120, checker="pmismatches E", prefix="plants")
    for e in perrs:
        ck.violation(dict(kind="correspondence-file-failed", log=e), no_input=True)
    for i in pbad[:3]:
        j = model_cases[i]
        ck.violation(dict(kind="model-places-needle-elsewhere", check="C", program=j["src"], expected=dict(line=j["line"], col=j["col"]),
                          note="Tok.deep_find with the repaired hand-overs does not put the planted keyword at its position"),
                     no_input=True)
    if n_named + n_unnamed_ok < 0.5 * max(1, len(plant_jobs)):
        ck.violation(dict(kind="plants-ineffective", named=n_named, at_plant=n_unnamed_ok, total=len(plant_jobs),
                          note="fewer than half of the planted statements were reported (by name or at the planted position): "
                               "the generator no longer exercises the property"),
                     no_input=True)

    kinds = {}
    for _, c, k in calls:
        kinds[k] = kinds.get(k, 0) + 1
    ck.cov.update(dict(
        evaluations=len(calls) + len(plant_jobs),
        distinct_nontrivial=len(calls) + n_named,
        rule="(A) distinct (text, start, flags) calls of Tokenizer.parse recorded on corpus x layouts + character mutants, each compared "
             "token-for-token / diagnostic-position with Tok.parse in Coq; (C) planted statements reported by name; "
             "distinct_nontrivial = distinct calls + named plants",
        programs=len(progs) + len(muts) + len(plant_jobs),
        tokenizer_calls_compared=len(calls), call_outcomes=kinds, calls_ending_in_internal_exception_skipped=n_crash_calls,
        handovers_checked=nB_calls, tokens_checked_against_file=nB_tokens, generated_text_calls_skipped=nB_skipped,
        plants=dict(total=len(plant_jobs), reported_by_name=n_named, unnamed_but_at_plant=n_unnamed_ok,
                    other_diagnostic=n_other, still_compiles=n_compiled, in_generated_text=n_generated, by_depth=by_depth, by_layout=by_layout,
                    compared_with_model=len(model_cases)),
        disagreements_checked=len(bad) + len(pbad),
        samples=[dict(program=j["src"][:160], planted=[j["line"], j["col"]]) for j in plant_jobs[:2] + plant_jobs[-2:]],
    ))
    return ck.finish()


def replay(path: str) -> int:
    rp = json.loads(open(path).read())
    src = rp.get("program")
    if src is None:
        print("replay file has no program (proof/correspondence breakage):", rp.get("kind"))
        return 1
    r = run_jobs([dict(src=src, header=rp.get("header"), cert=FULL_CERT, timeout=10)])[0]
    print("program:", repr(src)[:400])
    if rp.get("kind") == "diagnostic-cites-wrong-position":
        print("expected: line %(line)s col %(col)s" % rp["expected"])
        print("actual  :", r["exc"], r["cited"])
        return 0 if r["cited"] and tuple(r["cited"]) == (rp["expected"]["line"], rp["expected"]["col"]) else 1
    bad, a, b, _ = handover_failures(r)
    print("expected: every hand-over / token at the position of its text (%d hand-overs, %d tokens looked at)" % (a, b))
    print("actual  :", bad[:3] if bad else "all faithful", "| outcome:", r["exc"], r["cited"])
    return 1 if bad else 0
