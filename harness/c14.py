"""C14 — diagnostics cite the true line and column.

Proof step (Props/C14.v) + three ties to the tree under test, all re-done on every run:
 (A) every call of `Tokenizer.parse` the real compiler makes on the corpus (3 layouts) and on a sample of
     character-level mutants is replayed in the Coq model `Tok.parse` (same text, start position, flags):
     tokens (type, line, col, string, quote) resp. the cited (line, col) of the diagnostic must be equal;
 (B) real side only, the property's own observable: every hand-over of raw source text to a nested tokenizer
     must pass the position of the first character of that text, and every token must be cited where its
     text is in file_string;
 (C) plants: a known-bad statement is inserted at statement boundaries (every nesting depth the corpus and
     the generated nests 0-4 offer, three layouts); the reported `line L col C` must be the planted position
     and the model's deep re-tokenisation (repaired hand-overs) must put the needle there too.
 strengthening round 1:
 corpus  + C14_EXTRA: string literals with backslash-newline continuations, glued signed keyword arguments
         (`key=-N`, `key=+N`), multi-line argument lists, lists / JS objects; the generated nests put such a statement
         in front of the plant;
 (B2)    every OTHER tokenizer entry point that builds tokens from tokens (parse_func_args, parse_list, parse_js_obj,
         parse_component, merge_tokens, split_keyword_token, merge_vanilla_macro; recorded by c14_run.py): when the
         tokens it is given sit at their own text in file_string, every token it returns must be anchored at its own
         text too (first character / leading word; FUNC tokens one column right of their brace);
 (A2)    the sign token parse_func_args splits off `=-` / `=+` == Model.TokDerived.split_sign d_sign of the operator
         token (theorem C14_sign_split), evaluated in Coq on every recorded split;
 (C2)    argument-value plants: a bad value (negative / zero / wrong type / unknown keyword) is put in an argument of a
         built-in call, in the forms `key=V`, `key = V`, `key= V`, `key =V`, positional, in several contexts and layouts;
         a diagnostic that is about that argument (names the key or the planted value) must cite the position of the
         first character of V.
 strengthening round 2:
 layouts  the opening brace on a LATER line than its header (Allman braces, optionally an empty line and a comment line in between),
          headers broken over lines (keyword / bracket / condition / `=>` / arguments each on a line of its own) - for the corpus
          (allman, allman-gap, paren-break) and for the generated nests (allman, allman-gap, broken, broken-tabs; new constructs: @lazy
          function + call, decorated function, Raycast.simple arrow function); expression and argument plants in such layouts;
 (B)      the LINE of a hand-over is checked as well as its column: bodies that are raw text by construction (PreFunction, class content;
          recorded by c14_run.py) exactly; Tokenizer.parse-level hand-overs also when the text sits in the same column of another line;
 (A)      SLASH_VALID / SLASH_PROBES: texts on which the `is_slash` fix 9285cea (ported into Model/Tok.v) changes the tokens.
 strengthening round 3:
 (E)      every call of exception.error_msg in every compile (recorded by c14_run.py): the (line, col) in the header `In file:L:C` and in the
          sentence `at line L col C.` == Model.TokCite.cite col_length <recorded token>, evaluated in Coq (theorem C14_error_start);
 (E3)     a diagnostic token whose text occurs exactly once in a program without text substitution is cited at that occurrence;
 (C3)     bracket plants: the offending token is a BRACKET (round / square / curly / arrow-function body / backtick string) that spans several
          lines, in 7 inner layouts, at nesting depths 0-3, in the outer layouts of round 2; expected = the bracket's first character.
 strengthening round 4 (c14_gen4.py):
 (A)      the tokenizer tie uses the REPAIRED model Model.TokEnd.parse_r ("Expected semicolon(;)" cites Token.end of the last token);
 (X)      the end position the tokenizer records for every string literal of every recorded Tokenizer.parse call, Token.end and
          Token.length == Model.TokEnd.parse_ends / tok_end / tok_len_r (theorems C14_string_end_recorded, C14_token_end);
 (E)      header and sentence of every error_msg call == Model.TokEnd.cite_r col_length <token> <its recorded end>; Token.end / Token.length of
          that token == the model's;
 (G)      every recorded call of parse_func_args / parse_js_obj / parse_component / parse_list / parse_param: the structure returned resp.
          the diagnostic and the token it cites == Model.TokArgs on the tokens of the inner tokenizer run (theorems C14_args_*);
 (C4)     argument-diagnostic plants: every diagnostic of those parsers planted at every argument index 0-4 behind every mix of positional /
          keyword / signed / arrow-function / list / JS-object arguments, 7 inner layouts, 14 carriers, nesting chains of round 3;
 (C5)     anchor plants: for every raise site with col_length=True (enumerated from the tree with ast; coverage measured and enforced) a
          statement in which an anchor token stands right in front of the missing text; anchors: keywords, numbers, selectors, string
          literals written in 22 ways, backtick strings, brackets of each kind on one / several lines, header-macro expansions;
          expected = the position right after the anchor's last character.
"""
from __future__ import annotations

import json
import re
from concurrent.futures import ThreadPoolExecutor

from lib import (Check, COMMON_TRUSTED, NCPU, REPO, VERIF, coq_bool, coq_opt, coq_str, coq_z, eval_cases, run_py)
from c13_corpus import corpus, FULL_CERT
from c14_lib import (COQ_HEADER, call_encodable, encodable, env_term, offset_of, pos_of, rtok_term, tcase_term, token_at)
from lib import known_for
import c14_gen4 as g4
import c14_json5 as j5

PROP = "C14"
RUNNER = VERIF / "harness" / "c14_run.py"
NEEDLE = "zzplantqq"
PLANT = NEEDLE + " 1;"
PROPOSED = VERIF / "reports" / "C13-known-findings-3.json"        # findings of strengthening round 1, not yet merged

# programs with the token shapes the corpus lacks (strengthening round 1); all valid on the tree under test or dropped
C14_EXTRA = [
    ("continuation", 'function f() { say "a\\\nb"; $x = 1; tellraw @a "l1\\\nl2\\\nl3"; if ($x == 1) { say "c\\\nd"; $y = 2; } $z = 3; }'),
    ("continuation_lines", 'function f() {\n    say "a\\\n    b";\n    $x = 1;\n    if ($x == 1) {\n        tellraw @a ["p\\\nq", {"text": "r\\\ns"}]; $y = 2;\n    }\n}\nfunction g() { say \'s\\\nt\'; f(); }'),
    ("signed_kwargs", 'function f() {\n    Particle.line("flame", distance=+5, spread=2);\n    Hardcode.repeat((i) => { say "i"; }, start=-1, stop=3, step=+1);\n    $r = Math.random(min=-5, max=+5);\n    Entity.launch(power=-1);\n}'),
    ("signed_kwargs_one_line", 'function f() { Hardcode.repeat((i) => { say "i"; $v = -1; }, start=-2, stop=+2, step=+1); $r = Math.random(min=-5, max=-1); Hardcode.switch($r, (i) => { say "i"; }, count=+3, begin_at=-1); }'),
    ("multiline_args", 'function f() {\n    Text.tellraw(@a,\n        "x\\\ny");\n    Particle.line("flame",\n        distance=+5,\n        spread=2);\n    $r = Math.random(\n        min=-5,\n        max=+5\n    );\n}'),
    ("top_level", 'Timer.add(t, runOnce, @a, () => { say "o\\\np"; $z = -1; });\n$g = -3;\nsay "top\\\nlevel"; $h = 0;'),
    ("lists_objs", 'function f() { Hardcode.repeatList((x, n) => { say "x n"; }, strings=["a\\\nb", "c"]); ::a = {k: [1, -2, {z: "w\\\nv"}], s: -1}; tellraw @a ["a", {"text": "b\\\nc"}]; $q = 1; }'),
    ("negatives", 'function f() { if ($x matches -5..-1) { say "a"; } execute if score @s o matches -3..-1 run say "m"; $x = -5; obj:@s[tag=a] = -1; ::n = -1.5f; $x *= -2; for ($i = -3; $i < -1; $i++) { say "n"; } }'),
    ("macros", 'function f() { $tp @s $(a) ~ ~-1; $x = (const) $(a); execute run { $tp @s $(k) ~ ~; } with {k: -1}; $say "$(a)\\\n$(b)"; $y = 2; }'),
    ("class_nested", 'class c {\n    function m() {\n        say "in\\\nclass"; Particle.circle("flame", radius=+1, spread=10);\n        if ($x == -1) { Entity.launch(power=-2); }\n    }\n}'),
]


# strengthening round 2 (tokenizer fix 9285cea): texts on which a stale `is_slash` flag changes the tokens - a `/` that ends a
# line / a comment / stands before skipped whitespace, followed by a `/`.  Compiled like the character mutants (valid or not:
# every Tokenizer.parse call is compared with the model, (A)); the first group is also part of the corpus (must compile).
SLASH_VALID = [
    ("slash_after_comment", 'function f() {\n    $x = 8; $x //\n/= 2;\n    $y = 3; // ends in a slash /\n    $y /= 3;\n    say "a"; //\n}'),
    ("slash_comment_slash_line", 'function f() {\n    $x = 8; // c/\n    $x /= 2; ///\n    $x\n/= 4;\n}\n// top /\nfunction g() { $z = 1; //\n$z /= 1; }'),
]
SLASH_PROBES = [
    '$x /\n/= 2;', '$x / /= 2;', '$x /\t/ 2;', 'function f() { $x = $y / /2; }', 'function f() { $x = $y /\n/ 2; }', '///\n/= 2;', '//\n/',
    'function f() { if ($x /\n/ 2 == 1) { say "a"; } }', 'function f() { if ($x / / 2 == 1) { say "a"; } }', 'function f() { foo(/\n/); }',
    'function f() { foo(a/ /b); bar(1 /\n/ 2, 3); }', 'say "a"; // trailing /\n/say "b";', 'say "a"; //\r\n/say "b";', '$x = 1 / // c /\n/ 2;',
    'function f() { $x = [1 /\n/ 2]; $y = {a: 1 / / 2}; }', '/ /', '/\n/', '(/\n/)', '(/ /)', '{/\n/ a;}', 'a/\n\n/b;', 'a / \n / b;', '# c /\n/ x;',
    'function f() { say "s/"; /say "t"; }', 'function f() { $x = 4; $x /= 2; /\n/ comment?\n}', 'execute run { / /\n }',
]


def run_jobs(jobs, chunk=60):
    chunks = [jobs[i:i + chunk] for i in range(0, len(jobs), chunk)]
    with ThreadPoolExecutor(max_workers=NCPU) as ex:
        res = list(ex.map(lambda c: run_py(RUNNER, c, timeout=900), chunks))
    return [r for rs in res for r in rs]


# ------------------------------------------------------------------ layouts

def layouts(src: str):
    """(name, text) variants with the same tokens: original, one line, tabs, CRLF line ends."""
    out = [("multi-line", src)]
    plain = "//" not in src and "#" not in src and "`" not in src and "\\\n" not in src
    if plain and "\n" in src:
        out.append(("one-line", src.replace("\n", " ")))
        out.append(("tabs-one-line", src.replace("\n", "\t")))
    else:
        t = re.sub(r"(?m)^( {4})+", lambda m: "\t" * (len(m.group(0)) // 4), src)
        t = t.replace("{ ", "{\t")
        if t != src:
            out.append(("tabs", t))
    if "\n" in src and "\r" not in src and "`" not in src:
        out.append(("crlf", src.replace("\n", "\r\n")))     # strengthening round 1: Windows line ends
    # strengthening round 2: the opening brace on a LATER line than the header it belongs to, headers broken over lines
    if "`" not in src:
        for lname, fn in (("allman", lambda t: allman(t, False)), ("allman-gap", lambda t: allman(t, True)), ("paren-break", paren_break)):
            t = fn(src)
            if t != src:
                out.append((lname, t))
    return out


def code_chars(text: str):
    """offsets of the characters of `text` that are code (not inside a string literal or a comment) - untrusted scanner:
    a wrong guess only yields a program that does not compile (dropped) or a layout that is not the intended one"""
    out, i, n, quote = [], 0, len(text), None
    while i < n:
        c = text[i]
        if quote:
            if c == "\\":
                i += 2
                continue
            if c == quote:
                quote = None
            i += 1
            continue
        if c in "'\"`":
            quote = c
        elif text.startswith("//", i) or (c == "#" and text[:i].rstrip(" \t")[-1:] in ("", "\n", ";", "{", "}")):
            j = text.find("\n", i)
            i = n if j < 0 else j
            continue
        else:
            out.append(i)
        i += 1
    return out


def allman(text: str, gap: bool) -> str:
    """every `{` that follows a space or a `)` on its line is moved to a line of its own (Allman braces);
    gap: with an empty line and a comment line between the header and the brace"""
    code = set(code_chars(text))
    out, last = [], 0
    for i in sorted(code):
        if text[i] != "{" or i == 0:
            continue
        j = i
        while j > last and text[j - 1] in " \t":
            j -= 1
        if j == i and text[i - 1] != ")":
            continue            # glued to a word (NBT of a vanilla command, `${`...): left alone
        if j == 0 or text[j - 1] == "\n":
            continue            # already first on its line
        ls = text.rfind("\n", 0, j) + 1
        indent = re.match(r"[ \t]*", text[ls:]).group(0)
        out.append(text[last:j])
        out.append(("\n\n" + indent + "// the brace is below\n" + indent) if gap else ("\n" + indent))
        last = i
    out.append(text[last:])
    return "".join(out)


def paren_break(text: str) -> str:
    """every non-empty round bracket of the code that is followed by a `{` (condition, parameter list, loop header) or that is an
    argument list containing a `,` is broken over lines: `(` newline content newline `)`; `&&` / `||` / `,` / `;` start new lines"""
    code = code_chars(text)
    cset = set(code)
    stack, pairs = [], {}
    for i in code:
        if text[i] in "([{":
            stack.append(i)
        elif text[i] in ")]}":
            if stack:
                o = stack.pop()
                if text[o] == "(" and text[i] == ")":
                    pairs[o] = i
    ins = {}
    for o, c in pairs.items():
        inner = text[o + 1:c]
        if not inner.strip() or "\n" in inner:
            continue
        after = text[c + 1:].lstrip(" \t\n")
        if not (after.startswith("{") or after.startswith("expand")):
            continue
        ls = text.rfind("\n", 0, o) + 1
        indent = re.match(r"[ \t]*", text[ls:]).group(0)
        ins[o + 1] = "\n" + indent + "\t"
        ins[c] = "\n" + indent
        depth = 0
        for k in range(o + 1, c):
            if k not in cset:
                continue
            if text[k] in "([{":
                depth += 1
            elif text[k] in ")]}":
                depth -= 1
            elif depth == 0 and (text.startswith("&&", k) or text.startswith("||", k)) and text[k - 1] == " ":
                ins[k] = "\n" + indent + "\t"
            elif depth == 0 and text[k] == ";" and text[k + 1:k + 2] == " ":
                ins[k + 1] = "\n" + indent + "\t"
    if not ins:
        return text
    out, last = [], 0
    for k in sorted(ins):
        out.append(text[last:k])
        out.append(ins[k])
        last = k
    out.append(text[last:])
    return "".join(out)


# ------------------------------------------------------------------ where to plant (untrusted scanner:
# a wrong guess only makes a plant ineffective; the planted position itself is exact by construction)

def boundaries(text: str):
    """[(offset, curly depth)] right after each `{` and after each `;` that is not inside ( ) [ ] or a string."""
    out = [(0, 0)]
    stack = []
    i, n = 0, len(text)
    quote = None
    while i < n:
        c = text[i]
        if quote:
            if c == "\\":
                i += 2
                continue
            if c == quote:
                quote = None
            i += 1
            continue
        if c in "'\"`":
            quote = c
        elif c == "/" and text[i:i + 2] == "//":
            j = text.find("\n", i)
            i = n if j < 0 else j
            continue
        elif c in "([{":
            stack.append(c)
            if c == "{":
                out.append((i + 1, stack.count("{")))
        elif c in ")]}":
            if stack:
                stack.pop()
        elif c == ";" and (not stack or stack[-1] == "{"):
            out.append((i + 1, stack.count("{")))
        i += 1
    return out


# ------------------------------------------------------------------ generated nests (depth 0-4)

# strengthening round 2: `\u00a6` = a place where the header may be broken (rendered as one space in the three original layouts),
# `\u2016` = the same, rendered as nothing there.  The new layouts put the opening brace on a later line than the header
# (Allman braces, optionally an empty line and a comment line in between) and break the header itself over lines.
CONSTRUCTS = {
    "function": ("function f%d\u2016()\u00a6{", "}"),
    "class": ("class c%d\u00a6{", "}"),
    "if": ("if\u00a6(\u2016$x ==\u00a6%d\u2016)\u00a6{", "}"),
    "ifelse": ("if ($x == %d)\u00a6{ say \"t\"; }\u00a6else\u00a6{", "}"),
    "elif": ("if ($x == %d) { say \"t\"; } else\u00a6if\u00a6(\u2016$y == 2\u2016)\u00a6{", "}"),
    "while": ("while\u00a6(\u2016$w <\u00a6%d\u2016)\u00a6{", "}"),
    "for": ("for\u00a6(\u2016$i = 0;\u00a6$i < %d;\u00a6$i++\u2016)\u00a6{", "}"),
    "do": ("do\u00a6{", "}\u00a6while\u00a6(\u2016$d < %d\u2016);"),
    "switch": ("switch\u00a6(\u2016$s\u2016)\u00a6{\u00a6case 1:\u00a6say \"%d\";", "}"),
    "execute": ("execute as @a[limit=%d] run\u00a6{", "}"),
    "expand": ("if ($e == %d)\u00a6expand\u00a6{", "}"),
    "arrow": ("Hardcode.repeat\u2016(\u2016(n%d)\u00a6=>\u00a6{", "},\u00a6start=1,\u00a6stop=2\u2016);"),
    "returnrun": ("return run\u00a6{", "}"),
    # strengthening round 2: further constructs that hand a body over
    "lazy": ("@lazy\u00a6function lz%d\u2016()\u00a6{", "}"),                 # parsed when called: the call is appended to the program
    "decorated": ("@add(__tick__)\u00a6function tk%d\u2016()\u00a6{", "}"),
    "arrow2": ("Raycast.simple\u2016(\u2016onHit=\u2016()\u00a6=>\u00a6{", "},\u00a6interval=0.1,\u00a6maxIter=5\u2016);"),
}
TOP_ONLY = {"function", "class", "decorated"}
ROOT_ONLY = {"lazy"}
IN_CLASS = {"function", "class", "decorated"}
BODY = [k for k in CONSTRUCTS if k not in TOP_ONLY and k not in ROOT_ONLY]
BASE_LAYOUTS = ("one-line", "multi-line", "tabs")
BRACE_LAYOUTS = ("allman", "allman-gap", "broken", "broken-tabs")     # strengthening round 2


BEFORE = ['say "before";', 'say "be\\\nfore";', 'tellraw @a ["x\\\ny", "z\\\nw"];',
          'Particle.line("flame", distance=+5, spread=2);', '$v = -1;',
          'say "h\u00e9 \u2713 \U0001d4b3";', 'say "c"; // comment { " ( \n']


def render(piece: str, layout: str, indent: str) -> str:
    """a construct's head / tail with its break marks resolved for the layout"""
    if layout in BASE_LAYOUTS:
        return piece.replace("\u00a6", " ").replace("\u2016", "")
    nl = "\n" + indent
    if layout == "allman":
        return piece.replace("\u00a6{", nl + "{").replace("\u00a6", " ").replace("\u2016", "")
    if layout == "allman-gap":
        return piece.replace("\u00a6{", "\n" + nl + "// the brace is below" + nl + "{").replace("\u00a6", " ").replace("\u2016", "")
    cont = nl + ("\t" if layout == "broken-tabs" else "  ")
    return piece.replace("\u00a6{", nl + "{").replace("\u00a6", cont).replace("\u2016", cont)


def nest_program(chain, layout, before=0, plant=None):
    """chain of construct names, outermost first; returns program text with the PLANT (or `plant`) in the innermost body,
    preceded (outside class bodies) by the statement BEFORE[before]."""
    plant = PLANT if plant is None else plant
    if layout == "one-line":
        sep, ind = " ", ""
    elif layout in ("tabs", "broken-tabs"):
        sep, ind = "\n", "\t"
    else:
        sep, ind = "\n", "    "
    lines = []
    for d, k in enumerate(chain):
        head = render(CONSTRUCTS[k][0], layout, ind * d)
        lines.append(ind * d + (head % (d + 1) if "%d" in head else head))
    d = len(chain)
    inner_is_class = bool(chain) and chain[-1] == "class"
    if not inner_is_class and chain:
        lines.append(ind * d + BEFORE[before])
    lines.append(ind * d + plant)
    for d in range(len(chain) - 1, -1, -1):
        tail = render(CONSTRUCTS[chain[d]][1], layout, ind * d)
        lines.append(ind * d + (tail % (d + 1) if "%d" in tail else tail))
    if chain and chain[0] == "lazy":
        lines.append("lz1();")
    if layout == "one-line":
        return " ".join(x.strip() for x in lines)
    return sep.join(lines)


def valid_chain(chain):
    for i, k in enumerate(chain):
        parent = chain[i - 1] if i else None
        if parent is None:
            continue
        if k in ROOT_ONLY:
            return False
        if parent == "class" and k not in IN_CLASS:
            return False
        if parent != "class" and k in TOP_ONLY:
            return False
    return True


def gen_nests(rng, tier):
    chains = [[]]
    kinds = list(CONSTRUCTS)
    for a in kinds:
        chains.append([a])
        for b in kinds:
            chains.append([a, b])
    chains = [c for c in chains if valid_chain(c)]
    n_deep = 60 if tier == "quick" else 600
    tries = 0
    while n_deep and tries < 100000:
        tries += 1
        depth = rng.choice([3, 4])
        c = [rng.choice(kinds) for _ in range(depth)]
        if valid_chain(c):
            chains.append(c)
            n_deep -= 1
    out = []
    for c in chains:
        for layout in BASE_LAYOUTS + BRACE_LAYOUTS:
            if not c and layout in BRACE_LAYOUTS:
                continue
            # shallow nests: every kind of statement in front of the plant; deeper ones: the plain one + a seeded other
            variants = range(len(BEFORE)) if len(c) <= 1 else sorted({0, rng.randrange(1, len(BEFORE))})
            if layout in BRACE_LAYOUTS:         # the brace layouts: the plain statement (shallow nests: + a seeded other), deeper: a seeded one
                variants = sorted({0, rng.randrange(1, len(BEFORE))}) if len(c) <= 1 else [rng.randrange(len(BEFORE))]
            if c and c[-1] == "class":
                variants = [0]
            for b in variants:
                out.append(dict(name="nest:" + ">".join(c) + ":" + layout + ":b%d" % b, src=nest_program(c, layout, b),
                                depth=len(c), layout=layout, header=None, kind="nest"))
    return out


# ------------------------------------------------------------------ argument-value plants (C2)

ARG_TEMPLATES = [   # (call with the argument slot {A}, key of that argument)
    ('Particle.line("flame", {A}, spread=2);', "distance"), ('Particle.line("flame", distance=5, {A});', "spread"),
    ('Particle.circle("flame", {A}, spread=10);', "radius"), ('Particle.spiral("flame", radius=1, {A}, spread=10);', "height"),
    ('Particle.square("flame", length=2, spread=4, {A});', "align"), ('Particle.square("flame", length=2, spread=4, {A}, mode=force);', "align"),
    ('Particle.cube("flame", length=2, spread=4, mode=force, {A});', "align"), ('Particle.square("flame", length=2, spread=4, align=corner, {A});', "mode"),
    ('Hardcode.repeat((i) => { say "i"; }, {A}, stop=3, step=1);', "start"), ('Hardcode.repeat((i) => { say "i"; }, start=1, stop=3, {A});', "step"),
    ('Hardcode.switch($x, (i) => { say "i"; }, {A});', "count"), ('Timer.set(t, @s, {A});', "tick"), ('$r = Math.random({A}, max=5);', "min"),
    ('Item.summon(it, "~ ~ ~", {A});', "count"), ('Entity.launch({A});', "power"), ('Text.tellraw(@a, {A});', "message"),
    ('Raycast.simple(onHit=() => { say "h"; }, {A}, maxIter=10);', "interval"), ('Particle.sphere("flame", radius=1.5, {A});', "spread"),
]
ARG_VALUES = ["-2", "+0", "0", '"zzq"', NEEDLE, "[1]", "{a:1}"]
ARG_FORMS = [("glued", "{k}={v}"), ("spaced", "{k} = {v}"), ("right", "{k}= {v}"), ("left", "{k} ={v}"), ("positional", "{v}")]
ARG_CONTEXTS = [
    ("function", "function f() { %s }"),
    ("nested-if", 'function f() { if ($x == 1) { say "t"; %s } }'),
    ("after-continuation", 'function f() {\n\tsay "c\\\nd"; %s\n}'),
    ("arrow-in-class", "class c { function f() { Hardcode.repeat((j) => { %s }, start=1, stop=2); } }"),
    ("multi-line-args", None),          # the call's own argument list broken over lines, tab-indented
    # strengthening round 2: every enclosing brace on a later line than its header
    ("allman-class", "class c\n{\n\tfunction f()\n\n\t// the brace is below\n\t{\n\t\tHardcode.repeat((j) =>\n\t\t{\n\t\t\t%s\n\t\t}, start=1, stop=2);\n\t}\n}"),
    ("allman-lazy", "@lazy\nfunction lz()\n{\n\tif ($x == 1)\n\t{\n\t\t%s\n\t}\n}\nfunction f()\n{\n\tlz();\n}"),
]


def arg_plants(rng, tier):
    out = []
    for tmpl, key in ARG_TEMPLATES:
        for v in ARG_VALUES:
            for fname, form in ARG_FORMS:
                arg = form.format(k=key, v=v)
                for cname, ctx in ARG_CONTEXTS:
                    if tier == "quick" and cname != "function" and rng.random() < 0.5:
                        continue
                    call = tmpl.replace("{A}", "\x00")
                    if ctx is None:
                        call = call.replace(", ", ",\n\t\t")
                        ctx = "function f() {\n\t%s\n}"
                    src = (ctx % call)
                    off = src.index("\x00") + arg.rindex(v)
                    src = src.replace("\x00", arg)
                    line, col = pos_of(src, off)
                    out.append(dict(name=f"arg:{key}:{v}:{fname}:{cname}", src=src, header=None, pack_format=None, line=line, col=col,
                                    key=key, value=v, form=fname, context=cname, layout=cname, depth=1, kind="arg"))
    return out


# ------------------------------------------------------------------ bracket plants (strengthening round 3): the offending
# token is a BRACKET that spans several lines.  \u27ea ... \u27eb delimit the bracket the diagnostic is expected to be about,
# \u00a6 marks the places inside it where a line may be broken.  Expected position, by construction: the bracket's first
# character (FUNC tokens: one column right of the brace; col_length diagnostics: right after its last character).
BO, BC = "\u27ea", "\u27eb"
BRACKET_TEMPLATES = [   # (name, where: body | top, statement)
    # round brackets: argument lists (arity / shape), loop and switch headers, parameter lists, conditions
    ("round-arity-builtin", "body", 'Text.tellraw' + BO + '(\u00a6@a,\u00a6 "x",\u00a6 "y",\u00a6 "z"\u00a6)' + BC + ';'),
    ("round-arity-user", "body", 'zg' + BO + '(\u00a61,\u00a6 2\u00a6)' + BC + ';'),
    ("round-user-list", "body", 'zg' + BO + '(\u00a6[1]\u00a6)' + BC + ';'),
    ("round-user-kwarg-list", "body", 'zg' + BO + '(\u00a6a=\u00a6[1]\u00a6)' + BC + ';'),
    ("round-for-two", "body", 'for ' + BO + '(\u00a6$i = 0;\u00a6 $i < 3\u00a6)' + BC + ' { say "a"; }'),
    ("round-for-four", "body", 'for ' + BO + '(\u00a6$i = 0;\u00a6 $i < 3;\u00a6 $i++;\u00a6 $j++\u00a6)' + BC + ' { say "a"; }'),
    ("round-for-empty", "body", 'for ' + BO + '(\u00a6)' + BC + ' { say "a"; }'),
    ("round-switch-empty", "body", 'switch ' + BO + '(\u00a6)' + BC + ' { case 1: say "a"; }'),
    ("round-if-empty", "body", 'if ' + BO + '(\u00a6)' + BC + ' { say "a"; }'),
    ("round-params-two", "body", 'Hardcode.repeat(' + BO + '(\u00a6i,\u00a6 j\u00a6)' + BC + ' => { say "a"; }, start=1, stop=2);'),
    ("round-params-none", "body", 'Hardcode.repeat(' + BO + '(\u00a6)' + BC + ' => { say "a"; }, start=1, stop=2);'),
    ("round-cond-nested", "body", 'if (' + BO + '(\u00a6zza &&\u00a6 zzb\u00a6)' + BC + ') { say "a"; }'),
    ("round-cond-operand", "body", 'if ($x == ' + BO + '(\u00a61\u00a6)' + BC + ') { say "a"; }'),
    ("round-cond-juxtaposed", "body", 'if (' + BO + '(\u00a6$x ==\u00a6 1\u00a6)' + BC + ' ($y == 2)) { say "a"; }'),
    ("round-else", "body", 'if ($x == 1) { say "a"; } else ' + BO + '(\u00a61\u00a6)' + BC + ' { say "b"; }'),
    ("round-do", "body", 'do { say "a"; } ' + BO + '(\u00a6$x\u00a6)' + BC + ';'),
    ("round-body-end", "body", 'if ($x == 1) ' + BO + '(\u00a6 say "a";\u00a6 )' + BC),
    ("round-function-params", "top", 'function zf' + BO + '(\u00a6a,\u00a6 b\u00a6)' + BC + ' { say "x"; }'),
    ("round-function-twice", "top", 'function zf() ' + BO + '(\u00a6)' + BC + ' { say "a"; }'),
    ("round-class", "top", 'class zc ' + BO + '(\u00a6)' + BC + ' { }'),
    ("round-new-empty", "root", 'new advancements' + BO + '(\u00a6)' + BC + ' { "a": 1 }'),
    ("round-new-two", "root", 'new advancements' + BO + '(\u00a6a.b,\u00a6 c\u00a6)' + BC + ' { "a": 1 }'),
    # square brackets: a list where something else is expected
    ("square-message", "body", 'Text.tellraw(@a, ' + BO + '[\u00a61,\u00a6 2\u00a6]' + BC + ');'),
    ("square-function", "body", 'Hardcode.repeat(' + BO + '[\u00a61,\u00a62\u00a6]' + BC + ', start=1, stop=2);'),
    ("square-kwarg", "body", 'Hardcode.repeat((i) => { say "i"; }, start=' + BO + '[\u00a61\u00a6]' + BC + ', stop=2);'),
    ("square-unknown-kwarg", "body", 'Hardcode.repeatLists((x) => { say "x"; }, strings=' + BO + '[\u00a6["a"],\u00a6 ["b", "c"]\u00a6]' + BC + ');'),
    ("square-cast", "body", '::a = (int) ' + BO + '[\u00a61\u00a6]' + BC + ';'),
    ("square-slice", "body", '::a' + BO + '[\u00a61:2:3\u00a6]' + BC + ' = 1;'),
    ("square-while", "body", 'do { say "a"; } while ' + BO + '[\u00a61\u00a6]' + BC + ';'),
    ("square-body-end", "body", 'while ($x == 1) ' + BO + '[\u00a6 say "a";\u00a6 ]' + BC),
    ("square-schedule-end", "body", 'schedule 5t ' + BO + '[\u00a6 say "a";\u00a6 ]' + BC),
    ("square-function-body", "top", 'function zf() ' + BO + '[\u00a6 say "a";\u00a6 ]' + BC),
    ("square-class-end", "top", 'class zc ' + BO + '[\u00a6 ]' + BC),
    # curly brackets: empty bodies, a JS object where something else is expected
    ("curly-switch-empty", "body", 'switch ($x) ' + BO + '{\u00a6}' + BC),
    ("curly-message", "body", 'Text.tellraw(@a, ' + BO + '{\u00a6a: 1\u00a6}' + BC + ');'),
    ("curly-message-empty", "body", 'Text.tellraw(@a, ' + BO + '{\u00a6}' + BC + ');'),
    ("curly-kwarg", "body", 'Hardcode.repeat((i) => { say "i"; }, start=' + BO + '{\u00a6a:1\u00a6}' + BC + ', stop=2);'),
    ("curly-strings-empty", "body", 'Hardcode.repeatList((x, n) => { say "x"; }, strings=' + BO + '{\u00a6}' + BC + ');'),
    ("curly-after-kwarg", "body", 'zg(a="1", ' + BO + '{\u00a6b:2\u00a6}' + BC + ');'),
    ("curly-with-second", "body", 'zg() with {a:1} ' + BO + '{\u00a6b:2\u00a6}' + BC + ';'),
    ("curly-after-call", "body", 'Text.tellraw(@a, "x") ' + BO + '{\u00a6a:1\u00a6}' + BC + ';'),
    ("curly-put", "body", 'JMC.put(' + BO + '{\u00a6a:1\u00a6}' + BC + ');'),
    ("curly-function-no-params", "top", 'function zf ' + BO + '{\u00a6 say "a";\u00a6 }' + BC),
    # arrow-function bodies (FUNC tokens)
    ("func-message", "body", 'Text.tellraw(@a, () => ' + BO + '{\u00a6 say "x";\u00a6 }' + BC + ');'),
    ("func-kwarg", "body", 'Hardcode.repeat((i) => { say "i"; }, start=() => ' + BO + '{\u00a6 say "z";\u00a6 }' + BC + ', stop=2);'),
]
# a multi-line bracket INSIDE a multi-line bracket (the break marks outside the marked bracket belong to the enclosing one)
BRACKET_TEMPLATES += [
    ("nested-square-in-round", "body", 'Text.tellraw(\u00a6@a,\u00a6 ' + BO + '[\u00a61,\u00a6 2\u00a6]' + BC + '\u00a6);'),
    ("nested-curly-in-round", "body", 'Particle.line(\u00a6"flame",\u00a6 distance=' + BO + '{\u00a6a:1\u00a6}' + BC + ',\u00a6 spread=2\u00a6);'),
    ("nested-func-in-round", "body", 'Text.tellraw(\u00a6@a,\u00a6 () =>\u00a6 ' + BO + '{\u00a6 say "x";\u00a6 }' + BC + '\u00a6);'),
    ("nested-params-in-round", "body", 'Hardcode.repeat(\u00a6' + BO + '(\u00a6i,\u00a6 j\u00a6)' + BC + ' => { say "a"; },\u00a6 start=1,\u00a6 stop=2\u00a6);'),
    ("nested-round-in-cond", "body", 'if (\u00a6$y == 2 &&\u00a6 ' + BO + '(\u00a6zza &&\u00a6 zzb\u00a6)' + BC + '\u00a6) { say "a"; }'),
    ("nested-for-in-arrow", "body", 'Raycast.simple(\u00a6onHit=() => {\u00a6 for ' + BO + '(\u00a6$i = 0;\u00a6 $i < 3\u00a6)' + BC
     + ' { say "a"; }\u00a6 },\u00a6 interval=0.1,\u00a6 maxIter=5\u00a6);'),
    ("nested-list-in-list", "body", 'Text.tellraw(@a, [\u00a6"a",\u00a6 ' + BO + '[\u00a61,\u00a6 zzq\u00a6]' + BC + '\u00a6]);'),
    ("nested-switch-in-case", "body", 'switch ($s) {\u00a6 case 1:\u00a6 switch ($t) ' + BO + '{\u00a6}' + BC + '\u00a6 }'),
    # the other kind of token that spans several lines: a backtick string (valid only with its text on lines of its own)
    ("btick-argument", "body", 'Timer.set(t, @s, ' + BO + '`\u00a6abc\u00a6`' + BC + ');'),
    ("btick-condition", "body", 'if (' + BO + '`\u00a6abc\u00a6`' + BC + ') { say "a"; }'),
    ("btick-nested", "body", 'Timer.set(\u00a6t,\u00a6 @s,\u00a6 ' + BO + '`\u00a6abc\u00a6`' + BC + '\u00a6);'),
]
BRACKET_LAYOUTS = ("flat", "lines", "tabs", "open", "close", "crlf", "gap")
BRACKET_CHAINS = {
    "body": [["function"], ["function", "if"], ["class", "function", "arrow"], ["function", "while", "execute"], ["function", "elif", "do"],
             ["function", "for", "switch"], ["decorated", "ifelse"], ["lazy", "if"], ["function", "arrow2", "returnrun"], ["function", "expand"]],
    "top": [[], ["class"], ["class", "class"]],
    "root": [[]],
}


def render_bracket(stmt: str, inner: str, indent: str) -> str:
    """the statement with the break marks inside the marked bracket resolved for the inner layout"""
    n = stmt.count("\u00a6")
    if inner == "flat":
        return stmt.replace("\u00a6", "")
    nl = "\r\n" if inner == "crlf" else "\n"
    step = "\t" if inner == "tabs" else "  "
    parts = stmt.split("\u00a6")
    out = [parts[0]]
    for k in range(1, len(parts)):
        first, last = (k == 1), (k == n)
        if inner == "open" and not first:
            brk = ""
        elif inner == "close" and not last:
            brk = ""
        else:
            brk = nl + indent + ("" if last else step)
            if inner == "gap" and first:
                brk = nl + nl + indent + step + "// inside the bracket" + nl + indent + ("" if last else step)
        out.append(brk + (parts[k].lstrip(" ") if brk else parts[k]))
    return "".join(out)


def bracket_plants(rng, tier):
    out = []
    k = 0
    for name, where, stmt in BRACKET_TEMPLATES:
        chains = BRACKET_CHAINS[where]
        for inner in BRACKET_LAYOUTS:
            if tier == "quick":
                picks = [chains[(k + i) % len(chains)] for i in range(min(2, len(chains)))]
            else:
                picks = chains
            k += 1
            for chain in picks:
                outers = (rng.choice(BASE_LAYOUTS), rng.choice(BRACE_LAYOUTS)) if tier == "quick" else \
                    (rng.choice(BASE_LAYOUTS),) + tuple(rng.sample(BRACE_LAYOUTS, 2))
                for outer in outers:
                    if not chain and outer in BRACE_LAYOUTS:
                        continue
                    ind = "" if outer == "one-line" else ("\t" if outer in ("tabs", "broken-tabs") else "    ")
                    plant = render_bracket(stmt, inner, ind * len(chain))
                    inner_is_class = bool(chain) and chain[-1] == "class"
                    src = nest_program(chain, outer, 0, plant=plant)
                    if where == "body":
                        src += "\nfunction zg() { say \"g\"; }"
                    o, c = src.index(BO), src.index(BC) - 1
                    src = src.replace(BO, "").replace(BC, "")
                    text = src[o:c]
                    if src.count(text) != 1:
                        continue
                    line, col = pos_of(src, o)
                    eline, ecol = pos_of(src, c)
                    out.append(dict(name=f"bracket:{name}:{inner}:{'>'.join(chain)}:{outer}", template=name, inner=inner, layout=outer,
                                    src=src, header=None, pack_format=None, line=line, col=col, end=[eline, ecol], bracket=text,
                                    depth=len(chain), kind="bracket", multiline=("\n" in text)))
    return out


SUBSTITUTES = re.compile(r"@lazy|Hardcode\.|JMC\.python|#define|#bind|#enum")
HEAD_RE = re.compile(r"^In .*?:(\d+)(?::(\d+))?$")
TAIL_RE = re.compile(r"^ at line (\d+)(?: col (\d+))?\.$")


def cited_by(e):
    """(header (line, col|None) | None, sentence (line, col|None) | None) written by one error_msg call"""
    h = HEAD_RE.match(e.get("head") or "")
    t = TAIL_RE.match(e.get("tail") or "")
    conv = lambda m: (int(m.group(1)), int(m.group(2)) if m.group(2) else None) if m else None
    return conv(h), conv(t)


# ------------------------------------------------------------------ expression plants: the needle as an operand of a
# condition / loop header / switch header / assignment / expression (positions inside re-tokenised round brackets)
EXPR_TEMPLATES = [
    'if ({N}) { say "a"; }', 'if ($x == 1 && {N}) { say "a"; }', 'if ($x == 1 || ($y == 2 && {N})) { say "a"; }', 'if (!{N}) { say "a"; }',
    'while ({N}) { say "a"; }', 'do { say "a"; } while ($x == 1 && {N});', 'for ($i = 0; {N}; $i++) { say "a"; }',
    'for ($i = 0; $i < 3; {N}) { say "a"; }', 'for ({N}; $i < 3; $i++) { say "a"; }', 'switch ({N}) { case 1: say "a"; }',
    'switch ($x) { case 1: say "a"; {N} 1; }', '$x = {N};', '$x += {N};', 'obj:@s = {N};', '::a = (int) {N};', 'if ($x matches 1..{N}) { say "a"; }',
    'if ($x == 1) { say "a"; } else {N} { say "b"; }', 'if ($x == 1) { say "a"; } else if ({N}) { say "b"; }',
    'if ($x == -1 && $y matches -3..-1 && {N}) { say "a"; }', 'Hardcode.repeat((i) => { if ({N}) { say "i"; } }, start=-1, stop=+2);',
]
EXPR_CONTEXTS = [("function", "function f() { %s }"), ("after-continuation", 'function f() {\n    say "c\\\nd"; %s\n}'),
                 ("class-if", "class c { function f() { if ($q == 1) { %s } } }"), ("tabs", "function f() {\n\t%s\n}"),
                 ("after-signed-kwarg", 'function f() { Particle.line("flame", distance=+5, spread=2); %s }')]


def expr_plants():
    out = []
    for t in EXPR_TEMPLATES:
        for cname, ctx in EXPR_CONTEXTS:
            src = ctx % t.replace("{N}", NEEDLE)
            line, col = pos_of(src, src.index(NEEDLE))
            out.append(dict(name=f"expr:{t[:24]}:{cname}", layout=cname, src=src, header=None, pack_format=None, line=line, col=col,
                            depth=2, kind="expr"))
            if cname in ("function", "class-if"):       # strengthening round 2: the header broken over lines / the brace on a later line
                for lname, fn in (("expr-paren-break", paren_break), ("expr-allman-gap", lambda x: allman(x, True)),
                                  ("expr-both", lambda x: allman(paren_break(x), False)),
                                  ("expr-kw-break", lambda x: re.sub(r"\b(if|while|for|switch|repeat) ?\(", r"\1\n\t(", paren_break(x)))):
                    src2 = fn(src)
                    if src2 != src and src2.count(NEEDLE) == 1:
                        line2, col2 = pos_of(src2, src2.index(NEEDLE))
                        out.append(dict(name=f"expr:{t[:24]}:{cname}:{lname}", layout=lname, src=src2, header=None, pack_format=None,
                                        line=line2, col=col2, depth=2, kind="expr"))
    return out


def needle_is_token(src: str) -> bool:
    """is the planted keyword a token of its own (not glued to keyword characters as in `1..zzplantqq`)?"""
    i = src.index(NEEDLE)
    kw = re.compile(r"[A-Za-z0-9_./^~$@#]")
    return not (i > 0 and kw.match(src[i - 1])) and not kw.match(src[i + len(NEEDLE):i + len(NEEDLE) + 1] or " ")


def about_value(msg_first_line: str, key: str, value: str) -> bool:
    """is the diagnostic about the planted argument (it names the key, or the planted keyword)?"""
    m = msg_first_line
    return (f"'{key}' key" in m or m.startswith(f"{key} can only") or f"'{key}' must" in m
            or (value == NEEDLE and NEEDLE in m))


# ------------------------------------------------------------------ mutants for diagnostic positions

SPECIAL = ['"', "'", "`", "\\", "{", "}", "(", ")", "[", "]", "/", "//", "#", ";", "\n", ",", "\t", "$", "=>",
           "\\n", "\\x", "\\u00e9", "\\N{DIGIT ONE}", "\\N{NOPE}", "\r", "é", "\\\n", "I;", "　", "\x1c"]


def char_mutants(rng, programs, n):
    out = []
    for _ in range(n):
        s = rng.choice(programs)
        for _ in range(rng.choice([1, 1, 2])):
            i = rng.randrange(len(s) + 1)
            op = rng.random()
            if op < 0.3 and i < len(s):
                s = s[:i] + s[i + 1:]
            elif op < 0.4:
                s = s[:i]
            else:
                s = s[:i] + rng.choice(SPECIAL) + s[i:]
        out.append(s)
    return out


# ------------------------------------------------------------------ the checks on one traced compile

def handover_failures(res):
    """(B) hand-overs of raw source text that do not pass the position of the text's first character,
    and tokens not cited where their text is.  Only texts that literally occur in file_string count."""
    bad, n_calls, n_tokens, skipped = [], 0, 0, 0
    for call in res["calls"]:
        if "out" not in call:
            continue
        fs = res["file_strings"][call["fs"]]
        if call["macros"] or call["string"] == "" or call["string"] not in fs:
            skipped += 1
            continue
        o = offset_of(fs, call["line"], call["col"])
        if o is None or not fs.startswith(call["string"], o):
            # raw text handed over at a wrong position, or text that merely resembles the source (merged /
            # cleaned-up / substituted tokens are re-tokenised too)?  It is a wrong position iff the very text
            # sits on the same line within three columns of the position that was passed.
            # strengthening round 2: ... or in the same column (within three) of ANOTHER line: the line of a hand-over is checked
            # as well as its column (a body whose brace is on a later line than its header handed over with the header's line)
            # Not a wrong position: the text at the passed position IS the handed text up to white space
            # (a cleaned-up bracket such as `[ta<CR>g=tag2]` re-tokenised as `tag=tag2`), even if the very
            # same text also occurs in the same column of a neighbouring line.
            if o is not None:
                squeeze = lambda t: re.sub(r"\s+", "", t)
                if squeeze(fs[o:o + 2 * len(call["string"]) + 16]).startswith(squeeze(call["string"])):
                    skipped += 1
                    continue
            occ = [pos_of(fs, m.start()) + (m.start(),) for m in re.finditer(re.escape(call["string"]), fs)]
            near = [o_ for l_, c_, o_ in occ if abs(c_ - call["col"]) <= 3 and (l_ == call["line"] or len(call["string"].strip()) >= 4)]
            if near:
                n_calls += 1
                bad.append(dict(kind="hand-over", text=call["string"][:200], passed=[call["line"], call["col"]],
                                true_positions=[list(pos_of(fs, x)) for x in near][:3]))
            else:
                skipped += 1
            continue
        n_calls += 1
        if call["out"]["kind"] == "ok":
            for st in call["out"]["programs"]:
                for tok in st:
                    n_tokens += 1
                    if not token_at(fs, tok):
                        bad.append(dict(kind="token", token=tok[:4], text_there=fs[(offset_of(fs, tok[1], tok[2]) or 0):][:20]))
    return bad, n_calls, n_tokens, skipped


def raw_handover_failures(res):
    """(B, strengthening round 2) bodies that are raw source text BY CONSTRUCTION (function / method / decorated / @lazy function:
    PreFunction; class: parse_class_content): the recorded (line, col) must be the position of the first character of the content
    in file_string - line as well as column, no heuristic.  -> (failures, checked, of those with the brace on a later line than the header)"""
    bad, n, n_later = [], 0, 0
    for h in res.get("raw_handovers", []):
        fs = res["file_strings"][h["fs"]]
        if h["macros"]:
            continue
        n += 1
        o = offset_of(fs, h["line"], h["col"]) if isinstance(h["line"], int) and isinstance(h["col"], int) else None
        if o is None or not fs.startswith(h["content"], o) or o == 0 or fs[o - 1] != "{":
            occ = [list(pos_of(fs, m.start() + 1)) for m in re.finditer(re.escape("{" + h["content"] + "}"), fs)]
            bad.append(dict(kind="raw-hand-over", api=h["api"], text=h["content"][:200], passed=[h["line"], h["col"]], true_positions=occ[:3]))
            continue
        ls = fs.rfind("\n", 0, o - 1) + 1
        if fs[ls:o - 1].strip() == "":
            n_later += 1
    return bad, n, n_later


_LEAD = re.compile(r"[A-Za-z0-9_.$@#~^]+")


def raw_at(fs: str, tok) -> bool:
    """does the token sit at its own, complete source text in the file?"""
    ty, line, col, string, quote = tok
    o = offset_of(fs, line, col)
    if o is None:
        return False
    if ty == "STRING":
        return fs[o:o + 1] in ("'", '"', "`") and fs[o:o + 1] != ""
    if ty == "FUNC":
        return o >= 1 and string != "" and fs.startswith(string, o - 1)
    return string != "" and fs.startswith(string, o)


def anchored(fs: str, tok) -> bool:
    """is a token BUILT from raw tokens cited where its text begins?  (merged / cleaned-up tokens keep only the
    beginning of their text: the leading word, else the first character)"""
    ty, line, col, string, quote = tok
    o = offset_of(fs, line, col)
    if o is None:
        return False
    if ty == "STRING":
        return fs[o:o + 1] in ("'", '"', "`") and fs[o:o + 1] != ""
    if ty == "FUNC":
        return o >= 1 and fs[o - 1] == "{"
    if string == "":
        return True
    m = _LEAD.match(string)
    lead = m.group(0) if m else string[0]
    return fs.startswith(lead, o)


def derived_failures(res):
    """(B2) tokens built from tokens by the other tokenizer entry points"""
    bad, n_calls, n_tokens, skipped = [], 0, 0, 0
    for d in res.get("derived", []):
        fs = res["file_strings"][d["fs"]]
        if d["macros"] or not d["in"] or not all(t[1] >= 1 and raw_at(fs, t) for t in d["in"]):
            skipped += 1
            continue
        n_calls += 1
        for t in d["out"]:
            if t[1] < 1:
                continue
            n_tokens += 1
            if not anchored(fs, t):
                # tokens merged across white space (`x 2` -> `x2`): the merged text is not in the file, the token is anchored at its
                # text iff it sits where the first given token's text is
                first_in = d["in"][0]
                if d["fn"] == "merge_tokens" and first_in[0] not in ("STRING", "FUNC") and first_in[3] and t[3].startswith(first_in[3]) \
                        and (offset_of(fs, t[1], t[2]) is not None) and fs.startswith(first_in[3], offset_of(fs, t[1], t[2])):
                    continue
                bad.append(dict(kind="derived-token", entry_point=d["fn"], token=t[:4], given=[x[:4] for x in d["in"]][:4],
                                text_there=fs[(offset_of(fs, t[1], t[2]) or 0):][:20]))
    return bad, n_calls, n_tokens, skipped


def sign_splits(res):
    """(A2) [(operator token `=-`/`=+` of the inner tokenisation, sign token parse_func_args returned)]"""
    out = []
    for d in res.get("derived", []):
        if d["fn"] != "parse_func_args" or d["macros"] or d.get("inner") is None or "kwargs" not in d:
            continue
        call = res["calls"][d["inner"]]
        if call.get("out", {}).get("kind") != "ok" or not call["out"]["programs"]:
            continue
        group = []
        groups = [group]
        for t in call["out"]["programs"][0]:
            if t[0] == "COMMA":
                group = []
                groups.append(group)
            else:
                group.append(t)
        for g in groups:
            if len(g) > 2 and g[1][3] in ("=-", "=+") and g[0][3] in d["kwargs"] and d["kwargs"][g[0][3]]:
                out.append((g[1], d["kwargs"][g[0][3]][0]))
    return out


def needle_in_raw_text(res) -> bool:
    """was the planted statement tokenised (last) from text that literally occurs in the file?"""
    last = None
    for call in res["calls"]:
        out = call.get("out")
        if out and out["kind"] == "ok" and any(t[3] == NEEDLE for st in out["programs"] for t in st):
            last = call
    if last is None:
        return True
    return last["string"] in res["file_strings"][last["fs"]]


def main(tier: str) -> int:
    ck = Check(PROP, tier)
    ck.cov["trusted_base"] = COMMON_TRUSTED[:1] + [
        "Model/Tok.v: hand-written character-exact port of Tokenizer.parse (tokenizer.py:285-735; header macros outside); "
        "Model/TokPos.v: pos_of, the three hand-over offsets (body/arrow/args), reach; tied to the tree by (A) token/diagnostic "
        "equality on every recorded Tokenizer.parse call, (B) the real hand-overs checked against file_string, (C) plants",
        "Model/TokCite.v: the position error_msg writes into header and sentence for a given token (tied by (E) on every recorded call); "
        "that the token given is the offending one is checked by construction on planted brackets (C3) and on unique texts (E3) only",
        "Model/TokDerived.v: the sign token parse_func_args splits off `=-`/`=+` (tied by (A2)); the other derived tokens "
        "(merge_tokens, split_keyword_token, parse_list/js_obj/component, merge_vanilla_macro) are not modelled: checked on the real side only (B2)",
        "harness: c14.py, c14_run.py (wraps Tokenizer.parse and the other tokenizer entry points from the runner process), c14_lib.py, "
        "Run/C14.v (UTF-8 decoding, comparison)",
        "str.isprintable / unicodedata tables are taken from the interpreter running the harness",
    ]
    ck.proof(extra_targets=["Run/C14.vo", "Run/C14Json.vo"])
    rng = ck.rng

    # ---- corpus in three layouts, traced
    progs = []
    extra = [dict(name="c14extra." + n, src=t, header=None, pack_format=None) for n, t in C14_EXTRA + SLASH_VALID]
    for c in corpus(REPO) + extra:
        for lname, text in layouts(c["src"]):
            progs.append(dict(name=c["name"], layout=lname, src=text, header=c["header"], pack_format=c["pack_format"],
                              kind="corpus"))
    jobs = [dict(src=p["src"], header=p["header"], cert=FULL_CERT, pack_format=p["pack_format"], timeout=10) for p in progs]
    res = run_jobs(jobs)
    valid = [(p, r) for p, r in zip(progs, res) if r["ok"]]

    # ---- mutants (diagnostic positions of the tokenizer itself)
    n_mut = 400 if tier == "quick" else 4000
    base = [p["src"] for p, _ in valid if p["header"] is None and p["layout"] == "multi-line"]
    muts = SLASH_PROBES + char_mutants(rng, base, n_mut)
    mres = run_jobs([dict(src=s, cert=FULL_CERT, timeout=5) for s in muts])

    # ---- (B) real hand-overs / token positions
    nB_calls = nB_tokens = nB_skipped = 0
    nD_calls = nD_tokens = nD_skipped = 0
    nR = nR_later = 0
    all_splits = []
    reportedB = set()
    for p, r in list(zip(progs, res)) + [(dict(name="mutant", layout="-", src=s, header=None), r) for s, r in zip(muts, mres)]:
        bad, a, b, sk = handover_failures(r)
        bad2, a2, b2, sk2 = derived_failures(r)
        bad3, a3, b3 = raw_handover_failures(r)
        nR += a3; nR_later += b3
        bad = bad3 + bad + bad2
        nB_calls += a; nB_tokens += b; nB_skipped += sk
        nD_calls += a2; nD_tokens += b2; nD_skipped += sk2
        all_splits.extend((p, x) for x in sign_splits(r))
        for f in bad:
            key = (f["kind"], p["name"].split(".")[0])
            if key in reportedB or len(reportedB) >= 5:
                continue
            reportedB.add(key)
            ck.violation(dict(kind="position-not-faithful", check="B", program=p["src"], header=p.get("header"),
                              layout=p["layout"], failure=f,
                              expected="nested tokenizer started at the position of the first character of the text it is given; "
                                       "every token cited at the position of its own text"))
    n_cont = sum(1 for p, r in valid if "\\\n" in p["src"])
    if n_cont < 5:
        ck.violation(dict(kind="corpus-ineffective", programs_with_string_continuation=n_cont,
                          note="the programs with backslash-newline continuations inside string literals no longer compile: "
                               "positions after such strings are not exercised"), no_input=True)

    # ---- (A) model == real on every recorded call
    calls, seen = [], set()
    n_crash_calls = 0
    for p, r in list(zip(progs, res)) + [(dict(name="mutant", src=s, header=None), r) for s, r in zip(muts, mres)]:
        for call in r["calls"]:
            if call["macros"] or "out" not in call or not call_encodable(call):
                continue
            if call["out"]["kind"] == "exc" and not call["out"]["jmc"]:
                n_crash_calls += 1      # an internal exception cites nothing: property C13's business
                continue
            kind = call["out"]["kind"]
            key = (call["string"], call["line"], call["col"], call["es"], call["alms"], call["allow_semi"])
            if key in seen:
                continue
            seen.add(key)
            calls.append((p, call, kind))
    header = COQ_HEADER + env_term([c["string"] for _, c, _ in calls])
    bad, errs = eval_cases(PROP, header, [tcase_term(c) for _, c, _ in calls], per_file=300, checker="tmismatches_r E")
    for e in errs:
        ck.violation(dict(kind="correspondence-file-failed", log=e), no_input=True)
    for i in bad[:5]:
        p, call, kind = calls[i]
        ck.violation(dict(kind="model-differs-from-tokenizer", check="A", program=p["src"], text=call["string"][:500],
                          start=[call["line"], call["col"]], flags=dict(es=call["es"], alms=call["alms"], allow_semi=call["allow_semi"]),
                          real=json.dumps(call["out"])[:1500],
                          theorem="C14_tok_pos / C14_diag_pos / C14_expected_semicolon_end no longer speak about the code"), no_input=True)

    # ---- (C) plants
    plant_jobs = []
    for p, r in valid:
        bs = boundaries(p["src"])
        if tier == "quick" and len(bs) > 8:
            bs = [bs[0]] + rng.sample(bs[1:], 7)
        for off, depth in bs:
            text = p["src"][:off] + " " + PLANT + " " + p["src"][off:]
            line, col = pos_of(text, off + 1)
            plant_jobs.append(dict(name=p["name"], layout=p["layout"], src=text, header=p["header"],
                                   pack_format=p["pack_format"], line=line, col=col, depth=depth, kind="corpus"))
    for g in gen_nests(rng, tier):
        off = g["src"].index(NEEDLE)
        line, col = pos_of(g["src"], off)
        plant_jobs.append(dict(name=g["name"], layout=g["layout"], src=g["src"], header=None, pack_format=None,
                               line=line, col=col, depth=g["depth"], kind="nest"))
    plant_jobs += expr_plants()
    plant_jobs += arg_plants(rng, tier)
    plant_jobs += bracket_plants(rng, tier)
    g4_args = (rng, tier, nest_program, render_bracket, BRACKET_CHAINS, BASE_LAYOUTS, BRACE_LAYOUTS, BRACKET_LAYOUTS)
    plant_jobs += g4.argdiag_plants(*g4_args)
    plant_jobs += g4.anchor_plants(*g4_args)
    pres = run_jobs([dict(src=j["src"], header=j["header"], cert=FULL_CERT, pack_format=j["pack_format"], timeout=10)
                     for j in plant_jobs], chunk=100)
    # (B)/(B2)/(A2) on what was tokenised before the diagnostic of the plant
    for j, r in zip(plant_jobs, pres):
        bad, a, b, sk = handover_failures(r)
        bad2, a2, b2, sk2 = derived_failures(r)
        bad3, a3, b3 = raw_handover_failures(r)
        nR += a3; nR_later += b3
        nB_calls += a; nB_tokens += b; nB_skipped += sk
        nD_calls += a2; nD_tokens += b2; nD_skipped += sk2
        all_splits.extend((j, x) for x in sign_splits(r))
        for f in bad3 + bad + bad2:
            key = (f["kind"], j["kind"])
            if key in reportedB or len(reportedB) >= 5:
                continue
            reportedB.add(key)
            ck.violation(dict(kind="position-not-faithful", check="B", program=j["src"], header=j["header"], layout=j["layout"],
                              failure=f, expected="every token (also those built by parse_func_args / merge_tokens / ...) cited at "
                                                  "the position of its own text"))
    n_named = n_unnamed_ok = n_other = n_compiled = n_generated = 0
    by_depth, by_layout, by_construct_brace = {}, {}, {}
    model_cases = []
    reportedC = 0
    n_stmt_plants = sum(1 for j in plant_jobs if j["kind"] not in ("arg", "bracket", "argdiag", "anchor"))
    n_arg = n_arg_about = 0
    arg_by_form, arg_by_ctx = {}, {}
    known_c14 = list(known_for(PROP))
    if False and PROPOSED.exists():  # merged into known_findings.json
        known_c14 += [f for f in json.loads(PROPOSED.read_text()) if f.get("property") == PROP and f["id"] not in {k["id"] for k in known_c14}]
    br = dict(total=0, multiline=0, about_bracket=0, about_multiline_bracket=0, at_end=0, other_token=0, compiled=0, no_diagnostic=0)
    br_by_template, br_by_inner, br_by_type, br_by_depth = {}, {}, {}, {}
    sites = g4.col_length_sites(REPO)
    site_hits, site_hits_string = {}, {}
    ad = dict(total=0, about=0, other=0, compiled=0, multiline=0)
    ad_by_error, ad_by_index, ad_by_carrier, ad_kw_before = {}, {}, {}, 0
    an = dict(total=0, at_end=0, other=0, compiled=0, multiline=0)
    an_by_kind, an_by_template = {}, {}
    for j, r in zip(plant_jobs, pres):
        for e in r.get("error_msgs", []):
            if e.get("cl"):
                si = g4.site_of(sites, e.get("site"))
                if si is not None:
                    site_hits[si] = site_hits.get(si, 0) + 1
                    if e.get("token") and e["token"][0] == "STRING":
                        site_hits_string[si] = site_hits_string.get(si, 0) + 1
        if j["kind"] in ("argdiag", "anchor"):
            final = [e for e in r.get("error_msgs", []) if e.get("message") and e["message"][:60] in (r.get("msg") or "")]
            whole = tuple(r["cited"]) if r.get("cited") else None
        if j["kind"] == "argdiag":
            # (C4) the diagnostic of an argument-list parser must cite the marked token
            ad["total"] += 1
            if r["ok"]:
                ad["compiled"] += 1
                continue
            first = next((ln for ln in (r.get("msg") or "").split("\n") if re.search(r" at line \d+(?: col \d+)?\.", ln)), "")
            if not r["jmc"] or not re.search(j["rx"], first) or not final:
                ad["other"] += 1
                continue
            ad["about"] += 1
            ad["multiline"] += j["multiline"]
            ad_by_error[j["family"] + ":" + j["error"]] = ad_by_error.get(j["family"] + ":" + j["error"], 0) + 1
            ad_by_index[j["index"]] = ad_by_index.get(j["index"], 0) + 1
            ad_by_carrier[j["carrier"]] = ad_by_carrier.get(j["carrier"], 0) + 1
            ad_kw_before += (j["n_kw"] > 0 and j["error"] == "comma")
            hdr, snt = cited_by(final[-1])
            exp = (j["line"], j["col"])
            if (snt != exp or (hdr is not None and hdr != exp) or whole != exp) and reportedC < 8:
                reportedC += 1
                ck.violation(dict(kind="diagnostic-cites-wrong-position", check="C4", program=j["src"], header=None, layout=j["layout"],
                                  depth=j["depth"], planted=dict(parser=j["family"], error=j["error"], argument_index=j["index"],
                                                                 keyword_arguments_before=j["n_kw"], carrier=j["carrier"], inner_layout=j["inner"]),
                                  expected=dict(line=exp[0], col=exp[1]), actual=dict(header=hdr, sentence=snt, message_of_the_compile=whole),
                                  message=r["msg"][:600], theorem="C14_args_comma_first_offending / C14_args_cite_given_token"))
            continue
        if j["kind"] == "anchor":
            # (C5) a col_length diagnostic about the anchor must cite the position right after the anchor's last character
            an["total"] += 1
            if r["ok"]:
                an["compiled"] += 1
                continue
            if not r["jmc"] or not final or not final[-1].get("token") or not final[-1]["cl"]:
                an["other"] += 1
                continue
            e = final[-1]
            if j["akind"] != "macro" and (e["token"][1], e["token"][2]) != (j["line"], j["col"]):
                an["other"] += 1
                continue
            an["at_end"] += 1
            an["multiline"] += j["multiline"]
            an_by_kind[j["akind"]] = an_by_kind.get(j["akind"], 0) + 1
            an_by_template[j["template"]] = an_by_template.get(j["template"], 0) + 1
            hdr, snt = cited_by(e)
            exp = tuple(j["end"])
            if (snt != exp or (hdr is not None and hdr != exp) or whole != exp) and reportedC < 8:
                reportedC += 1
                ck.violation(dict(kind="diagnostic-cites-wrong-position", check="C5", program=j["src"], header=j["header"], layout=j["layout"],
                                  depth=j["depth"], anchor=dict(template=j["template"], kind=j["akind"], text=j["anchor"], token=e["token"][:4],
                                                                raise_site=e.get("site"), token_length=e.get("tlen"), token_end=e.get("tend"),
                                                                recorded_end=e.get("trec")),
                                  expected=dict(line=exp[0], col=exp[1], what="the position right after the anchor token's last character"),
                                  actual=dict(header=hdr, sentence=snt, message_of_the_compile=whole), message=r["msg"][:600],
                                  theorem="C14_token_end / C14_expected_semicolon_end / C14_end_col_is_source_length"))
            continue
        if j["kind"] == "bracket":
            # (C3) the diagnostic's token is the planted bracket (its text occurs once in the file): the position written in the
            # header and in the sentence must be the bracket's first character (FUNC: one right; col_length: right after it)
            br["total"] += 1
            br["multiline"] += j["multiline"]
            if r["ok"]:
                br["compiled"] += 1
                continue
            ems = [e for e in r.get("error_msgs", []) if e.get("token")]
            if not r["jmc"] or not ems:
                br["no_diagnostic"] += 1
                continue
            e = ems[-1]
            ty, tl_, tc_, tstr, _q = e["token"]
            # (a backtick string: the token holds the decoded text; its quote attribute is lost when parse_func_args rebuilds the token)
            is_btick = ty == "STRING" and j["bracket"].startswith("`") and tstr.strip() != "" and tstr.strip() in j["bracket"]
            if not is_btick and (tstr != j["bracket"] or not (ty.startswith("PAREN") or ty == "FUNC")):
                br["other_token"] += 1
                continue
            br["about_bracket"] += 1
            if j["multiline"]:
                br["about_multiline_bracket"] += 1
                br_by_template[j["template"]] = br_by_template.get(j["template"], 0) + 1
                br_by_inner[j["inner"]] = br_by_inner.get(j["inner"], 0) + 1
                br_by_type[ty] = br_by_type.get(ty, 0) + 1
                br_by_depth[j["depth"]] = br_by_depth.get(j["depth"], 0) + 1
            if e["cl"]:
                br["at_end"] += 1
                exp = tuple(j["end"])
            else:
                exp = (j["line"], j["col"] + (1 if ty == "FUNC" else 0))
            hdr, snt = cited_by(e)
            whole = tuple(r["cited"]) if r.get("cited") else None
            got = dict(header=hdr, sentence=snt, message_of_the_compile=whole)
            if (snt != exp or (hdr is not None and hdr != exp) or whole != exp) and reportedC < 5:
                reportedC += 1
                ck.violation(dict(kind="diagnostic-cites-wrong-position", check="C3", program=j["src"], header=None, layout=j["layout"],
                                  depth=j["depth"], bracket=dict(template=j["template"], layout=j["inner"], text=j["bracket"], token_type=ty,
                                                                 col_length=e["cl"]),
                                  expected=dict(line=exp[0], col=exp[1]), actual=got, message=r["msg"][:600]))
            continue
        if r["ok"]:
            n_compiled += 1
            continue
        if not r["jmc"] or r["cited"] is None or r["cited"][1] is None:
            n_other += 1
            continue
        first = r["msg"].split("\n")[1] if "\n" in r["msg"] else r["msg"]
        # strengthening round 2: a diagnostic raised inside Hardcode.* is prefixed by a warning paragraph; the message line is the one
        # that cites the position
        first = next((ln for ln in r["msg"].split("\n") if re.search(r" at line \d+(?: col \d+)?\.", ln)), first)
        if j["kind"] == "arg":
            n_arg += 1
            if not about_value(first, j["key"], j["value"]):
                n_other += 1
                continue
            n_arg_about += 1
            arg_by_form[j["form"]] = arg_by_form.get(j["form"], 0) + 1
            arg_by_ctx[j["context"]] = arg_by_ctx.get(j["context"], 0) + 1
            if tuple(r["cited"]) != (j["line"], j["col"]):
                kf = [f for f in known_c14 if first.startswith(f.get("match", {}).get("message_prefix", "\x00"))]
                if kf:
                    ck.known(kf[0]["id"], kf[0]["what"])
                elif reportedC < 5:
                    reportedC += 1
                    ck.violation(dict(kind="diagnostic-cites-wrong-position", check="C2", program=j["src"], header=None,
                                      layout=j["context"], depth=1, argument=dict(key=j["key"], value=j["value"], form=j["form"]),
                                      expected=dict(line=j["line"], col=j["col"]), actual=dict(line=r["cited"][0], col=r["cited"][1]),
                                      message=r["msg"][:600]))
            continue
        named = NEEDLE in first
        cited = tuple(r["cited"])
        if not needle_in_raw_text(r):
            # the statement was re-tokenised from *generated* text (@lazy parameter substitution,
            # Hardcode.* index substitution, JMC.python output): not a re-tokenisation of raw source text
            n_generated += 1
            continue
        if named:
            n_named += 1
            by_depth[j["depth"]] = by_depth.get(j["depth"], 0) + 1
            by_layout[j["layout"]] = by_layout.get(j["layout"], 0) + 1
            if j["kind"] == "nest" and j["layout"] in BRACE_LAYOUTS:
                for k_ in set(j["name"].split(":")[1].split(">")):
                    by_construct_brace[k_] = by_construct_brace.get(k_, 0) + 1
            if cited != (j["line"], j["col"]):
                if reportedC < 5:
                    reportedC += 1
                    ck.violation(dict(kind="diagnostic-cites-wrong-position", check="C", program=j["src"], header=j["header"],
                                      layout=j["layout"], depth=j["depth"], expected=dict(line=j["line"], col=j["col"]),
                                      actual=dict(line=cited[0], col=cited[1]), message=r["msg"][:600]))
            # (deep_find re-tokenises round brackets as argument lists; a for-header is tokenised with
            #  expect_semicolon=True by the real code: those plants are checked on the real side only)
            if j["header"] is None and encodable(j["src"]) and not (j["kind"] == "expr" and (re.search(r"\bfor\s*\(", j["src"]) or not needle_is_token(j["src"]))):
                model_cases.append(j)
        elif cited == (j["line"], j["col"]):
            n_unnamed_ok += 1
        else:
            n_other += 1
    if tier == "quick" and len(model_cases) > 700:
        model_cases = rng.sample(model_cases, 700)
    pterms = [f"PC {coq_str(j['src'])} {coq_str(NEEDLE)} {coq_z(j['line'])} {coq_z(j['col'])}" for j in model_cases]
    pbad, perrs = eval_cases(PROP, COQ_HEADER + env_term([]), pterms, per_file=120, checker="pmismatches E", prefix="plants")
    for e in perrs:
        ck.violation(dict(kind="correspondence-file-failed", log=e), no_input=True)
    for i in pbad[:3]:
        j = model_cases[i]
        ck.violation(dict(kind="model-places-needle-elsewhere", check="C", program=j["src"], expected=dict(line=j["line"], col=j["col"]),
                          note="Tok.deep_find with the repaired hand-overs does not put the planted keyword at its position"),
                     no_input=True)
    if n_arg_about < 0.4 * max(1, n_arg) or len(arg_by_form) < 5:
        ck.violation(dict(kind="plants-ineffective", argument_plants=n_arg, about_the_argument=n_arg_about, forms=arg_by_form,
                          note="fewer than 40 % of the argument-value plants produced a diagnostic about the planted argument"),
                     no_input=True)
    lacking = sorted(k for k in CONSTRUCTS if by_construct_brace.get(k, 0) < 4)
    if lacking or (nR > 0 and nR_later < 100):      # nR == 0: PreFunction / parse_class_content no longer exist under these names (not alarmed)
        ck.violation(dict(kind="plants-ineffective", constructs_without_named_plants_in_brace_layouts=lacking,
                          raw_body_handovers_with_brace_on_a_later_line=nR_later,
                          note="a construct that hands a body over is no longer exercised with its opening brace on a later line than its header"),
                     no_input=True)
    if n_named + n_unnamed_ok < 0.5 * max(1, n_stmt_plants):
        ck.violation(dict(kind="plants-ineffective", named=n_named, at_plant=n_unnamed_ok, total=n_stmt_plants,
                          note="fewer than half of the planted statements were reported (by name or at the planted position): "
                               "the generator no longer exercises the property"),
                     no_input=True)

    n_templates_ok = sum(1 for t in BRACKET_TEMPLATES if br_by_template.get(t[0], 0) >= 3)
    types_ok = all(br_by_type.get(t, 0) >= 10 for t in ("PAREN_ROUND", "PAREN_SQUARE", "PAREN_CURLY", "FUNC"))
    if n_templates_ok < 0.7 * len(BRACKET_TEMPLATES) or not types_ok or len(br_by_inner) < len(BRACKET_LAYOUTS) - 1 or br["at_end"] < 10:
        ck.violation(dict(kind="plants-ineffective", bracket_plants=br, templates_with_3_multiline_plants=n_templates_ok,
                          templates=len(BRACKET_TEMPLATES), by_token_type=br_by_type, by_inner_layout=br_by_inner,
                          note="too few diagnostics are raised about the planted multi-line bracket: positions cited for tokens that "
                               "span several lines are no longer exercised"), no_input=True)

    # ---- (C4)/(C5) effectiveness, coverage of the col_length raise sites
    want_errors = [fam + ":" + e[0] for fam in ("args", "obj", "comp", "list", "param") for e in g4._errors(fam)]
    missing_errors = sorted(k for k in want_errors if ad_by_error.get(k, 0) < 3)
    if ad["about"] < 0.6 * max(1, ad["total"]) or len(missing_errors) > 3 or len(ad_by_index) < 5 or ad_kw_before < 20:
        ck.violation(dict(kind="plants-ineffective", argument_diagnostic_plants=ad, by_error=ad_by_error, by_index=ad_by_index,
                          doubled_comma_behind_keyword_arguments=ad_kw_before, errors_with_fewer_than_3_plants=missing_errors,
                          note="the diagnostics of the argument-list parsers are no longer reached at every argument index / behind keyword arguments"),
                     no_input=True)
    sites_reached = sorted(site_hits)
    sites_missed = [list(sites[i][:2]) + [sites[i][3]] for i in range(len(sites)) if i not in site_hits]
    if sites and (len(sites_reached) < 0.85 * len(sites) or an["at_end"] < 0.6 * max(1, an["total"]) or an_by_kind.get("str", 0) < 60
                  or len(site_hits_string) < 3):
        ck.violation(dict(kind="plants-ineffective", anchor_plants=an, by_anchor_kind=an_by_kind, col_length_sites=len(sites),
                          sites_reached=len(sites_reached), sites_reached_with_a_string_anchor=len(site_hits_string), sites_missed=sites_missed[:12],
                          note="the raise sites with col_length=True are no longer reached with anchors of every kind"), no_input=True)

    # ---- (E) every call of exception.error_msg recorded in any run: header == sentence == Model.TokCite.cite col_length token
    ecases, seen_e = [], set()
    n_err_calls = n_err_none = n_err_multiline = n_err_unparsed = 0
    reportedE = reportedE3 = n_err_unique = 0
    for p_, r in list(zip(progs, res)) + [(dict(name="mutant", layout="-", src=s_, header=None), r) for s_, r in zip(muts, mres)] + \
            list(zip(plant_jobs, pres)):
        for e in r.get("error_msgs", []):
            n_err_calls += 1
            hdr, snt = cited_by(e)
            if snt is None:
                n_err_unparsed += 1
                if reportedE < 3:
                    reportedE += 1
                    ck.violation(dict(kind="diagnostic-sentence-not-found", check="E", program=p_["src"], header=p_.get("header"),
                                      head=e.get("head"), tail=e.get("tail"),
                                      expected="error_msg writes `<message> at line L[ col C].` after the header line"))
                continue
            if hdr is None:
                n_err_unparsed += 1
                if reportedE < 3:
                    reportedE += 1
                    ck.violation(dict(kind="diagnostic-header-without-position", check="E", program=p_["src"], header=p_.get("header"),
                                      head=e.get("head"), tail=e.get("tail"),
                                      expected="error_msg writes `In <file>:<line>[:<col>]` as first line (the file of a virtual build lies under the "
                                               "working directory)"))
                continue
            if e["token"] is None:
                n_err_none += 1
                exp = (e["tl"], None if e["el"] else e["tc"])
                if (snt != exp or (hdr is not None and hdr != exp)) and reportedE < 3:
                    reportedE += 1
                    ck.violation(dict(kind="diagnostic-cites-wrong-position", check="E", program=p_["src"], header=p_.get("header"),
                                      expected=dict(line=exp[0], col=exp[1], what="the tokenizer's current position (no token given)"),
                                      actual=dict(header=hdr, sentence=snt)))
                continue
            tok = e["token"]
            # (E3) the token a diagnostic is about sits at its own text: when the program has no text substitution (@lazy, Hardcode.*,
            # JMC.python, header macros) and the token's text occurs exactly ONCE in the file, that occurrence is where it must be cited
            fs_ = r["file_strings"][e["fs"]] if e.get("fs") is not None and e["fs"] < len(r["file_strings"]) else None
            if fs_ is not None and not e["macros"] and p_.get("header") is None and not SUBSTITUTES.search(fs_) and tok[1] >= 1 \
                    and tok[0] not in ("STRING",) and len(tok[3]) >= 2 and fs_.count(tok[3]) == 1:
                n_err_unique += 1
                o_ = fs_.index(tok[3]) + (1 if tok[0] == "FUNC" else 0)
                if pos_of(fs_, o_) != (tok[1], tok[2]) and reportedE3 < 3:
                    reportedE3 += 1
                    ck.violation(dict(kind="diagnostic-cites-wrong-position", check="E3", program=p_["src"], header=None,
                                      token=tok[:4], message=e["message"],
                                      expected=dict(zip(("line", "col"), pos_of(fs_, o_)), what="the only occurrence of the token's text in the file"),
                                      actual=dict(line=tok[1], col=tok[2])))
            if not encodable(tok[3]) or len(tok[3]) > 4000:
                continue
            ml = "\n" in tok[3]
            key = (tuple(tok), e["cl"], e["el"], hdr, snt, tuple(e.get("trec") or ()), tuple(e.get("tend") or ()), e.get("tlen"))
            if key in seen_e:
                continue
            seen_e.add(key)
            n_err_multiline += ml
            ecases.append((p_, e, hdr if hdr is not None else snt, snt, ml))
    if tier == "quick" and len(ecases) > 1500:
        keep = [c for c in ecases if c[4] or (c[1]["cl"] and c[1]["token"][0] == "STRING")]
        rest = [c for c in ecases if not (c[4] or (c[1]["cl"] and c[1]["token"][0] == "STRING"))]
        ecases = keep[:1100] + rng.sample(rest, min(len(rest), 1500 - min(len(keep), 1100)))
    eterms = [g4.ercase_of(e, hdr, snt) for _, e, hdr, snt, _ in ecases]
    ebad, eerrs = eval_cases(PROP, COQ_HEADER + env_term([]), eterms, per_file=300, checker="ermismatches E", prefix="cites")
    for e_ in eerrs:
        ck.violation(dict(kind="correspondence-file-failed", log=e_), no_input=True)
    for i in ebad[:3]:
        p_, e, hdr, snt, ml = ecases[i]
        ck.violation(dict(kind="diagnostic-cites-wrong-position", check="E", program=p_["src"], header=p_.get("header"),
                          token=e["token"][:4], col_length=e["cl"], entire_line=e["el"], message=e["message"],
                          expected="header `In file:L:C` and sentence `at line L col C.` = the token's own (line, col); col_length: Token.end = the "
                                   "position right after the token (a string literal: the end the tokenizer recorded, else col + len(repr)); Token.length "
                                   "of a string literal on one line = recorded end column - start column - Model.TokEnd.cite_r / tok_len_r, "
                                   "theorems C14_error_start, C14_token_end, C14_end_col_is_source_length",
                          actual=dict(header=hdr, sentence=snt, token_position=e["token"][1:3], token_end=e.get("tend"), token_length=e.get("tlen"),
                                      recorded_end=e.get("trec"))))
    if n_err_multiline < 200:
        ck.violation(dict(kind="corpus-ineffective", error_msg_calls_about_multiline_tokens=n_err_multiline,
                          note="fewer than 200 distinct diagnostics about a token that spans several lines were recorded"), no_input=True)

    # ---- (X) recorded string-literal ends == Model.TokEnd.parse_ends, (G) argument-list parsers == Model.TokArgs
    all_runs = list(zip(progs, res)) + [(dict(name="mutant", layout="-", src=s_, header=None), r) for s_, r in zip(muts, mres)] + \
        list(zip(plant_jobs, pres))
    xcases, seen_x, n_x_noncanonical = [], set(), 0
    gcases, seen_g, g_skipped, g_by_fn, g_diags = [], set(), {}, {}, {}
    for p_, r in all_runs:
        for call in r["calls"]:
            if call["macros"] or call.get("out", {}).get("kind") != "ok" or not call.get("ends") or not call_encodable(call):
                continue
            key = (call["string"], call["line"], call["col"], call["es"], call["alms"], call["allow_semi"])
            if key in seen_x:
                continue
            seen_x.add(key)
            strs = [t for st in call["out"]["programs"] for t in st if t[0] == "STRING"]
            odd = any(en[4] != len(t[3]) + 2 or en[2] != en[0] for t, en in zip(strs, call["ends"]))
            n_x_noncanonical += odd
            xcases.append((p_, call, odd))
        for d in r.get("derived", []):
            term, why = g4.gcase_of(r, d)
            if term is None:
                g_skipped[why.split(":")[0]] = g_skipped.get(why.split(":")[0], 0) + 1
                continue
            if term in seen_g:
                continue
            seen_g.add(term)
            g_by_fn[d["fn"]] = g_by_fn.get(d["fn"], 0) + 1
            if "err" in d:
                a_ = g4.adiag_of(d["err"]["message"])
                g_diags[d["fn"] + ":" + a_] = g_diags.get(d["fn"] + ":" + a_, 0) + 1
            gcases.append((p_, d, term))
    if tier == "quick" and len(xcases) > 1500:
        odd_ = [c for c in xcases if c[2]]
        xcases = odd_[:1000] + rng.sample([c for c in xcases if not c[2]], 1500 - min(len(odd_), 1000))
    xterms = [g4.xcase_of(c) for _, c, _ in xcases]
    xbad, xerrs = eval_cases(PROP, COQ_HEADER + env_term([c["string"] for _, c, _ in xcases]), xterms, per_file=250, checker="xmismatches E", prefix="ends")
    for e_ in xerrs:
        ck.violation(dict(kind="correspondence-file-failed", log=e_), no_input=True)
    for i in xbad[:4]:
        p_, call, _ = xcases[i]
        strs = [t for st in call["out"]["programs"] for t in st if t[0] == "STRING"]
        ck.violation(dict(kind="string-literal-end-differs-from-model", check="X", program=p_["src"], header=p_.get("header"),
                          text=call["string"][:400], start=[call["line"], call["col"]],
                          string_tokens=[dict(at=en[:2], decoded=t[3][:60], token_end=en[2:4], token_length=en[4], end_recorded_by_tokenizer=en[5])
                                         for t, en in zip(strs, call["ends"])][:6],
                          expected="Token.end of a string literal = the position right after its closing quote (Model.TokEnd.parse_ends, "
                                   "theorems C14_string_end_recorded / C14_token_end); Token.length = end column - start column on one line"))
    if n_x_noncanonical < 40:
        ck.violation(dict(kind="corpus-ineffective", tokenizer_calls_with_a_string_literal_not_spelled_like_repr=n_x_noncanonical,
                          note="too few string literals written with escape sequences / continuation lines / backticks were tokenised"), no_input=True)
    if tier == "quick" and len(gcases) > 2500:
        diag_ = [c for c in gcases if "err" in c[1]]
        gcases = diag_[:1800] + rng.sample([c for c in gcases if "err" not in c[1]], 2500 - min(len(diag_), 1800))
    gbad, gerrs = eval_cases(PROP, COQ_HEADER + "From JMCV Require Import Model.TokArgs.\n", [t for _, _, t in gcases], per_file=250,
                              checker="gmismatches", prefix="args")
    for e_ in gerrs:
        ck.violation(dict(kind="correspondence-file-failed", log=e_), no_input=True)
    for i in gbad[:4]:
        p_, d, _ = gcases[i]
        ck.violation(dict(kind="argument-parser-differs-from-model", check="G", program=p_["src"], header=p_.get("header"), entry_point=d["fn"],
                          given=[x[:4] for x in d["in"]][:2], diagnostic=d.get("err"), returned=json.dumps(d.get("res"))[:600],
                          expected="the structure / the diagnostic and the token it cites of Model.TokArgs on the tokens of the inner tokenizer run "
                                   "(theorems C14_args_cite_given_token, C14_args_comma_first_offending)"))
    if len(g_diags) < 20 or g_diags.get("parse_func_args:AComma", 0) < 30:
        ck.violation(dict(kind="corpus-ineffective", argument_parser_diagnostics_compared=g_diags,
                          note="too few kinds of diagnostics of the argument-list parsers were recorded"), no_input=True)

    # ---- (A2) sign tokens split off `key=-N` / `key=+N` == Model.TokDerived.split_sign d_sign
    splits, seen_s = [], set()
    for p, (eq, sg) in all_splits:
        k = (tuple(eq), tuple(sg))
        if k not in seen_s and encodable(eq[3]) and encodable(sg[3]):
            seen_s.add(k)
            splits.append((p, eq, sg))
    if tier == "quick" and len(splits) > 600:
        splits = rng.sample(splits, 600)
    sterms = [f"SC ({rtok_term(eq)}) ({rtok_term(sg)})" for _, eq, sg in splits]
    sbad, serrs = eval_cases(PROP, COQ_HEADER, sterms, per_file=300, checker="smismatches", prefix="signs")
    for e in serrs:
        ck.violation(dict(kind="correspondence-file-failed", log=e), no_input=True)
    for i in sbad[:3]:
        p, eq, sg = splits[i]
        ck.violation(dict(kind="model-differs-from-tokenizer", check="A2", program=p["src"], header=p.get("header"), operator_token=eq[:4], sign_token=sg[:4],
                          expected="sign token = (type, line, col + 1, string[1:]) of the `=-` / `=+` operator token (Model.TokDerived.split_sign d_sign)",
                          theorem="C14_sign_split no longer speaks about the code"))
    if len(splits) < 20:
        ck.violation(dict(kind="corpus-ineffective", sign_splits=len(splits),
                          note="fewer than 20 distinct glued signed keyword arguments were recorded"), no_input=True)


    # ---- (J) strengthening round 5: JSON syntax errors (exception.JMCDecodeJSONError has its own position arithmetic)
    jplants = j5.json_plants(rng, tier)
    if tier == "quick":
        jfirst = [p for p in jplants if p["err_line"] == 1 and p["n_lines"] > 1]
        jrest = [p for p in jplants if not (p["err_line"] == 1 and p["n_lines"] > 1)]
        jplants = jfirst + rng.sample(jrest, min(len(jrest), 350))
    jres = run_jobs([dict(src=p["src"], cert=FULL_CERT, timeout=10) for p in jplants])
    jn = dict(total=len(jplants), json_diagnostic=0, at_planted_position=0, first_line_of_multiline_brace_not_col1=0, later_line=0, one_line=0,
              first_line_brace_col1=0)
    j_by_carrier, j_by_error, reportedJ = {}, {}, 0
    for p, r in zip(jplants, jres):
        if r["exc"] != "JMCDecodeJSONError":
            continue
        jn["json_diagnostic"] += 1
        j_by_carrier[p["carrier"]] = j_by_carrier.get(p["carrier"], 0) + 1
        j_by_error[p["error"]] = j_by_error.get(p["error"], 0) + 1
        cls = "one_line" if p["n_lines"] == 1 else "later_line" if p["err_line"] > 1 else \
            "first_line_brace_col1" if p["brace_col"] == 1 else "first_line_of_multiline_brace_not_col1"
        jn[cls] += 1
        if r["cited"] and tuple(r["cited"]) == (p["line"], p["col"]):
            jn["at_planted_position"] += 1
        elif reportedJ < 3:
            reportedJ += 1
            ck.violation(dict(kind="diagnostic-cites-wrong-position", check="J", program=p["src"], header=None, carrier=p["carrier"],
                              json_layout=p["inner"], error_kind=p["error"], error_on_line_of_the_json_text=p["err_line"], brace_col=p["brace_col"],
                              expected=dict(line=p["line"], col=p["col"], what="the file position of the offset where json.loads (run by the harness "
                                            "on the planted text) stops: offset of the text in the file + that offset"),
                              actual=dict(cited=r["cited"], message=r["msg"][:300]), theorem="C14_json_error_position"))
    if jn["json_diagnostic"] < 0.8 * len(jplants) or jn["first_line_of_multiline_brace_not_col1"] < 60 or jn["later_line"] < 60 \
            or jn["one_line"] < 20 or jn["first_line_brace_col1"] < 10 or len(j_by_carrier) < len(j5.NEW_CARRIERS) + len(j5.ARG_CARRIERS):
        ck.violation(dict(kind="plants-ineffective", json_plants=jn, by_carrier=j_by_carrier,
                          note="the JSON syntax-error plants no longer reach JMCDecodeJSONError in every carrier / on every line class"), no_input=True)
    # tie: EVERY JMCDecodeJSONError constructed in any compile of this run == Model.TokJson.json_cite; and, where json was given the
    # token's own text and that text occurs once in the file, == the file position of json's offset (computed here)
    jcases, seen_j, reportedJ2, j_records, j_unique = [], set(), 0, 0, 0
    for p_, r in all_runs + [(dict(src=p["src"], header=None), r) for p, r in zip(jplants, jres)]:
        for je in r.get("json_errs", []):
            j_records += 1
            tok = je["token"]
            if je["cited"] is None or je["cited"][1] is None:
                if reportedJ2 < 3:
                    reportedJ2 += 1
                    ck.violation(dict(kind="diagnostic-sentence-not-found", check="J", program=p_["src"], header=p_.get("header"), message=je["msg"][:300],
                                      expected="JMCDecodeJSONError writes `<json message> at line L col C.`"))
                continue
            fs_ = r["file_strings"][je["fs"]] if je.get("fs") is not None and je["fs"] < len(r["file_strings"]) else None
            if fs_ is not None and je["doc_is_token"] and not je["macros"] and p_.get("header") is None and not SUBSTITUTES.search(fs_) \
                    and fs_.count(tok[3]) == 1:
                j_unique += 1
                exp = pos_of(fs_, fs_.index(tok[3]) + je["pos"])
                if tuple(je["cited"]) != exp and reportedJ2 < 3:
                    reportedJ2 += 1
                    ck.violation(dict(kind="diagnostic-cites-wrong-position", check="J2", program=p_["src"], header=None, token=tok[:3],
                                      json_error=dict(lineno=je["lineno"], colno=je["colno"], pos=je["pos"]),
                                      expected=dict(zip(("line", "col"), exp), what="file position of the offset json.loads reported inside the token's text"),
                                      actual=dict(cited=je["cited"])))
            key = (tok[1], tok[2], je["lineno"], je["colno"], je["cited"][0], je["cited"][1])
            if key not in seen_j:
                seen_j.add(key)
                jcases.append((p_, je, key))
    jterms = ["JC " + " ".join(coq_z(x) for x in key) for _, _, key in jcases]
    jbad, jerrs = eval_cases(PROP, "From Coq Require Import ZArith List.\nFrom JMCV Require Import Run.Common Run.C14Json.\nImport ListNotations.\n"
                             "Open Scope Z_scope.\n", jterms, per_file=400, checker="jmismatches", prefix="json")
    for e_ in jerrs:
        ck.violation(dict(kind="correspondence-file-failed", log=e_), no_input=True)
    for i in jbad[:3]:
        p_, je, key = jcases[i]
        ck.violation(dict(kind="model-differs-from-exception", check="J", program=p_["src"], header=p_.get("header"), token=je["token"][:3],
                          json_error=dict(lineno=je["lineno"], colno=je["colno"]), cited=je["cited"],
                          expected="Model.TokJson.json_cite: line = token.line + lineno - 1; col = token.col + colno - 1 on the token's first line, else colno",
                          theorem="C14_json_error_position no longer speaks about the code"))
    if len(jcases) < 100:
        ck.violation(dict(kind="corpus-ineffective", json_error_constructions=len(jcases),
                          note="fewer than 100 distinct JMCDecodeJSONError constructions were recorded"), no_input=True)
    ck.cov.update(dict(json_error_plants=dict(jn, by_carrier=j_by_carrier, by_error_kind=j_by_error),
                       json_error_constructions=dict(recorded=j_records, distinct_compared_with_model=len(jcases), token_text_unique_in_file=j_unique)))

    kinds = {}
    for _, c, k in calls:
        kinds[k] = kinds.get(k, 0) + 1
    ck.cov.update(dict(
        evaluations=len(calls) + len(plant_jobs) + len(splits) + len(xcases) + len(gcases) + len(ecases),
        distinct_nontrivial=len(calls) + n_named + n_arg_about + len(splits) + ad["about"] + an["at_end"] + len(gcases) + len(xcases),
        rule="(A) distinct (text, start, flags) calls of Tokenizer.parse recorded on corpus x layouts + character mutants, each compared "
             "token-for-token / diagnostic-position with Tok.parse in Coq; (C) planted statements reported by name; "
             "distinct_nontrivial = distinct calls + named plants",
        programs=len(progs) + len(muts) + len(plant_jobs),
        tokenizer_calls_compared=len(calls), call_outcomes=kinds, calls_ending_in_internal_exception_skipped=n_crash_calls,
        handovers_checked=nB_calls, raw_body_handovers_checked_line_and_col=nR, raw_body_handovers_with_brace_on_a_later_line=nR_later,
        slash_probes=len(SLASH_PROBES),  tokens_checked_against_file=nB_tokens, generated_text_calls_skipped=nB_skipped,
        derived_token_calls_checked=nD_calls, derived_tokens_checked=nD_tokens, derived_calls_skipped_not_raw=nD_skipped,
        sign_splits_compared_with_model=len(splits), programs_with_string_continuation=n_cont,
        argument_plants=dict(total=n_arg, about_the_argument=n_arg_about, by_form=arg_by_form, by_context=arg_by_ctx),
        plants=dict(total=len(plant_jobs), reported_by_name=n_named, unnamed_but_at_plant=n_unnamed_ok,
                    other_diagnostic=n_other, still_compiles=n_compiled, in_generated_text=n_generated, by_depth=by_depth, by_layout=by_layout,
                    named_in_brace_layouts_by_construct=by_construct_brace,
                    compared_with_model=len(model_cases)),
        disagreements_checked=len(bad) + len(pbad) + len(sbad) + len(ebad) + len(xbad) + len(gbad),
        bracket_plants=dict(br, by_template=br_by_template, by_inner_layout=br_by_inner, by_token_type=br_by_type, by_depth=br_by_depth),
        error_msg_calls=dict(recorded=n_err_calls, without_token=n_err_none, distinct_compared_with_model=len(ecases),
                             about_a_multiline_token=n_err_multiline, sentence_not_found=n_err_unparsed,
                             token_text_unique_in_file_checked_at_its_text=n_err_unique),
        argument_diagnostic_plants=dict(ad, by_error=ad_by_error, by_index=ad_by_index, by_carrier=ad_by_carrier,
                                        doubled_comma_behind_keyword_arguments=ad_kw_before),
        anchor_plants=dict(an, by_anchor_kind=an_by_kind, by_template=an_by_template),
        col_length_raise_sites=dict(enumerated=len(sites), reached=len(sites_reached), reached_with_a_string_anchor=len(site_hits_string),
                                    missed=sites_missed),
        string_literal_ends=dict(tokenizer_calls_compared=len(xcases), with_a_literal_not_spelled_like_repr=n_x_noncanonical),
        argument_parser_calls=dict(compared=len(gcases), by_entry_point=g_by_fn, diagnostics=g_diags, skipped=g_skipped),
        samples=[dict(program=j["src"][:160], planted=[j["line"], j["col"]]) for j in plant_jobs[:2] + plant_jobs[-2:]],
    ))
    return ck.finish()


def replay(path: str) -> int:
    rp = json.loads(open(path).read())
    src = rp.get("program")
    if src is None:
        print("replay file has no program (proof/correspondence breakage):", rp.get("kind"))
        return 1
    r = run_jobs([dict(src=src, header=rp.get("header"), cert=FULL_CERT, timeout=10)])[0]
    print("program:", repr(src)[:400])
    if rp.get("kind") == "diagnostic-cites-wrong-position":
        print("expected: line %(line)s col %(col)s" % rp["expected"])
        print("actual  :", r["exc"], r["cited"])
        return 0 if r["cited"] and tuple(r["cited"]) == (rp["expected"]["line"], rp["expected"]["col"]) else 1
    if rp.get("check") == "J":
        # JMCDecodeJSONError constructions of this compile against the arithmetic of Model.TokJson.json_cite, redone here
        n_bad = 0
        for je in r.get("json_errs", []):
            tl, tc = je["token"][1:3]
            exp = [tl + je["lineno"] - 1, tc + je["colno"] - 1 if je["lineno"] == 1 else je["colno"]]
            print("token at", (tl, tc), "json error at", (je["lineno"], je["colno"]), "expected", exp, "actual", je["cited"])
            n_bad += je["cited"] != exp
        return 1 if n_bad else 0
    if rp.get("check") == "X":
        # untrusted re-scan of the file text: a literal runs from its opening quote to the next unescaped occurrence of that quote
        n_bad = 0
        for call in r["calls"]:
            fs = r["file_strings"][call["fs"]]
            for en in call.get("ends") or []:
                o = offset_of(fs, en[0], en[1])
                if o is None or call["string"] not in fs or fs[o:o + 1] not in ("'", '"', "`"):
                    continue
                k, q = o + 1, fs[o]
                while k < len(fs) and fs[k] != q:
                    k += 2 if fs[k] == "\\" else 1
                exp = pos_of(fs, k + 1)
                if tuple(en[2:4]) != exp:
                    n_bad += 1
                    print("string literal at", en[:2], "expected end", exp, "actual Token.end", en[2:4], "Token.length", en[4])
        print("expected: Token.end of every string literal = the position right after its closing quote; mismatches:", n_bad)
        return 1 if n_bad else 0
    if rp.get("check") == "G":
        ds = [d for d in r.get("derived", []) if d["fn"] == rp.get("entry_point")]
        print("expected:", rp.get("expected"))
        print("actual  :", [(d.get("err") or {}).get("token") or "returned" for d in ds][:6], "| recorded:", (rp.get("diagnostic") or {}).get("token"))
        same = any((d.get("err") or {}).get("token") == (rp.get("diagnostic") or {}).get("token") for d in ds)
        return 1 if same else 0
    bad, a, b, _ = handover_failures(r)
    bad2, a2, b2, _ = derived_failures(r)
    bad3, a3, _ = raw_handover_failures(r)
    bad, a, b = bad3 + bad + bad2, a + a2 + a3, b + b2
    if rp.get("check") == "A2":
        ok = all(sg[:2] == eq[:2] and sg[2] == eq[2] + 1 and sg[3] == eq[3][1:] for eq, sg in sign_splits(r))
        print("expected: sign token = (type, line, col + 1, string[1:]) of the `=-` / `=+` operator token")
        print("actual  :", [(eq[:4], sg[:4]) for eq, sg in sign_splits(r)][:4])
        return 0 if ok else 1
    print("expected: every hand-over / token at the position of its text (%d hand-overs / entry-point calls, %d tokens looked at)" % (a, b))
    print("actual  :", bad[:3] if bad else "all faithful", "| outcome:", r["exc"], r["cited"])
    return 1 if bad else 0
