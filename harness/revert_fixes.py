"""Experiment (not a registered check): for every `fixed:` entry of known_findings.json, revert that one commit in a scratch
worktree of /repo (git revert --no-commit; skipped when later commits conflict) and run the property's quick check against it.
A `fixed` entry suppresses nothing, so the check must report a VIOLATION again.  Prints one JSON line per entry.
   /venv/bin/python harness/revert_fixes.py [parallel=4] [PROP ...]"""
import json
import os
import re
import subprocess
import sys
import tempfile
from concurrent.futures import ThreadPoolExecutor

VERIF = os.path.dirname(os.path.dirname(os.path.abspath(__file__)))


def sh(cmd, cwd=None, timeout=3600, env=None):
    p = subprocess.run(cmd, shell=True, cwd=cwd, stdout=subprocess.PIPE, stderr=subprocess.STDOUT, timeout=timeout, env=env)
    return p.returncode, p.stdout.decode(errors="replace")


def one(entry):
    prop, sha = entry
    d = tempfile.mkdtemp(prefix="revwt_", dir="/tmp")
    os.rmdir(d)
    rc, out = sh(f"git -C /repo worktree add -q --detach {d} HEAD")
    if rc:
        return dict(property=prop, commit=sha, result="worktree-failed", out=out[-200:])
    try:
        rc, out = sh(f"git revert --no-commit {sha}", cwd=d)
        if rc:
            return dict(property=prop, commit=sha, result="revert-conflicts-with-later-commits")
        rc, out = sh("/venv/bin/python -m pytest -q -p no:cacheprovider src/tests 2>&1 | tail -1", cwd=d)
        suite = out.strip()
        tag = os.path.basename(d)
        env = dict(os.environ, JMC_REPO=d, VERIF_RUN_TAG=tag, VERIF_EVIDENCE_DIR=f"/tmp/{tag}_ev", VERIF_REPLAY_DIR=f"/tmp/{tag}_rp",
                   VERIF_JOBS="4")
        rc, out = sh(f"./check {prop} --tier quick", cwd=VERIF, env=env)
        viol = re.findall(r"^VIOLATION .*$", out, re.M)
        sh(f"rm -rf {VERIF}/coq/Gen/{tag} /tmp/{tag}_ev /tmp/{tag}_rp")
        concrete = [v for v in viol if "no-failing-input-found" not in v]
        return dict(property=prop, commit=sha, suite=suite, check_rc=rc, violations=len(viol), concrete=len(concrete),
                    result="reported again" if rc == 1 and viol else "NOT REPORTED")
    finally:
        sh(f"git -C /repo worktree remove --force {d}")
        sh(f"rm -rf {d}")


if __name__ == "__main__":
    par = int(sys.argv[1]) if len(sys.argv) > 1 else 4
    only = set(sys.argv[2:])
    d = json.load(open(os.path.join(VERIF, "known_findings.json")))
    entries = []
    for line in d["fixed"]:
        m = re.match(r"fixed: property=(C\d\d) ([0-9a-f]{7,}) ", line)
        if m and (not only or m.group(1) in only):
            entries.append((m.group(1), m.group(2)))
    with ThreadPoolExecutor(par) as ex:
        for r in ex.map(one, entries):
            print(json.dumps(r), flush=True)
