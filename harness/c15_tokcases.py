"""Directed inputs for the tokenizer correspondence of C15 (strengthening round 1): a `//` comment behind every kind
of token, glued to it or after a blank, with every class of comment content, followed by every kind of continuation.

A case is one call of `Tokenizer.parse` (string, line, col, expect_semicolon, ...); the real result and the result of
Model.Layout.parse must be equal (token streams with positions, or both rejected).  These strings need not be
programs, and need not be legal re-layouts (`a /` + `// c` is `a` + `/// c`): the model must agree on all of them.
"""
from __future__ import annotations

from c15_layout import NASTY_COMMENTS

# (class of the token the comment follows, text before the comment)
PRE = [
    ("word", "tp abc"), ("number", "tp @s ~ ~1"), ("number", "x 42"), ("selector", "execute as @a"),
    ("selector_bracket", "kill @e[type=pig]"), ("operator", "$a +"), ("operator", "$a =="), ("operator", "$x -"),
    ("operator", "a :"), ("operator", "$x ="), ("round", "f(x)"), ("round", "if ($x > 1)"), ("square", "a[0]"),
    ("curly", "x {a:1b}"), ("curly", "execute run { say \"a\"; }"), ("dq_string", "say \"s t\""), ("sq_string", "say 's'"),
    ("comma", "f a,"), ("semicolon", "a b;"), ("dollar", "$v"), ("dotted", "a.b"), ("start", ""), ("whitespace", "a  "),
    ("slash", "$a /"), ("slash", "a/b/"), ("slash_eq", "$x /="), ("open_round", "f("), ("open_curly", "g {"),
    ("backslash", "a \\"), ("hash_line", "# hash comment"), ("keyword_if", "if"), ("else", "} else"),
]
GLUE = [("glued", ""), ("blank", " "), ("tab", "\t"), ("two_blanks", "  "), ("newline", "\n"), ("slash_before", "/")]
# what follows the comment
NEXT = [
    ("next_line_token", "\n~;"), ("next_line_two", "\n  b c;"), ("next_line_semicolon", "\n;"), ("eof", ""),
    ("newline_eof", "\n"), ("second_comment", "\n// second\nd;"), ("second_comment_glued", "\nd// second\n;"),
    ("next_line_slash_eq", "\n/= 3;"), ("next_line_slash", "\n/ 2;"), ("blank_lines", "\n\n\n e;"),
    ("close_after", "\n) y;"), ("string_next", "\n\"q\";"),
]
WRAP = [("top", "<S>"), ("in_round", "f(<S>\n) z;"), ("in_curly", "run {<S>\n} z;"), ("in_square", "a[<S>\n] z;")]


def gen(rng, n_random: int):
    """-> (jobs for c15_run op=parse, meta).  Exhaustive small part: every PRE x GLUE with a plain comment and the
    first continuation, in both tokenizer modes; then n_random cases drawn from the full product."""
    jobs, meta = [], []

    def add(pre, glue, sp, content, nxt, wrap, es, cls):
        body = pre[1] + glue[1] + "//" + sp + content + nxt[1]
        s = wrap[1].replace("<S>", body)
        jobs.append(dict(string=s, line=rng.choice([1, 1, 7]), col=rng.choice([1, 1, 4]), expect_semicolon=es,
                         allow_last=rng.random() < 0.3, allow_semicolon=False))
        meta.append(dict(pre=pre[0], glue=glue[0], content=cls, next=nxt[0], wrap=wrap[0], es=es))

    for pre in PRE:
        for glue in GLUE:
            add(pre, glue, " ", "c", NEXT[0], WRAP[0], True, "plain")
            add(pre, glue, "", "c", NEXT[3], WRAP[0], False, "plain")
    classes = sorted(NASTY_COMMENTS)
    for cls in classes:                       # every content class behind a glued word / operator / bracket / string
        for pre in (PRE[0], PRE[5], PRE[10], PRE[15]):
            for t in NASTY_COMMENTS[cls]:
                add(pre, GLUE[0], "", t, NEXT[0], WRAP[0], True, cls)
    for _ in range(n_random):
        cls = rng.choice(classes + ["plain"])
        t = rng.choice(NASTY_COMMENTS[cls]) if cls != "plain" else rng.choice(["c", "note x", "up"])
        add(rng.choice(PRE), rng.choice(GLUE[:2] * 3 + GLUE), rng.choice(["", " "]), t, rng.choice(NEXT), rng.choice(WRAP[:1] * 3 + WRAP),
            rng.random() < 0.7, cls)
    return jobs, meta
