"""Rewrite the generated parts of DESIGN.md section 10.3 from known_findings.json (between the HTML comment markers).
Not part of any registered check."""
import json
import os
import re

VERIF = os.path.dirname(os.path.dirname(os.path.abspath(__file__)))
d = json.load(open(os.path.join(VERIF, "known_findings.json")))
by = {}
for line in d["fixed"]:
    m = re.match(r"fixed: property=(C\d\d) ([0-9a-f]{7,}) (.*)", line, re.S)
    assert m, line
    what = m.group(3)
    if len(what) > 330:
        what = what[:327] + "..."
    by.setdefault(m.group(1), []).append(f"{what} ({m.group(2)})")
fixed_md = "\n".join(f"* **{p}** ({len(v)}): " + "; ".join(v) for p, v in sorted(by.items()))
known_md = "\n".join(f"* `{f['id']}` ({f['property']}): " + (f["what"] if len(f["what"]) <= 330 else f["what"][:327] + "...") for f in d["findings"])
p = os.path.join(VERIF, "DESIGN.md")
s = open(p).read()
for tag, body in (("fixed-list", fixed_md), ("known-list", known_md)):
    a, b = f"<!-- BEGIN {tag} -->", f"<!-- END {tag} -->"
    assert a in s and b in s, tag
    s = s[:s.index(a) + len(a)] + "\n" + body + "\n" + s[s.index(b):]
open(p, "w").write(s)
print("fixed:", sum(len(v) for v in by.values()), "known:", len(d["findings"]))
