"""C09 — string, JSON and NBT literals reach the output unmodified in every context.

Proof step (Props/C09.vo) + tie: adversarial literals x contexts x carriers, each case with a unique
marker; the Coq model's predicted output line (Run/C09.v, evaluated by coqc) must equal the line the
real compiler emitted.  Independently of the model, an oracle decodes the real line (say: raw text,
JSON: json.loads, NBT: SNBT unquote) and compares it with the value of the source literal: a mismatch
there is a concrete failing input.
Strengthening round 3: literals that are EXACTLY a spelling the statement dispatcher compares token text with (`::`, `=`, `matches`,
`run`, `()` ... read from the tree under test), alone and with one leading / trailing blank, in every carrier incl. the literal as
token 1 of the statement (`me <lit>`) and `function <lit>`; such literals hold no marker - the output line is located with a twin
program whose literal is the marker.
Strengthening round 4 (c09_gen.py): literals that MIX non-ASCII text with every escape form (the decoding of __parse_string over
code points: Model.Lit pyun / sp_*, theorem C09_decode_spelling; the named escape is modelled, the name table is passed per case); formatted
text (`&x`, `&&`, `&<..>`) through the Gallina model of FormattedText (theorem C09_formatted_text_preserved) with blank runs at
every position; more sinks (Text.title / subtitle / actionbar, printf, summon NBT, hover JSON, JSON files via `new`, @lazy bodies
and arguments, Hardcode.repeat bodies, Debug.watch(src=true))."""
from __future__ import annotations

import ast
import json
import re
import warnings

import os

import c09_gen as G
from lib import (Check, COMMON_TRUSTED, VERIF, compile_batch, coq_str, known_for, run_coq_files, parse_nat_list)

PROP = "C09"
warnings.filterwarnings("ignore")

CERTS = [
    dict(LOAD="__load__", TICK="__tick__", PRIVATE="__private__", VAR="__variable__", INT="__int__", STORAGE="__storage__"),
    dict(LOAD="init", TICK="loop", PRIVATE="priv", VAR="v.x", INT="i", STORAGE="stor"),
]


def cert_text(c):
    return "\n".join(f"{k}={v}" for k, v in c.items())


def mark(i: int) -> str:
    return f"M{i:05d}W"


# --------------------------------------------------------------------------- literals
# (name, quote, source text before the marker, source text after the marker)   -- JMC source text, i.e.
# backslashes below are the backslashes the user types.
BS = "\\"
LITERALS = [
    ("plain", '"', "hello ", ""),
    ("marker-only", '"', "", ""),
    ("run-execute", '"', "please run execute ", " now run execute it"),
    ("run-execute-edges", '"', "run execute ", " run execute "),
    ("run-execute-x2", '"', "a run execute run execute b ", "run execute"),
    ("run-execute-store", '"', "a run execute store b ", " run execute store result score x y run z"),
    ("execute-head", '"', "execute as @a run say hi ", ""),
    ("execute-only", '"', "execute ", " execute"),
    ("run-tail", '"', "", " run"),
    ("store-word", '"', "execute store result score $x __variable__ run ", ""),
    ("function-call", '"', "function foo:bar ", " function TEST:__private__/if_else/0"),
    ("if-else-text", '"', "if (x) { y } else { z } ", " else if"),
    ("if-else-var", '"', "__if_else__ matches 0 run ", ""),
    ("slash-comment", '"', "// not a comment ", " // tail"),
    ("hash-comment", '"', "# not a comment ", " #"),
    ("block-comment", '"', "/* c */ ", ""),
    ("semicolons", '"', "; semi;colon; ", ";"),
    ("brackets", '"', "{curly} [square] (round) ", ""),
    ("brackets-unbalanced", '"', "}{ ][ )( ", " }])"),
    ("open-brackets", '"', "{[( ", ""),
    ("apostrophe", '"', "it's ", " 'quoted'"),
    ("escaped-dq", '"', "say " + BS + '"quoted' + BS + '" ', ""),
    ("both-quotes", '"', "it's " + BS + '"q' + BS + '" ', " '" + BS + '"'),
    ("sq-literal-dq-inside", "'", 'say "hi" ', ' "'),
    ("sq-literal-escaped-sq", "'", "it" + BS + "'s ", ""),
    ("sq-literal-both", "'", "it" + BS + "'s \"q\" ", ""),
    ("sq-escaped-in-dq", '"', "a" + BS + "'b ", ""),
    ("backslash", '"', "a" + BS + BS + "b ", ""),
    ("backslash-x2", '"', BS + BS + BS + BS + " ", ""),
    ("backslash-tail", '"', "", " x" + BS + BS),
    ("backslash-n-text", '"', "a" + BS + BS + "n ", ""),
    ("newline-escape", '"', "line1" + BS + "n", "line2"),
    ("tab-escape", '"', "a" + BS + "tb ", ""),
    ("cr-escape", '"', "a" + BS + "rb ", ""),
    ("bell-vt-ff", '"', BS + "a" + BS + "v" + BS + "f" + BS + "b ", ""),
    ("dollar", '"', "$var $(macro) $x ", " $"),
    ("dollar-head", '"', "$(x) ", ""),
    ("selector", '"', "@a[tag=x,scores={a=1..}] @s ", ""),
    ("ampersand-double", '"', "a && b ", ""),
    ("ampersand-format", '"', "&cred &<bold>x ", ""),
    ("latin1", '"', "caf\u00e9 \u00df ", " \u00a0nbsp"),
    ("cjk", '"', "\u65e5\u672c\u8a9e ", ""),
    ("math-symbols", '"', "\u2211\u221a\u2260 ", ""),
    ("zero-width", '"', "a\u200bb\u200e\ufeff ", ""),
    ("line-separator", '"', "a\u2028b\u2029 \u0085 ", ""),
    ("private-use", '"', "\ue000\uffff ", ""),
    ("astral-emoji", '"', "\U0001F600 ", " \U0001F468\u200d\U0001F469"),
    ("astral-math", '"', "\U0001D518\U0010FFFF ", ""),
    ("u-escape", '"', BS + "u00e9" + BS + "u65e5 ", ""),
    ("U-escape", '"', BS + "U0001F600 ", ""),
    ("x-escape", '"', BS + "x41" + BS + "xe9" + BS + "x7f ", ""),
    ("octal-escape", '"', BS + "101" + BS + "7" + BS + "12x ", ""),
    ("octal-big", '"', BS + "777 ", ""),
    ("control-chars", '"', BS + "x1b" + BS + "x01 ", ""),
    ("nul", '"', "a" + BS + "0b ", ""),
    ("unknown-escape", '"', BS + "q" + BS + "d" + BS + "- ", ""),
    ("line-continuation", '"', "ab" + BS + "\ncd ", ""),
    ("keywords", '"', "while switch case 1: class new import ", " true false return run"),
    ("matches-range", '"', "matches 1..5 .. => -1 ", ""),
    ("spaces", '"', "  a   b ", "  "),
    ("raw-tab", '"', "a\tb ", ""),
    ("percent", '"', "%s %d 100% ", ""),
    ("json-looking", '"', "{" + BS + '"text' + BS + '":' + BS + '"x' + BS + '"} ', ""),
    ("nbt-looking", '"', "{a:1b,b:[I;1,2]} ", ""),
    ("triple-dq-in-sq", "'", '""" ', ' """'),
    ("equals-ops", '"', "$x = $y += 1 ?= ", " ??="),
    ("say-word", '"', "say tellraw data merge ", " give"),
    ("colon-path", '"', "a::b.c[0] ns:path/to ", ""),
    ("backtick-inside", '"', "`tick` ", ""),
    ("unicode-escape-quote", '"', BS + "u0022 " + BS + "x27 " + BS + "x5c ", ""),
    # malformed / refused literals
    ("bad-x", '"', BS + "x ", ""),
    ("bad-x1", '"', BS + "x4", ""),
    ("bad-u", '"', BS + "u12 ", ""),
    ("bad-U-range", '"', BS + "U00110000 ", ""),
    ("bad-U-short", '"', BS + "U0011 ", ""),
    ("raw-newline", '"', "ab\ncd ", ""),
    # backtick (multi-line) strings: white-space line, text lines, white-space line
    ("bt-simple", "`", "\nhello ", "\n"),
    ("bt-two-lines", "`", "\n  line one ", "\n  line two\n  "),
    ("bt-quotes", "`", "\nsay \"hi\" 'x' \"\"\" \"\"\" ", " \"\n"),
    ("bt-run-execute", "`", "   \nplease run execute ", " now run execute\n\t "),
    ("bt-escapes", "`", "\na" + BS + "tb " + BS + "x41 " + BS + BS + " " + BS + '" ', " " + BS + "u00e9\n"),
    ("bt-comment-like", "`", "\n// not a comment # hash ; { } ", " }\n"),
    ("bt-escaped-backtick", "`", "\na " + BS + "` b ", "\n"),
    ("bt-edge-text", "`", " hello\nworld ", "\n x"),
    ("bt-edge-text-last", "`", "\nworld ", "\n x"),
    ("bt-bad-escape", "`", "\n" + BS + "x ", "\n"),
    ("bt-one-line", "`", "abc ", ""),
    # outside the Coq model (oracle only)
    ("named-escape", '"', BS + "N{BULLET} ", ""),
]
UNMODELLED_LITERALS = set()          # (round 4) \N{..} is modelled: the name table is a parameter passed per case
ERROR_HINT = {"bad-x", "bad-x1", "bad-u", "bad-U-range", "bad-U-short", "raw-newline", "bt-edge-text", "bt-edge-text-last",
              "bt-bad-escape", "bt-one-line"}


def literal_value(q: str, raw: str, json_rules: bool = False):
    """The value the source literal denotes (specification: Python escape rules; for backtick strings the lines
    between a leading and a trailing white-space-only line; json_rules: the body of `new <type>(<name>) {..}` is JSON).
    None = not a well-formed literal."""
    try:
        if json_rules:
            value = json.loads(q + raw + q)
            return value if isinstance(value, str) else None
        if q == "`":
            lines = raw.split("\n")
            if len(lines) < 3 or lines[0].strip() or lines[-1].strip():
                return None
            mid = "\n".join(lines[1:-1])
            mid = re.sub(r"\\.|'", lambda m: m.group(0) if len(m.group(0)) == 2 else "\\'", mid, flags=re.S)
            value = ast.literal_eval("'''" + mid + "'''")
        else:
            value = ast.literal_eval(q + raw + q)
        return value if isinstance(value, str) else None
    except Exception:  # noqa: malformed for Python as well
        return None

# --------------------------------------------------------------------------- exact literals (round 3)
# Literals that are EXACTLY a spelling the statement dispatcher / operator tables of the compiler compare a token's text
# with (`::`, `=`, `matches`, `run`, `()` ...): a STRING token whose text equals such a spelling must still be a string.
# The list is read from the source tree under test (every string constant compared with / matched against / affix-tested
# on a token's `.string` or a name assigned from one, every punctuation-only constant in a comparison, and the module /
# class level punctuation constants of the tokenizer), joined with a fixed floor so that a tree that deletes comparisons
# does not shrink the set.
DISPATCH_FILES = ["compile/lexer_func_content.py", "compile/command/var_operation.py", "compile/command/nbt_operation.py",
                  "compile/tokenizer.py", "compile/command/condition.py", "compile/lexer.py", "compile/command/utils.py",
                  "compile/command/_flow_control.py", "compile/utils.py"]
SPELLING_FLOOR = ["::", ":", "=", "+=", "-=", "*=", "/=", "%=", "++", "--", "><", "<", ">", "<=", ">=", "==", "!=", "?=", "??=",
                  ":=", "=>", "->", "<<", ">>", "!", "&&", "||", "..", "-", "*", "/", "\\", "$", "$(", "@", "@s", "#", "//",
                  ",", ";", "(", ")", "()", "[", "]", "[]", "{", "}", "{}", "matches", "run", "with", "expand", "true", "false",
                  "return", "execute", "say", "function", "schedule", "if", "else", "unless", "while", "for", "do", "switch",
                  "case", "default", "break", "new", "class", "import", "storage", "entity", "block", "append", "replace"]
# literals that are exactly a token of the TARGET language (an SNBT / JSON value that is not a string): they must stay quoted
TARGET_TOKENS = ["0", "1", "-1", "1b", "0b", "1s", "1L", "1.5", "1.5f", "2d", ".5", "1e3", "0x10", "null", "[I;1]", "[B;]", "{a:1}",
                 '""', "''", "1..2", "~", "^", "~ ~ ~"]


def dispatch_spellings(repo) -> tuple[list[str], dict]:
    import ast as A
    import os

    def consts(node, env):
        if isinstance(node, A.Constant) and isinstance(node.value, str):
            return [node.value]
        if isinstance(node, (A.Set, A.Tuple, A.List)):
            return [c for e in node.elts for c in consts(e, env)]
        if isinstance(node, A.Dict):
            return [c for e in node.keys if e is not None for c in consts(e, env)]
        if isinstance(node, A.Name) and node.id in env:
            return env[node.id]
        if isinstance(node, A.Call) and isinstance(node.func, A.Name) and node.func.id in ("set", "frozenset", "tuple", "list") and node.args:
            return consts(node.args[0], env)
        if isinstance(node, A.IfExp):
            return consts(node.body, env) + consts(node.orelse, env)
        return []

    def pat_consts(p):
        if isinstance(p, A.MatchValue):
            return consts(p.value, {})
        if isinstance(p, A.MatchOr):
            return [c for q in p.patterns for c in pat_consts(q)]
        return []

    def mentions(n, names):
        for m in A.walk(n):
            if isinstance(m, A.Attribute) and m.attr == "string":
                return True
            if isinstance(m, A.Name) and m.id in names:
                return True
        return False

    def usable(c):
        return 0 < len(c) <= 10 and c.isascii() and c.isprintable() and not re.search(r"\s", c)

    def punct(c):
        return not re.search(r"[A-Za-z0-9_]", c)

    tokenish, puncts, unread = set(), set(), []
    for f in DISPATCH_FILES:
        path = os.path.join(str(repo), "src", "jmc", f)
        try:
            tree = A.parse(open(path, encoding="utf-8").read())
        except Exception as e:  # noqa: a file that moved or does not parse: recorded, the floor still applies
            unread.append(f"{f}: {type(e).__name__}")
            continue
        env, names = {}, set()
        for n in A.walk(tree):
            if isinstance(n, (A.Assign, A.AnnAssign)) and n.value is not None:
                c = consts(n.value, {})
                for t in (n.targets if isinstance(n, A.Assign) else [n.target]):
                    if isinstance(t, A.Name) and c:
                        if isinstance(n.value, A.Constant):
                            puncts.update(x for x in c if usable(x) and punct(x))       # Re.SEMICOLON = ";" ...
                        else:
                            env[t.id] = c
                            puncts.update(x for x in c if usable(x) and punct(x))       # OPERATORS = {...}
        for _ in range(3):
            for n in A.walk(tree):
                if isinstance(n, (A.Assign, A.AnnAssign)) and n.value is not None and mentions(n.value, names):
                    for t in (n.targets if isinstance(n, A.Assign) else [n.target]):
                        if isinstance(t, A.Name):
                            names.add(t.id)
        for n in A.walk(tree):
            found, tok = [], False
            if isinstance(n, A.Compare):
                sides = [n.left] + n.comparators
                found = [c for x in sides for c in consts(x, env)]
                tok = any(mentions(x, names) for x in sides)
            elif isinstance(n, A.Call) and isinstance(n.func, A.Attribute) and n.func.attr in ("startswith", "endswith"):
                found = [c for a in n.args for c in consts(a, env)]
                tok = mentions(n.func.value, names)
            elif isinstance(n, A.Match):
                found = [c for case in n.cases for c in pat_consts(case.pattern)]
                tok = mentions(n.subject, names)
            for c in found:
                if usable(c):
                    if tok:
                        tokenish.add(c)
                    if punct(c):
                        puncts.add(c)
    derived = tokenish | puncts
    floor = list(SPELLING_FLOOR)
    allsp = sorted(set(floor) | derived | set(TARGET_TOKENS))
    return allsp, dict(derived=len(derived), token_comparisons=len(tokenish), punctuation=len(puncts), floor=len(floor),
                       target_tokens=len(TARGET_TOKENS), total=len(allsp), unread=unread,
                       derived_not_in_floor=sorted(derived - set(floor))[:200])


def exact_source(text: str) -> tuple[str, str] | None:
    """(quote, source text between the quotes) of a literal whose VALUE is exactly `text`"""
    q = "'" if '"' in text and "'" not in text else '"'
    raw = text.replace(BS, BS + BS).replace(q, BS + q)
    return q, raw


def exact_literals(repo):
    """[(name, quote, raw source text)] - no marker inside: the output line is located with a twin program"""
    sp, info = dispatch_spellings(repo)
    out = []
    for t in sp:
        for form, text in (("", t), ("lead", " " + t), ("trail", t + " ")):
            q, raw = exact_source(text)
            out.append((f"exact{'-' + form if form else ''}:{t}", q, raw, form))
    # the empty literal, a blank, and (seeder) literals that END with a backslash, alone
    for name, text in (("exact:<empty>", ""), ("exact:<blank>", " "), ("exact:<backslash-tail>", "C:" + BS),
                       ("exact:<path-backslash-tail>", "C:" + BS + "Users" + BS)):
        q, raw = exact_source(text)
        out.append((name, q, raw, ""))
    return out, info


# --------------------------------------------------------------------------- carriers
# name -> (source template with %s for the quoted literal, Coq constructor, pre, post, kind, command word)
CARRIERS = {
    "say": ('say %s;', "KSay", "say ", "", "say", "say "),
    "json-str": ('tellraw @a %s;', "KJson", 'tellraw @a ', '', "json", "tellraw @a "),
    "json-obj": ('tellraw @a {"text":%s,"color":"red"};', "KJson", 'tellraw @a {"text":', ',"color":"red"}', "json", "tellraw @a "),
    "json-title": ('title @a title {"bold":true,"text":%s};', "KJson", 'title @a title {"bold":true,"text":', '}', "json", "title @a title "),
    "json-arr": ('tellraw @a ["",{"text":%s}];', "KJson", 'tellraw @a ["",{"text":', '}]', "json", "tellraw @a "),
    "nbt-merge": ('data merge entity @s {CustomName:%s};', "KNbt", 'data merge entity @s {CustomName:', '}', "nbt", "data merge entity @s "),
    "nbt-give": ('give @s stone{display:{Name:%s}} 1;', "KNbt", 'give @s stone{display:{Name:', '}} 1', "nbt", "give @s stone"),
    "nbt-list": ('data modify storage a:b l set value [%s,"z"];', "KNbt", 'data modify storage a:b l set value [', ',"z"]', "nbt", "data modify storage a:b l set value "),
    "text": ('Text.tellraw(@a, %s);', "KText", 'tellraw @a ', '', "text", "tellraw @a "),
    # (round 3) the literal as token 1 of the statement - the position the statement dispatcher looks at - alone and followed by a word
    "me": ('me %s;', "KJson", 'me ', '', "json", "me "),
    "me-tail": ('me %s now;', "KJson", 'me ', ' now', "json", "me "),
    # `function "<string>";` - the third statement form that copies a string literal to the output as it is (besides say; the
    # special case sits next to say's in the statement dispatcher).  Outside the Coq model (oracle only), exact literals only.
    "function-str": ('function %s;', None, 'function ', '', "raw", "function "),
    # (round 4) more sinks
    "text-title": ('Text.title(@a, %s);', "KText", 'title @a title ', '', "text", "title @a title "),
    "text-subtitle": ('Text.subtitle(@a, %s);', "KText", 'title @a subtitle ', '', "text", "title @a subtitle "),
    "text-actionbar": ('Text.actionbar(@a, %s);', "KText", 'title @a actionbar ', '', "text", "title @a actionbar "),
    "printf": ('printf(%s);', "KText", 'tellraw @a ', '', "text", "tellraw @a "),
    "nbt-summon": ('summon zombie ~ ~ ~ {CustomName:%s};', "KNbt", 'summon zombie ~ ~ ~ {CustomName:', '}', "nbt", "summon zombie ~ ~ ~ "),
    "json-hover": ('tellraw @a {"text":"x","hoverEvent":{"action":"show_text","contents":%s}};', "KJson",
                   'tellraw @a {"text":"x","hoverEvent":{"action":"show_text","contents":', '}}', "json", "tellraw @a "),
    # a JSON file: `new advancements(<name>) {..}` - the body is JSON (json.loads of the raw bracket text, json.dumps into the
    # file), so the literal is spelled by JSON's rules; top level only; oracle only
    "json-file": ('new advancements(j%d) {"display":{"title":%s,"description":"d"}}', None, '"title": ', ',', "jsonfile", '"title": '),
}
JSON_PATH = {"json-hover": ["hoverEvent", "contents"]}      # where the literal sits in the JSON value (default: the text itself)
TEXT_CARRIERS = [k for k, v in CARRIERS.items() if v[4] == "text"]
ROUND4_CARRIERS = ["text-title", "text-subtitle", "text-actionbar", "printf", "nbt-summon", "json-hover"]
# leaf wrappers: the statement reaches the compiler a second time as TEXT (the body of a lazy function / of Hardcode.repeat is
# kept as source text, substituted and tokenised again at the call); its single command replaces the call, so the wrapper
# adds nothing to the output line (no Coq context)
LEAVES = ("lazybody", "lazyarg", "hcrepeat", "macro")
# "macro": the literal is the body of a header macro (`#define LM<n> "<lit>"`, tokenised by the header's own Tokenizer) and the
# statement holds the macro's name in its place
JSON_TAIL = {"me-tail": " now"}          # text after the JSON value that belongs to the command, not to the value
# `me-tail` is used for exact literals only: a string token followed by a keyword is "connected" when Token.end says so, and
# Token.end of a string is col + len(repr(value)), which is not its source length when the source holds a raw tab, an escape or
# a non-printable character (`me "a<TAB>b" now` is refused: "Expected whitespace between string and a keyword") - that is the
# adjacency relation of C15 (there: out-of-scope event `s_ev`), not a literal that fails to reach the output.
EXACT_ONLY_CARRIERS = {"me-tail", "function-str"}
SPECIAL_CARRIERS = {"json-file"}
ORACLE_ONLY_CARRIERS = {k for k, v in CARRIERS.items() if v[1] is None}
MAIN_CARRIERS = ["say", "json-str", "json-obj", "nbt-merge", "text"]

# --------------------------------------------------------------------------- contexts
# block contexts: body (statements) -> statement;  stmt contexts: one statement -> statement (innermost only)
SIB = 'say "sib";'


def _cond(v, a, n, neg=False):
    return f'lit "{"unless" if neg else "if"} score ${a} {v} matches {n}"'


BLOCK_CTX = {
    "ifonly": (lambda b: f"if ($a == 1) {{ {b} }}", lambda v: f"CIfOnly ({_cond(v, 'a', 1)})"),
    "ifnot": (lambda b: f"if (!($a == 1)) {{ {b} }}", lambda v: f"CIfOnly ({_cond(v, 'a', 1, True)})"),
    "ifthen": (lambda b: f'if ($a == 1) {{ {b} }} else {{ say "z"; }}', lambda v: "CIfThen"),
    "elifmid": (lambda b: f'if ($a == 1) {{ say "z"; }} else if ($b == 2) {{ {b} }} else {{ say "y"; }}', lambda v: "CElseIfMid"),
    "eliflast": (lambda b: f'if ($a == 1) {{ say "z"; }} else if ($b == 2) {{ {b} }}',
                 lambda v: f'CElseIfLast (lit "{v}") ({_cond(v, "b", 2)})'),
    "else": (lambda b: f'if ($a == 1) {{ say "z"; }} else {{ {b} }}', lambda v: f'CElse (lit "{v}")'),
    "else3": (lambda b: f'if ($a == 1) {{ say "z"; }} else if ($b == 2) {{ say "y"; }} else {{ {b} }}', lambda v: f'CElse (lit "{v}")'),
    "while": (lambda b: f"while ($i < 3) {{ {b} }}", lambda v: "CLoop"),
    "for": (lambda b: f"for ($i = 0; $i < 3; $i++) {{ {b} }}", lambda v: "CLoop"),
    "dowhile": (lambda b: f"do {{ {b} }} while ($i < 3);", lambda v: "CLoop"),
    "execblock": (lambda b: f"execute as @a run {{ {b} }}", lambda v: 'CExec (lit "as @a")'),
    # (a case whose FIRST statement is a block statement loses what follows it - parse_switch, reported - so a say comes first)
    "switch": (lambda b: f'switch ($s) {{ case 1: say "pre"; {b} case 2: say "z"; }}', lambda v: "CSwitchCase"),
    "sched": (lambda b: f"schedule 5t {{ {b} }}", lambda v: "CSched"),
    "multi": (lambda b: f"{b} {SIB}", lambda v: "CBlock"),
}
STMT_CTX = {
    "execrun": (lambda s: f"execute as @a at @s run {s}", lambda v: 'CExec (lit "as @a at @s")'),
    "assign": (lambda s: f"$x = {s}", lambda v: f'CAssign (lit "$x") (lit "{v}")'),
    "assign2": (lambda s: f"$x = $y = {s}", lambda v: f'CAssign2 (lit "$x") (lit "{v}") (lit "$y") (lit "{v}")'),
    "return": (lambda s: f"return run {s}", lambda v: "CReturn"),
    "assignnull": (lambda s: f"$y ??= {s}", lambda v: f'CAssignNull (lit "$y") (lit "{v}")'),
    "overnull": (lambda s: f"$x = $y ??= {s}",
                 lambda v: f'CAssignOver (lit "$x") (lit "{v}"); CAssignNull (lit "$y") (lit "{v}")'),
}
ASSIGN_KINDS = ("assign", "assign2", "assignnull", "overnull")
TOP_CTX = {"func": "CFunc", "top": "CTop", "method": "CMethod"}

# context stacks: (top, [block ctx outermost..innermost], [stmt ctx outermost..innermost])
CORE_STACKS = [
    ("top", [], []), ("func", [], []), ("method", [], []),
    ("func", ["ifonly"], []), ("func", ["else"], []), ("func", ["eliflast"], []),
    ("func", ["while"], []), ("func", ["execblock"], []), ("func", ["switch"], []), ("func", ["sched"], []),
    ("func", [], ["assign2"]),
]
MORE_STACKS = [
    ("func", ["ifnot"], []), ("func", ["ifthen"], []), ("func", ["elifmid"], []), ("func", ["else3"], []),
    ("func", ["for"], []), ("func", ["dowhile"], []),
    ("func", [], ["execrun"]), ("func", [], ["assign"]), ("func", [], ["return"]),
    ("func", ["else", "multi"], []), ("func", ["execblock", "multi"], []), ("func", ["eliflast", "multi"], []),
    ("func", ["else", "execblock"], []), ("func", ["execblock", "else"], []), ("func", ["else"], ["execrun"]),
    ("func", ["ifonly", "ifonly"], []), ("func", ["eliflast", "execblock"], ["return"]),
    ("func", ["execblock", "ifonly"], ["assign2"]), ("func", ["else", "else"], []),
    ("func", ["eliflast", "eliflast"], []), ("method", ["else"], []), ("top", ["else"], []),
    ("func", ["while", "else"], []), ("func", ["else", "while"], []), ("func", ["execblock"], ["return", "execrun"]),
    ("func", ["else"], ["assign"]), ("func", ["ifonly"], ["assign2"]), ("func", ["switch", "eliflast"], []),
    ("func", ["sched", "else", "execblock"], ["execrun"]),
    ("func", [], ["assignnull"]), ("func", [], ["overnull"]), ("func", ["else"], ["execrun", "overnull"]),
]


# (round 5) macro names drawn from the literal: shape of the literal around the marker, kind of definition
MNAME_SHAPES = [("whole", "", ""), ("affixed", "GREET", "ING"), ("word", "hello ", " there")]
MNAME_DEFS = {"obj": "#define %s welcome back", "num": "#define %s 20", "param": "#define %s(a, b) a b",
              "str": '#define %s "other text"', "empty": "#define %s"}


def stack_name(st):
    return "/".join([st[0]] + st[1] + st[2])


def build_item(idx: int, q: str, raw: str, carrier: str, stack, hdr: list | None = None) -> str:
    # (a backtick string glued to a preceding `:` / `[` is not recognised by the tokenizer - refused with a
    #  diagnostic, reported as a minor finding - so it gets a blank in front)
    litsrc = (" " if q == "`" else "") + q + raw + q
    if carrier == "json-file":
        return CARRIERS[carrier][0] % (idx, litsrc)
    stmt = CARRIERS[carrier][0] % litsrc
    top, blocks, stmts = stack
    prelude = ""
    if stmts and stmts[-1] in LEAVES:
        leaf, stmts = stmts[-1], stmts[:-1]
        if leaf == "lazybody":
            prelude, stmt = f"@lazy function lz{idx}() {{ {stmt} }}\n", f"lz{idx}();"
        elif leaf == "lazyarg":
            prelude, stmt = f"@lazy function lz{idx}(zq) {{ {CARRIERS[carrier][0] % '$zq'} }}\n", f"lz{idx}({litsrc.strip()});"
        elif leaf == "macro":
            stmt = CARRIERS[carrier][0] % f"LM{idx}"
            if hdr is not None:
                hdr.append(f"#define LM{idx} {litsrc.strip()}")
        else:
            stmt = f"Hardcode.repeat((zq)=>{{ {stmt} }}, start=1, stop=2, step=1);"
    body = stmt
    for s in reversed(stmts):
        body = STMT_CTX[s][0](body)
    for b in reversed(blocks):
        body = BLOCK_CTX[b][0](body)
    if top == "func":
        return prelude + f"function c{idx}() {{ {body} }}"
    if top == "method":
        return prelude + f"class k{idx} {{ function m() {{ {body} }} }}"
    return prelude + body


def build_case(idx: int, lit, carrier: str, stack, cert_i: int) -> dict:
    """lit = (name, quote, text before the marker, text after it)  - marker case, or
             (name, quote, raw, form) with form in ("", "lead", "trail") and name starting with "exact" - exact case: the
             literal holds NO marker; the output line is the one at the place of the marker line of the twin program
             (same program with the literal "<marker>")."""
    exact = lit[0].startswith("exact")
    if exact:
        name, q, raw, _form = lit
    else:
        name, q, pre, post = lit
        raw = pre + mark(idx) + post
    v = CERTS[cert_i]["VAR"]
    top, blocks, stmts = stack
    ctx_terms = [TOP_CTX[top]]
    for b in blocks:
        ctx_terms.append(BLOCK_CTX[b][1](v))
    for s in stmts:
        if s not in LEAVES:
            ctx_terms.append(STMT_CTX[s][1](v))
    hdr: list = []
    item = build_item(idx, q, raw, carrier, stack, hdr)
    if name.startswith("mname:"):
        # (round 5) the header defines a macro whose NAME is the whole text of the literal / a word of it
        hdr.append(MNAME_DEFS[name.split(":")[2]] % (mark(idx) if name.split(":")[1] == "word" else raw))
    kind = CARRIERS[carrier][4]
    value = literal_value(q, raw, json_rules=(kind == "jsonfile"))
    fmt_bad = False
    if kind == "text" and value is not None and "&" in value:
        (fk, _fx), br = G.fmt_expect(value)
        fmt_bad = fk == "diag" or name.startswith("fmt:bad-")
    return dict(idx=idx, lit=name, q=q, raw=raw, carrier=carrier, stack=stack_name(stack), ctxs=blocks + stmts,
                cert=cert_i, item=item, ctx_terms=ctx_terms, value=value, exact=exact, header="\n".join(hdr) or None,
                twin=build_item(idx, '"', mark(idx), carrier, stack) if exact else None,
                hint_error=(name in ERROR_HINT) or fmt_bad or
                           (carrier == "say" and value is not None and ("\n" in value or "\r" in value)),
                # formatted text: only the nbt property `&<a::b>` is outside the Coq model
                expect_unmodelled=(name in UNMODELLED_LITERALS) or
                                  (kind == "text" and value is not None and bool(re.search(r"&<[^>]*::", value))))


def gen_cases(rng, tier: str, exact=()) -> list[dict]:
    combos = []
    # full cross: every literal x core context x main carrier
    for lit in LITERALS:
        for st in CORE_STACKS:
            for ca in MAIN_CARRIERS:
                combos.append((lit, ca, st))
    marker_carriers = [c for c in CARRIERS if c not in EXACT_ONLY_CARRIERS and c not in SPECIAL_CARRIERS and c not in ROUND4_CARRIERS]
    others = [c for c in marker_carriers if c not in MAIN_CARRIERS]
    if tier == "thorough":
        for lit in LITERALS:
            for st in CORE_STACKS:
                for ca in others:
                    combos.append((lit, ca, st))
            for st in MORE_STACKS:
                for ca in marker_carriers:
                    combos.append((lit, ca, st))
    else:
        # rotating coverage: every (literal, extra context) and every (literal, extra carrier) pair at least once
        k = 0
        allc = list(marker_carriers)
        for lit in LITERALS:
            for st in MORE_STACKS:
                combos.append((lit, allc[k % len(allc)], st))
                k += 1
            for ca in others:
                combos.append((lit, ca, CORE_STACKS[k % len(CORE_STACKS)]))
                k += 1
    # random deeper compositions
    nrand = 150 if tier == "quick" else 1500
    blocks = list(BLOCK_CTX)
    stmts = list(STMT_CTX)
    for _ in range(nrand):
        depth = rng.randint(2, 4)
        bl = [rng.choice(blocks) for _ in range(depth)]
        stn = []
        if rng.random() < 0.5:
            stn = rng.sample(stmts, rng.randint(1, 2))
            if sum(1 for x in stn if x in ASSIGN_KINDS) > 1:
                stn = [x for x in stn if x not in ASSIGN_KINDS] + [[x for x in stn if x in ASSIGN_KINDS][0]]
            # `$x = ...` must be the statement itself or directly follow run
            stn.sort(key=lambda s: {"execrun": 0, "return": 1}.get(s, 2))
            if "return" in stn and any(x in ASSIGN_KINDS for x in stn):
                stn.remove("return")
        combos.append((rng.choice(LITERALS), rng.choice(marker_carriers), (rng.choice(["func", "func", "method", "top"]), bl, stn)))
    # ---- (round 3) exact literals: the spelling alone in every carrier in the plain function context and in further
    #      context stacks (rotating; full cross with the core stacks in the thorough tier); with one leading / trailing blank
    #      in the main carriers and `me`
    all_stacks = CORE_STACKS + MORE_STACKS
    blank_carriers = MAIN_CARRIERS + ["me", "function-str"]
    k = 0
    for lit in exact:
        if lit[3] == "":
            for ca in CARRIERS:
                if ca in SPECIAL_CARRIERS:
                    continue
                combos.append((lit, ca, ("func", [], [])))
                if ca in ROUND4_CARRIERS and tier != "thorough":
                    continue
                # behind `execute ... run` the statement dispatcher runs again in another state (is_execute, key_pos > 0)
                combos.append((lit, ca, ("func", [], ["execrun"])))
                if tier == "thorough":
                    for st in CORE_STACKS:
                        if st != ("func", [], []):
                            combos.append((lit, ca, st))
                    combos.append((lit, ca, MORE_STACKS[k % len(MORE_STACKS)]))
                else:
                    combos.append((lit, ca, all_stacks[k % len(all_stacks)]))
                k += 1
        else:
            for ca in ([c for c in CARRIERS if c not in SPECIAL_CARRIERS] if tier == "thorough" else blank_carriers):
                combos.append((lit, ca, all_stacks[k % len(all_stacks)]))
                k += 1
    combos.extend(round4_combos(rng, tier))
    cases = []
    for i, (lit, ca, st) in enumerate(combos):
        cases.append(build_case(i, lit, ca, st, i % len(CERTS)))
    return cases


def json_spelling(value: str, ascii_only: bool):
    """(text before the marker slot, after) does not apply here: returns the JSON spelling of a value (between the quotes)"""
    return json.dumps(value, ensure_ascii=ascii_only)[1:-1]


def round4_combos(rng, tier: str):
    """(round 4) mixed literals x every carrier and sink; formatted text x the Text.* / printf carriers; leaf wrappers"""
    combos = []
    thorough = tier == "thorough"
    plain = ("func", [], [])
    marker_carriers = [c for c in CARRIERS if c not in EXACT_ONLY_CARRIERS and c not in SPECIAL_CARRIERS]
    others = [c for c in marker_carriers if c not in MAIN_CARRIERS]
    all_stacks = CORE_STACKS + MORE_STACKS
    leaf_hosts = [("func", [], []), ("top", [], []), ("func", ["ifonly"], []), ("func", ["else"], []), ("func", [], ["execrun"]),
                  ("func", ["while"], []), ("func", ["execblock", "multi"], [])]

    def with_leaf(st, leaf):
        # (behind `execute .. run` Hardcode.repeat gets an anonymous function of its own - a boundary, not a leaf)
        if leaf == "hcrepeat" and st[2]:
            st = (st[0], st[1] + ["execblock"], [])
        return (st[0], st[1], st[2] + [leaf])

    mixed = G.mixed_literals() + G.random_mixed(rng, 500 if thorough else 70)
    k = 0
    for lit in mixed:
        rnd = lit[0].startswith("mix:random") or lit[0].startswith("mix:allesc")
        if rnd and not thorough:
            combos.append((lit, marker_carriers[k % len(marker_carriers)], all_stacks[k % len(all_stacks)]))
            k += 1
            continue
        for ca in (marker_carriers if thorough else MAIN_CARRIERS):
            combos.append((lit, ca, plain))
        for _ in range(6 if thorough else 3):
            combos.append((lit, others[k % len(others)], all_stacks[(k * 7) % len(all_stacks)]))
            combos.append((lit, MAIN_CARRIERS[k % len(MAIN_CARRIERS)], all_stacks[(k * 5 + 3) % len(all_stacks)]))
            k += 1
        if lit[1] != "`":
            for leaf in (LEAVES if thorough else [LEAVES[k % len(LEAVES)]]):
                if leaf == "macro" and "\n" in lit[2] + lit[3]:
                    leaf = "lazyarg"
                combos.append((lit, marker_carriers[k % len(marker_carriers)], with_leaf(leaf_hosts[k % len(leaf_hosts)], leaf)))
                k += 1
    # every older literal through the leaf wrappers and the new sinks
    for lit in LITERALS:
        for ca in ROUND4_CARRIERS:
            if thorough or k % 2:
                combos.append((lit, ca, all_stacks[k % len(all_stacks)]))
            k += 1
        if lit[1] != "`" and lit[0] not in ERROR_HINT:
            for leaf in LEAVES:
                if leaf == "macro" and "\n" in lit[2] + lit[3]:
                    continue
                for ca in (MAIN_CARRIERS if thorough else [MAIN_CARRIERS[k % len(MAIN_CARRIERS)]]):
                    combos.append((lit, ca, with_leaf(leaf_hosts[k % len(leaf_hosts)], leaf)))
                    k += 1
    # JSON files: the value of every well-formed literal, spelled by JSON's rules (raw non-ASCII / \uXXXX alternating)
    seen = set()
    for lit in LITERALS + mixed:
        if lit[1] == "`":
            continue
        slot = "@SLOT@"
        v = literal_value(lit[1], lit[2] + slot + lit[3])
        if v is None or v in seen or any(0xD800 <= ord(ch) < 0xE000 for ch in v):
            continue
        seen.add(v)
        pre, post = v.split(slot, 1) if v.count(slot) == 1 else (v.replace(slot, ""), "")
        ascii_only = bool(k % 2)
        k += 1
        combos.append((("json:" + lit[0], '"', json_spelling(pre, ascii_only), json_spelling(post, ascii_only)), "json-file", ("top", [], [])))
    # formatted text
    fmt = G.fmt_literals() + G.random_fmt(rng, 600 if thorough else 80)
    for lit in fmt:
        if thorough:
            for ca in TEXT_CARRIERS:
                combos.append((lit, ca, plain))
            for _ in range(3):
                combos.append((lit, TEXT_CARRIERS[k % len(TEXT_CARRIERS)], all_stacks[k % len(all_stacks)]))
                k += 1
        else:
            combos.append((lit, TEXT_CARRIERS[k % len(TEXT_CARRIERS)], plain))
            combos.append((lit, TEXT_CARRIERS[(k + 1 + k // len(TEXT_CARRIERS)) % len(TEXT_CARRIERS)], all_stacks[k % len(all_stacks)]))
            k += 1
    # (round 5) literals whose whole text / one word is the name of a macro of the header
    for shape, pre, post in MNAME_SHAPES:
        for dk in MNAME_DEFS:
            for ca in marker_carriers:
                if thorough:
                    combos.append(((f"mname:{shape}:{dk}", '"', pre, post), ca, plain))
                combos.append(((f"mname:{shape}:{dk}", "'" if k % 5 == 0 else '"', pre, post), ca, all_stacks[k % len(all_stacks)]))
                k += 1
    return combos


# --------------------------------------------------------------------------- real compiler
def find_marker_line(files: dict, marker: str, suffix: str = ".mcfunction"):
    hits = []
    for path, text in files.items():
        if not path.endswith(suffix):
            continue
        for line in text.split("\n"):
            if marker in line:
                hits.append((path, line))
    return hits


def outcome_of(res: dict, marker: str, suffix: str = ".mcfunction") -> dict:
    if not res["ok"]:
        if res.get("jmc"):
            return dict(kind="diag", msg=res.get("msg", "")[:300])
        return dict(kind="crash", exc=res.get("exc"), msg=res.get("msg", "")[:300], frame=res.get("frame"))
    hits = find_marker_line(res["files"], marker, suffix)
    if len(hits) == 1:
        return dict(kind="line", line=hits[0][1], path=hits[0][0])
    return dict(kind="missing", hits=[h[1] for h in hits][:5])


def exact_outcome(ra: dict, rb: dict, case: dict, alone: bool) -> dict:
    """outcome of an exact case: ra = result of the twin program(s) (literal = the marker), rb = result of the program(s)
    with the exact literal.  The line is the one at the place of the twin's marker line; when the case was compiled alone
    every OTHER line of the output must be the same in both."""
    marker = mark(case["idx"])
    if not ra["ok"]:
        return dict(kind="missing", hits=[], why="the twin program (literal = marker) does not compile: " + str(ra.get("msg", ""))[:200])
    if not rb["ok"]:
        return outcome_of(rb, marker)
    hits = []
    for path, text in ra["files"].items():
        if path.endswith(".mcfunction"):
            for n, line in enumerate(text.split("\n")):
                if marker in line:
                    hits.append((path, n, line))
    if len(hits) != 1:
        return dict(kind="missing", hits=[h[2] for h in hits][:5], why="twin: marker line not unique")
    path, n, twin_line = hits[0]
    other = rb["files"].get(path)
    if other is None:
        return dict(kind="missing", hits=[], why=f"no file {path} (the twin program has it)")
    lines = other.split("\n")
    if len(lines) != len(ra["files"][path].split("\n")):
        return dict(kind="missing", hits=lines[:6], why=f"{path} has {len(lines)} lines, {len(ra['files'][path].split(chr(10)))} with the twin literal")
    out = dict(kind="line", line=lines[n], path=path, twin_line=twin_line)
    if alone:
        diff = []
        for p in sorted(set(ra["files"]) | set(rb["files"])):
            a, b = ra["files"].get(p), rb["files"].get(p)
            if a == b:
                continue
            if a is None or b is None:
                diff.append(dict(path=p, twin=a is not None, exact=b is not None))
                continue
            la, lb = a.split("\n"), b.split("\n")
            for i in range(max(len(la), len(lb))):
                x, y = (la[i] if i < len(la) else None), (lb[i] if i < len(lb) else None)
                if x != y and not (p == path and i == n):
                    diff.append(dict(path=p, line=i, twin=x, exact=y))
        if diff:
            out["collateral"] = diff[:6]
    return out


def files_differ_elsewhere(ra: dict, rb: dict, markers: set) -> bool:
    """batch of exact cases: does anything but the marker lines differ between the twin batch and the exact batch?"""
    if set(ra["files"]) != set(rb["files"]):
        return True
    for p, a in ra["files"].items():
        b = rb["files"][p]
        if a == b:
            continue
        la, lb = a.split("\n"), b.split("\n")
        if len(la) != len(lb):
            return True
        for x, y in zip(la, lb):
            if x != y and not any(m in x for m in markers):
                return True
    return False


def run_real(cases: list[dict]) -> None:
    """fills case['real'] for every case"""
    run_real_marked([c for c in cases if not c["exact"]])
    ex = [c for c in cases if c["exact"]]
    singles = [c for c in ex if c["hint_error"]]
    groups = []
    for ci in range(len(CERTS)):
        part = [c for c in ex if c["cert"] == ci and not c["hint_error"]]
        for s in range(0, len(part), 120):
            groups.append(part[s:s + 120])
    jobs = []
    for g in groups:
        cert = cert_text(CERTS[g[0]["cert"]])
        jobs.append(dict(src="\n".join(c["twin"] for c in g), cert=cert))
        jobs.append(dict(src="\n".join(c["item"] for c in g), cert=cert))
    results = compile_batch(jobs, chunk=4)
    for gi, g in enumerate(groups):
        ra, rb = results[2 * gi], results[2 * gi + 1]
        if ra["ok"] and rb["ok"] and not files_differ_elsewhere(ra, rb, {mark(c["idx"]) for c in g}):
            for c in g:
                c["real"] = exact_outcome(ra, rb, c, alone=False)
            # a line that is not the expected one is looked at again with the case compiled alone (collateral damage is
            # then attributed to the case)
            singles.extend(c for c in g if c["real"]["kind"] != "line")
        else:
            singles.extend(g)
    jobs = []
    for c in singles:
        cert = cert_text(CERTS[c["cert"]])
        jobs.append(dict(src=c["twin"], cert=cert))
        jobs.append(dict(src=c["item"], cert=cert))
    results = compile_batch(jobs, chunk=100)
    for i, c in enumerate(singles):
        c["real"] = exact_outcome(results[2 * i], results[2 * i + 1], c, alone=True)


def run_real_marked(cases: list[dict]) -> None:
    singles = [c for c in cases if c["hint_error"]]
    batched = [c for c in cases if not c["hint_error"]]
    groups = []
    for ci in range(len(CERTS)):
        part = [c for c in batched if c["cert"] == ci]
        for s in range(0, len(part), 120):
            groups.append(part[s:s + 120])
    jobs = [dict(src="\n".join(c["item"] for c in g), cert=cert_text(CERTS[g[0]["cert"]]),
                 header="\n".join(c["header"] for c in g if c.get("header")) or None) for g in groups]
    results = compile_batch(jobs, chunk=4)
    for g, r in zip(groups, results):
        if r["ok"]:
            for c in g:
                c["real"] = outcome_of(r, mark(c["idx"]), suffix_of(c))
        else:
            singles.extend(g)
    jobs = [dict(src=c["item"], cert=cert_text(CERTS[c["cert"]]), header=c.get("header")) for c in singles]
    results = compile_batch(jobs, chunk=100)
    for c, r in zip(singles, results):
        c["real"] = outcome_of(r, mark(c["idx"]), suffix_of(c))


def suffix_of(case) -> str:
    return ".json" if CARRIERS[case["carrier"]][4] == "jsonfile" else ".mcfunction"


# --------------------------------------------------------------------------- oracle on the real output
def snbt_unquote(s: str):
    """Quoted SNBT string at the start of s (Minecraft 1.21.5+ escapes) -> (value, rest) or None."""
    if not s or s[0] not in "\"'":
        return None
    q, i, out = s[0], 1, []
    simple = {"\\": "\\", "'": "'", '"': '"', "n": "\n", "t": "\t", "r": "\r", "b": "\b", "f": "\f", "s": " "}
    while i < len(s):
        ch = s[i]
        if ch == q:
            return "".join(out), s[i + 1:]
        if ch == "\\":
            if i + 1 >= len(s):
                return None
            e = s[i + 1]
            if e in simple:
                out.append(simple[e]); i += 2; continue
            n = {"x": 2, "u": 4, "U": 8}.get(e)
            if n is None or not re.fullmatch(r"[0-9a-fA-F]{%d}" % n, s[i + 2:i + 2 + n]):
                return None
            v = int(s[i + 2:i + 2 + n], 16)
            if v > 0x10FFFF:
                return None
            out.append(chr(v)); i += 2 + n; continue
        out.append(ch); i += 1
    return None


def json_texts(obj) -> str:
    if isinstance(obj, str):
        return obj
    if isinstance(obj, dict):
        return json_texts(obj.get("text", "")) + json_texts(obj.get("extra", []))
    if isinstance(obj, list):
        return "".join(json_texts(x) for x in obj)
    return ""


def expected_text(case) -> str | None:
    """the value Minecraft should see; None = formatted text that the character loop of FormattedText refuses"""
    v = case["value"]
    if CARRIERS[case["carrier"]][4] == "text" and "&" in v:
        (fk, fx), _br = G.fmt_expect(v)
        return fx if fk == "text" else None
    return v


def fmt_verdict(case):
    """(expects a diagnostic for sure, may be refused for its bracket properties)"""
    v = case["value"]
    if CARRIERS[case["carrier"]][4] != "text" or v is None or "&" not in v:
        return False, False
    (fk, _fx), br = G.fmt_expect(v)
    return fk == "diag", br


def oracle(case) -> dict | None:
    """None = the literal reached the output; else a description of the failure (a concrete failing input)."""
    real, v = case["real"], case["value"]
    kind = CARRIERS[case["carrier"]][4]
    if real["kind"] == "crash":
        return dict(kind="non-jmc-exception", exc=real.get("exc"), msg=real.get("msg"), frame=real.get("frame"))
    fmt_diag, fmt_brackets = fmt_verdict(case)
    if real["kind"] == "diag":
        if v is None or (kind == "say" and ("\n" in v or "\r" in v)):
            return None
        if fmt_diag or fmt_brackets:
            return None           # (whether a bracket's properties are acceptable is judged by the Coq model: correspondence)
        return dict(kind="valid-literal-refused", msg=real.get("msg"))
    if real["kind"] == "missing":
        return dict(kind="literal-lost", hits=real.get("hits"))
    line = real["line"]
    if real.get("collateral"):
        return dict(kind="other-output-changed", note="lines other than the literal's own line depend on the literal",
                    differences=real["collateral"], actual=line)
    if v is None:
        return dict(kind="malformed-literal-accepted", line=line)
    exp = expected_text(case)
    if exp is None:
        why = G.fmt_expect(v)[0][1]
        return dict(kind="unknown-format-code-accepted" if why.startswith("unknown code") else "malformed-formatted-text-accepted",
                    why=why, actual=line)
    word = CARRIERS[case["carrier"]][5]
    if kind == "jsonfile":
        t = line.strip()
        if not (t.startswith(word) and t.endswith(",")):
            return dict(kind="json-shape-differs", expected_prefix=word, actual=line)
        try:
            got = json.loads(t[len(word):-1])
        except Exception as e:  # noqa
            return dict(kind="json-unreadable", error=str(e), actual=line)
        if got != exp:
            return dict(kind="json-value-differs", expected=exp, actual_value=got, actual=line)
        return None
    if kind in ("say", "raw"):
        cmd = word + exp
        if not line.endswith(cmd):
            return dict(kind="text-differs", expected=cmd, actual=line)
        head = line[:len(line) - len(cmd)]
    else:
        m = mark(case["idx"])
        if case.get("exact"):
            # the text in front of the command does not depend on the literal: the command starts where the twin's does
            tl = real["twin_line"]
            at = tl.rfind(word, 0, tl.find(m))
            if at < 0 or line[:at] != tl[:at] or not line.startswith(word, at):
                return dict(kind="command-not-found", expected_word=word, actual=line, twin_line=tl)
        else:
            at = line.rfind(word, 0, line.find(m))
        if at < 0:
            return dict(kind="command-not-found", expected_word=word, actual=line)
        head, payload = line[:at], line[at + len(word):]
        if kind in ("json", "text"):
            tail = JSON_TAIL.get(case["carrier"], "")
            if tail:
                if not payload.endswith(tail):
                    return dict(kind="json-shape-differs", expected_suffix=tail, actual=line)
                payload = payload[:len(payload) - len(tail)]
            try:
                obj = json.loads(payload)
            except Exception as e:  # noqa
                return dict(kind="json-unreadable", error=str(e), actual=line)
            for key in JSON_PATH.get(case["carrier"], []):
                obj = obj.get(key) if isinstance(obj, dict) else None
            got = json_texts(obj)
            if got != exp:
                return dict(kind="json-value-differs", expected=exp, actual_value=got, actual=line)
        else:
            pre = CARRIERS[case["carrier"]][2][len(word):]
            post = CARRIERS[case["carrier"]][3]
            if not payload.startswith(pre):
                return dict(kind="nbt-shape-differs", expected_prefix=pre, actual=line)
            r = snbt_unquote(payload[len(pre):])
            if r is None:
                return dict(kind="nbt-unreadable", actual=line)
            if r[0] != exp:
                return dict(kind="nbt-value-differs", expected=exp, actual_value=r[0], actual=line)
            if r[1] != post:
                return dict(kind="nbt-shape-differs", expected_suffix=post, actual=line)
    if "\n" in line or "\r" in line:
        return dict(kind="line-break-in-command", actual=line)
    if head and not head.endswith(" run "):
        return dict(kind="prefix-damaged", prefix=head, actual=line)
    if mark(case["idx"]) in head:
        return dict(kind="prefix-damaged", prefix=head, actual=line)
    if case.get("exact") and kind in ("say", "raw"):
        tl, tcmd = real["twin_line"], word + mark(case["idx"])
        if not tl.endswith(tcmd) or head != tl[:len(tl) - len(tcmd)]:
            return dict(kind="prefix-damaged", prefix=head, actual=line, twin_line=tl)
    return None


# --------------------------------------------------------------------------- Coq side
HEADER0 = ("From Coq Require Import ZArith Bool String Ascii List Uint63.\n"
           "From JMCV Require Import Model.Lit Run.C09.\nOpen Scope Z_scope.\n")
HEADER1 = "Import ListNotations.\n"      # (the array literals `[| .. |]` do not parse once ListNotations is imported: they come first)
_ARRAYS: list[str] = []


def arrays_block() -> str:
    """definitions of the arrays registered by zs() since the last call"""
    out = "".join(f"Definition a{i} : str := ua [|{body}|0|]%uint63.\n" for i, body in enumerate(_ARRAYS))
    _ARRAYS.clear()
    return out


def zs(s: str) -> str:
    """code points as a Coq term of type str; longer texts as a primitive array (parsed several times faster: Run/C09.v `ua`)"""
    if len(s) < 4:
        return "[" + ";".join(str(ord(ch)) for ch in s) + "]"
    _ARRAYS.append(";".join(str(ord(ch)) for ch in s))
    return f"a{len(_ARRAYS) - 1}"


def coq_lit(s: str) -> str:
    assert all(32 <= ord(ch) < 127 for ch in s)
    return "[]" if s == "" else f"(lit {coq_str(s)})"


def case_term(c) -> str:
    ca = CARRIERS[c["carrier"]]
    if ca[1] == "KSay":
        k = "KSay"
    elif ca[1] == "KText":
        k = f"(KText {coq_lit(ca[2])} {coq_lit(ca[3])} {coq_lit(CERTS[c['cert']]['VAR'])})"
    else:
        k = f"({ca[1]} {coq_lit(ca[2])} {coq_lit(ca[3])})"
    v = c["value"] or ""
    names = "; ".join(f"({zs(n)}, {cp})" for n, cp in G.names_table(c["raw"]))
    np = sorted({ord(ch) for ch in v if ord(ch) >= 128 and not ch.isprintable()})
    r = c["real"]
    real = {"line": lambda: f"(RLine {zs(r['line'])})", "diag": lambda: "RDiag", "crash": lambda: "RCrash",
            "missing": lambda: "RMissing"}[r["kind"]]()
    return (f"mkCase {ord(c['q'])} {zs(c['raw'])} {k} [{'; '.join(c['ctx_terms'])}] "
            f"[{';'.join(map(str, np))}] [{names}] {real}")


def eval_cases(cases, per_file=300, pinned=True):
    """pinned=False: only the (repaired) model is evaluated - the pinned-tree model is needed only to classify a failing case
    against an entry of known_findings.json and is then evaluated for the failing cases alone"""
    files = []
    for fi, start in enumerate(range(0, len(cases), per_file)):
        chunk = cases[start:start + per_file]
        _ARRAYS.clear()
        terms = ";\n".join(case_term(c) for c in chunk)
        body = HEADER0 + arrays_block() + HEADER1 + "Definition cases : list case := [\n" + terms + "\n].\n"
        body += "Eval vm_compute in mismatches cases.\nEval vm_compute in unmodelled cases.\n"
        body += "Eval vm_compute in mismatches_pinned cases.\n" if pinned else "Eval vm_compute in mismatches (@nil case).\n"
        files.append((f"cases_{fi}.v", body))
    outs = run_coq_files(PROP, files)
    mism, unmod, mism_pinned, errs = set(), set(), set(), []
    for fi, (ok, out) in enumerate(outs):
        if not ok:
            errs.append(f"{files[fi][0]}: {out[-2500:]}")
            continue
        parts = out.split(": list nat")
        if len(parts) < 4:
            errs.append(f"{files[fi][0]}: unexpected coqc output {out[-1500:]}")
            continue
        for dst, part in zip((mism, unmod, mism_pinned), parts):
            for j in parse_nat_list(part):
                dst.add(fi * per_file + j)
    return mism, unmod, mism_pinned, errs


def model_lines(cases) -> list[str]:
    """the model's output for a few cases (to show in a replay file)"""
    _ARRAYS.clear()
    terms = [case_term(c) for c in cases]
    body = HEADER0 + arrays_block() + HEADER1 + "\n".join(f"Eval vm_compute in show (model_out ({t}))." for t in terms) + "\n"
    (ok, out), = run_coq_files(PROP, [("show.v", body)], clean=False)
    if not ok:
        return [f"<coq failed: {out[-500:]}>"] * len(cases)
    res = []
    for blk in out.split(": str")[:len(cases)]:
        m = re.search(r"=\s*(\[[^\]]*\]|nil)", blk, re.S)
        nums = [int(x) for x in re.findall(r"\d+", m.group(1))] if m else []
        res.append("".join(chr(n) for n in nums))
    return res


# --------------------------------------------------------------------------- known findings
# proposed entries of known_findings.json: genuine defects of /repo HEAD found by the exact-literal stream (round 3), each
# repaired by a patch under /verif/fixes/.  Once a patch is committed the failure no longer occurs; delete its entry here
# so that a regression is a VIOLATION.
# (round 4) the proposals are read from a file, never hard-coded: reports/C09-known_findings-4.json lists the defects of /repo HEAD
# repaired by fixes/C09-unknown-format-code.patch and fixes/C09-debug-watch-json-escape.patch.  The integrator deletes an entry
# (or the file) when he commits its patch; VERIF_NO_PROPOSED=1 = the state after that (a regression is then a VIOLATION).
PROPOSED_FILES = ["reports/C09-known_findings-4.json"]


def proposed_known() -> dict:
    out = {}
    if os.environ.get("VERIF_NO_PROPOSED"):
        return out
    for rel in PROPOSED_FILES:
        f = VERIF / rel
        if not f.exists():
            continue
        try:
            entries = json.loads(f.read_text()).get("findings", [])
        except (ValueError, AttributeError):
            continue
        for e in entries:
            if e.get("property") == PROP and e.get("id"):
                out.setdefault(e["id"], e)
    return out


PROPOSED_KNOWN = proposed_known()


def known_class(case, fail):
    listed = {f["id"] for f in known_for(PROP)}
    for f in known_for(PROP) + [v for k, v in PROPOSED_KNOWN.items() if k not in listed]:
        m = f.get("match", {})
        if fail["kind"] not in m.get("kinds", []):
            continue
        if m.get("raw_exact") and case["raw"] not in m["raw_exact"]:
            continue
        if m.get("value_exact") and case["value"] not in m["value_exact"]:
            continue
        if m.get("msg_contains") and m["msg_contains"] not in str(fail.get("msg", "")):
            continue
        if m.get("contexts") and not (set(m["contexts"]) & set(case["ctxs"])):
            continue
        if m.get("raw_contains") and not any(t in case["raw"] for t in m["raw_contains"]):
            continue
        if m.get("carriers") and case["carrier"] not in m["carriers"]:
            continue
        if m.get("quote") and case["q"] != m["quote"]:
            continue
        return f
    return None


def root_of(case, fail) -> str:
    """coarse class of a failing input (one replay per class)"""
    ctxs, raw = set(case["ctxs"]), case["raw"]
    if fail["kind"] == "non-jmc-exception":
        return "non-jmc-exception:" + str((fail.get("frame") or ["?", "?"])[1])
    if fail["kind"] == "line-break-in-command":
        return "line-break-in-command:" + case["carrier"]
    if "run execute store" in raw and ctxs & {"assign2", "overnull"}:
        return "assign-junction"
    if "run execute " in raw and ctxs & {"else", "else3", "eliflast"}:
        return "if-else-junction"
    if case["q"] == "`":
        return f"backtick:{case['lit']}"
    return f"{fail['kind']}:{CARRIERS[case['carrier']][4]}:{case['lit']}"


def replay_obj(case, fail) -> dict:
    return dict(kind=fail["kind"], literal=case["lit"], source_literal=case["q"] + case["raw"] + case["q"],
                exact=bool(case.get("exact")), twin_src=case.get("twin"), quote=case["q"],
                carrier=case["carrier"], contexts=case["stack"], src=case["item"], header=case.get("header"), jmc_txt=CERTS[case["cert"]],
                marker=mark(case["idx"]), expected_value=case["value"], failure=fail,
                real=case["real"], case=dict(idx=case["idx"], lit=case["lit"], carrier=case["carrier"],
                                             stack=case["stack"], cert=case["cert"]),
                how="./check C09 --replay <this file>")


# --------------------------------------------------------------------------- Debug.watch(src=true)  (round 4)
# The watched variable's operations print the SOURCE LINE they come from: the line (which may hold any string literal) is
# copied into a tellraw JSON.  Debug.watch must precede every variable operation, so each case is a program of its own.
WATCH_HEAD = "Debug.watch($w, src=true);"


def watch_cases(rng, tier: str) -> list[dict]:
    lits = [l for l in LITERALS if l[1] != "`" and l[0] not in ERROR_HINT and "\n" not in l[2] + l[3]]
    mixed = [l for l in G.mixed_literals() if l[1] != "`" and "\n" not in l[2] + l[3]]
    pick = lits + mixed if tier == "thorough" else lits[::3] + mixed[::9] + [l for l in mixed if l[0].startswith("mix:cafe")]
    out = []
    for i, (name, q, pre, post) in enumerate(pick):
        m = f"W{i:04d}Q"
        line = f"function w{i}() {{ $w = {i}; tellraw @a {q}{pre}{m}{post}{q}; }}"
        if literal_value(q, pre + m + post) is None:
            continue
        out.append(dict(lit=name, marker=m, line=line, src=WATCH_HEAD + "\n" + line, cert=i % len(CERTS)))
    # the selector / objective are copied as well
    for i, sel in enumerate(['@s[name="A"]', "@e[tag=\u00e9,limit=1]", '@a[nbt={Tags:["x\\y"]}]']):
        m = f"W9{i:03d}Q"
        line = f"function ws{i}() {{ obj:{sel} = {i}; say {m}; }}"
        out.append(dict(lit=f"selector-{i}", marker=m, line=line, selector=sel, cert=i % len(CERTS),
                        src=f"Debug.watch(obj:{sel}, src=true);\n" + line))
    return out


def watch_oracle(case, res) -> dict | None:
    if not res["ok"]:
        if res.get("jmc"):
            return dict(kind="valid-literal-refused", msg=res.get("msg", "")[:300]) if "selector" not in case else None
        return dict(kind="non-jmc-exception", exc=res.get("exc"), msg=res.get("msg", "")[:300], frame=res.get("frame"))
    hits = [l for p, t in res["files"].items() if "__debug_watch__" in p for l in t.split("\n") if " run tellraw @a " in l]
    if not hits:
        return dict(kind="literal-lost", hits=[], why="no Debug.watch report was emitted")
    line = hits[0]
    payload = line[line.index(" run tellraw @a ") + len(" run tellraw @a "):]
    try:
        obj = json.loads(payload)
    except Exception as e:  # noqa
        return dict(kind="json-unreadable", error=str(e), actual=line)
    texts = [x.get("text") for x in obj if isinstance(x, dict)]
    if case["line"] not in texts:
        return dict(kind="json-value-differs", expected=case["line"], actual_value=texts[-1] if texts else None, actual=line)
    if "selector" in case and not any(isinstance(x, dict) and x.get("selector") == case["selector"] for x in obj):
        return dict(kind="json-value-differs", expected=case["selector"], actual_value=[x for x in obj if isinstance(x, dict) and "selector" in x], actual=line)
    return None


def run_watch(ck, tier: str) -> dict:
    cases = watch_cases(ck.rng, tier)
    results = compile_batch([dict(src=c["src"], cert=cert_text(CERTS[c["cert"]])) for c in cases], chunk=40)
    fails = []
    for c, r in zip(cases, results):
        f = watch_oracle(c, r)
        if f:
            fails.append((c, f))
    reported = set()
    for c, f in fails:
        pseudo = dict(raw=c["line"], value=c["line"], ctxs=[], carrier="debug-watch", q='"')
        kf = known_class(pseudo, f)
        if kf:
            ck.known(kf["id"], kf["what"])
            continue
        key = f["kind"] + (":selector" if "selector" in c else "")
        if key in reported:
            continue
        reported.add(key)
        ck.violation(dict(kind=f["kind"], sink="Debug.watch(src=true): the source line is copied into a tellraw", literal=c["lit"],
                          src=c["src"], jmc_txt=CERTS[c["cert"]], watch=dict(line=c["line"], selector=c.get("selector"), lit=c["lit"]),
                          expected_value=c["line"], failure=f, same_class_in_cases=sum(1 for _c, g in fails if g["kind"] == f["kind"]),
                          how="./check C09 --replay <this file>"))
    return dict(cases=len(cases), failures=len(fails))


# --------------------------------------------------------------------------- (round 5) macro names inside literals
MN_HEADERS = [
    ("object-like", "#define GREETING welcome back\n#define LIMIT 20\n#define m3 other\n#define text content\n#define color blue\n"
                    "#define red green\n#define hi bye"),
    ("parameters", "#define GREETING(a) hello a\n#define LIMIT(a, b) a b\n#define m3(x) x\n#define text(x) x\n#define color(x) x\n"
                   "#define red(x) x\n#define hi(x) x"),
    ("numeric+enum", "#define LIMIT 20\n#define m3 3\n#define text 7\n#define color 0\n#define red 1\n#define hi 5\n"
                     "#enum GREETING 4 a b\n#enum Color RED GREEN"),
    ("string-bodies", '#define GREETING "x"\n#define LIMIT "20"\n#define m3 "y"\n#define text "t"\n#define color "c"\n'
                      '#define red "r"\n#define hi "h"'),
]
MN_STATEMENTS = [
    'say "GREETING";', "say 'LIMIT';", 'say "hi GREETING LIMIT";', 'tellraw @a "GREETING";', 'tellraw @a {"text":"GREETING"};',
    'tellraw @a {"text":"LIMIT","color":"red"};', 'tellraw @a ["hi",{"text":"m3","color":"red"}];',
    'title @a title {"bold":true,"text":"GREETING.a"};', 'data merge entity @s {CustomName:"GREETING"};',
    'data merge storage a:b {"m3":"GREETING",k:["LIMIT","hi"]};', 'give @s stone{display:{Name:"LIMIT"}} 1;',
    'summon zombie ~ ~ ~ {"CustomName":"Color.RED"};', 'Text.tellraw(@a, "GREETING");', 'Text.title(@a, "LIMIT");', 'printf("m3");',
    'Text.tellraw(@s, "hi &<red>LIMIT");', 'tellraw @a {"text":"x","hoverEvent":{"action":"show_text","contents":"GREETING"}};',
    'me "LIMIT";', 'scoreboard players set @s[name="GREETING",tag="m3"] obj 1;', 'execute if entity @s[name="hi"] run say "hi";',
    'Item.give(@s, "stone", nbt={"display":"LIMIT"});' if False else 'tellraw @a [{"text":"color"},{"text":"text"}];',
    'Hardcode.repeat("zq", ()=>{ say "GREETING zq"; }, start=1, stop=3, step=1);',
]
MN_CONTEXTS = [
    ("top", lambda i, b: b), ("function", lambda i, b: f"function mn{i}() {{ {b} }}"),
    ("if/else", lambda i, b: f'function mn{i}() {{ if ($a == 1) {{ {b} }} else if ($b == 2) {{ {b} }} else {{ {b} }} }}'),
    ("execute-run block", lambda i, b: f"function mn{i}() {{ execute as @a run {{ {b} say 1; }} }}"),
    ("execute-run", lambda i, b: f"function mn{i}() {{ execute as @a at @s run {b} }}"),
    ("class method", lambda i, b: f"class kmn{i} {{ function m() {{ {b} }} }}"),
    ("while", lambda i, b: f"function mn{i}() {{ while ($i < 3) {{ {b} }} }}"),
    ("switch", lambda i, b: f'function mn{i}() {{ switch ($s) {{ case 1: {b} case 2: say "GREETING"; }} }}'),
    ("schedule", lambda i, b: f"function mn{i}() {{ schedule 5t {{ {b} }} }}"),
    ("lazy", lambda i, b: f"@lazy function lzmn{i}(q) {{ {b} say $q; }}\nfunction mn{i}() {{ lzmn{i}(\"LIMIT\"); }}"),
]


def run_macro_names(ck, tier: str) -> dict:
    """same program with / without a header whose macro names occur ONLY inside string literals of the program: the file maps
    must be identical (a statement that is refused without the header is skipped)"""
    progs = []
    for si, stmt in enumerate(MN_STATEMENTS):
        for ci, (cn, wrap) in enumerate(MN_CONTEXTS):
            if tier != "thorough" and (si + ci) % 3 and cn not in ("top", "function"):
                continue
            if cn == "lazy" and ("Hardcode" in stmt):
                continue
            progs.append(dict(stmt=stmt, context=cn, src=wrap(len(progs), stmt)))
    cert = cert_text(CERTS[0])
    base = compile_batch([dict(src=p["src"], cert=cert) for p in progs], chunk=40)
    good = [(p, r) for p, r in zip(progs, base) if r["ok"]]
    n, fails, reported = 0, 0, set()
    for hn, header in MN_HEADERS:
        res = compile_batch([dict(src=p["src"], cert=cert, header=header) for p, _r in good], chunk=40)
        for (p, rb), ra in zip(good, res):
            n += 1
            if ra["ok"] and ra["files"] == rb["files"]:
                continue
            fails += 1
            if hn in reported:
                continue
            reported.add(hn)
            diff = ({k: dict(without_header=rb["files"].get(k), with_header=ra["files"].get(k))
                     for k in sorted(set(ra["files"]) | set(rb["files"])) if ra["files"].get(k) != rb["files"].get(k)}
                    if ra["ok"] else dict(error=ra.get("error")))
            ck.violation(dict(kind="macro-applied-inside-literal", header_kind=hn, header=header, src=p["src"], statement=p["stmt"],
                              context=p["context"], jmc_txt=CERTS[0], differing_files=diff,
                              theorem="C09_string_token_ignores_macros: a STRING token is pushed unchanged for every macro table",
                              note="every macro name of the header occurs only inside string literals of the program: the output "
                                   "must equal the output without the header", how="./check C09 --replay <this file>"))
    if len(good) < len(progs) * 0.8:
        ck.violation(dict(kind="generator-ineffective", what="macro-name stream: too many programs refused without header",
                          refused=[p["src"] for p, r in zip(progs, base) if not r["ok"]][:5]), no_input=True)
    return dict(programs=len(progs), compiled=len(good), headers=len(MN_HEADERS), comparisons=n, failures=fails)


# --------------------------------------------------------------------------- main
def main(tier: str) -> int:
    ck = Check(PROP, tier)
    ck.cov["trusted_base"] = [t for t in COMMON_TRUSTED if not t.startswith("MC/")] + [
        "Model/Lit.v: hand-written port of string-token decoding (tokenizer.py __parse_string + Python escape rules), "
        "json.dumps(ensure_ascii), repr-based NBT quoting (utils.clean_up_paren_token), say, and of the prefix/junction "
        "logic of parse_if_else / append_commands / `$x = <command>`; tied to /repo by exact equality of the emitted line",
        "json_unquote / nbt_unquote / nbt_unquote_legacy in Model/Lit.v: hand-written specification of what Minecraft reads (RFC 8259, SNBT)",
        "carrier templates (text around the literal) and the tokenisation of the brackets: by correspondence only",
        "Python's str.isprintable Unicode table: a parameter of the theorems; the harness passes the actual answers per case",
        "Model/Lit.v section 2b: hand-written port of command/utils.py FormattedText (__parse, __push, __parse_code, __parse_bracket, "
        "__str__) for pack formats below 19 with no TextProp declared; the nbt property `&<a::b>` is outside the model",
        "Python's Unicode name table (\\N{name}): a parameter of the theorems; the harness passes unicodedata's answers per case",
        "JSON files (`new`), function \"<string>\" and Debug.watch(src=true): decoding oracle only",
        "the oracle (ast.literal_eval of the source literal, json.loads, a 30-line SNBT unquote in c09.py) is used to find failing inputs",
    ]
    ck.proof(extra_targets=["Run/C09.vo"])
    if tier == "thorough":
        import subprocess
        from lib import COQ
        p = subprocess.run(["timeout", "900", "coqchk", "-silent", "-o", "-Q", ".", "JMCV", "JMCV.Props.C09"], cwd=COQ,
                           stdout=subprocess.PIPE, stderr=subprocess.STDOUT)
        out = p.stdout.decode(errors="replace")
        ck.cov["coqchk"] = dict(rc=p.returncode, axioms_none="* Axioms: <none>" in out, summary=out[-600:])
        if p.returncode != 0 or "* Axioms: <none>" not in out:
            ck.violation(dict(kind="coqchk-failed", log=out[-3000:]), no_input=True)

    from lib import REPO
    exact, exact_info = exact_literals(REPO)
    if exact_info["derived"] < 60 or exact_info["unread"]:
        ck.violation(dict(kind="generator-ineffective", what="fewer than 60 dispatch spellings could be read from the source tree "
                          "(files moved or no longer parse?); the exact-literal stream runs on the fixed floor only", info=exact_info),
                     no_input=True)
    import time
    t0 = time.time()
    cases = gen_cases(ck.rng, tier, exact)
    t1 = time.time()
    run_real(cases)
    t2 = time.time()
    coq_idx = [i for i, c in enumerate(cases) if c["carrier"] not in ORACLE_ONLY_CARRIERS]
    mism, unmod, _none, errs = eval_cases([cases[i] for i in coq_idx], pinned=False)
    mism_pinned = set()
    t3 = time.time()
    ck.cov["phase_seconds"] = dict(generate=round(t1 - t0, 1), compile=round(t2 - t1, 1), coq=round(t3 - t2, 1))
    mism, unmod, mism_pinned = ({coq_idx[i] for i in x} for x in (mism, unmod, mism_pinned))
    for e in errs:
        ck.violation(dict(kind="correspondence-file-failed", log=e), no_input=True)

    # ---- oracle on every case
    fails = {}
    for i, c in enumerate(cases):
        f = oracle(c)
        if f:
            fails[i] = f
    need_pinned = [i for i, f in fails.items() if i in set(coq_idx) and known_class(cases[i], f)
                   and known_class(cases[i], f)["id"] not in PROPOSED_KNOWN]
    if need_pinned:
        _m, _u, mp, errs2 = eval_cases([cases[i] for i in need_pinned])
        mism_pinned = {need_pinned[j] for j in mp}
        for e in errs2:
            ck.violation(dict(kind="correspondence-file-failed", log=e), no_input=True)
    reported = {}
    for i, f in fails.items():
        c = cases[i]
        kf = known_class(c, f)
        if kf and (i not in mism_pinned or kf["id"] in PROPOSED_KNOWN):
            ck.known(kf["id"], kf["what"])
            continue
        reported.setdefault(root_of(c, f), []).append(i)
    for n, (key, idxs) in enumerate(sorted(reported.items(), key=lambda kv: kv[1][0])):
        if n >= 10:
            break
        c = cases[idxs[0]]
        o = replay_obj(c, fails[idxs[0]])
        o["failure_class"] = key
        o["same_class_in_cases"] = len(idxs)
        o["distinct_failure_classes"] = len(reported)
        ck.violation(o)

    watch_info = run_watch(ck, tier)
    mname_info = run_macro_names(ck, tier)

    # ---- correspondence: differing cases that the oracle does not explain
    silent = sorted(i for i in mism if i not in fails)
    if silent:
        show = [cases[i] for i in silent[:5]]
        ml = model_lines(show)
        ck.violation(dict(kind="correspondence-differs",
                          theorem="C09_context_transparent / C09_literal_reaches_output no longer speak about the code",
                          n_differing=len(silent),
                          cases=[dict(src=c["item"], literal=c["lit"], carrier=c["carrier"], contexts=c["stack"],
                                      real=c["real"], model=m) for c, m in zip(show, ml)]), no_input=True)
    exp_unmod = {i for i, c in enumerate(cases) if c["expect_unmodelled"] and c["carrier"] not in ORACLE_ONLY_CARRIERS}
    if unmod != exp_unmod and not errs:
        diff = sorted(unmod ^ exp_unmod)[:5]
        ck.violation(dict(kind="model-coverage-differs", note="cases the Coq model declares unmodelled differ from the declared set",
                          cases=[dict(src=cases[i]["item"], in_coq=(i in unmod), declared=(i in exp_unmod)) for i in diff]),
                     no_input=True)

    hist_c, hist_s, hist_o = {}, {}, {}
    for c in cases:
        hist_c[c["carrier"]] = hist_c.get(c["carrier"], 0) + 1
        hist_s[c["stack"]] = hist_s.get(c["stack"], 0) + 1
        hist_o[c["real"]["kind"]] = hist_o.get(c["real"]["kind"], 0) + 1
    distinct = len({(c["lit"], c["carrier"], c["stack"], c["cert"]) for c in cases
                    if not c["expect_unmodelled"] and c["carrier"] not in ORACLE_ONLY_CARRIERS})
    ck.cov.update(dict(
        evaluations=len(cases), distinct_nontrivial=distinct,
        rule=f"{len(LITERALS)} adversarial literals x {len(CORE_STACKS)} core context stacks x {len(MAIN_CARRIERS)} main carriers (full cross) "
             f"+ rotating cover of {len(MORE_STACKS)} further stacks and {len(CARRIERS) - len(MAIN_CARRIERS)} further carriers (full cross in the thorough tier) "
             "+ random context stacks of depth 2-4; every case has a unique marker; distinct = distinct (literal, carrier, stack, jmc.txt) "
             "tuples evaluated in Coq (cases outside the model are counted only in oracle_only)",
        samples=[dict(src=c["item"], real=c["real"].get("line", c["real"]["kind"]))
                 for c in ([c for c in cases if c["lit"] == "run-execute" and c["stack"] in ("func/else", "func/eliflast")][:3] +
                           [c for c in cases if c["lit"] in ("both-quotes", "astral-emoji", "bt-quotes", "bad-x") and c["stack"] == "func/execblock"][:6] +
                           cases[-2:])],
        programs=len(cases), disagreements_checked=len(mism), oracle_failures=len(fails),
        oracle_only=len(exp_unmod) + len(cases) - len(coq_idx), pinned_model_disagreements=len(mism_pinned),
        branch_histogram=dict(carrier=hist_c, outcome=hist_o, stacks=len(hist_s)),
        literals=len(LITERALS), carriers=len(CARRIERS), context_stacks=len(hist_s),
        exact_literals=dict(exact_info, literals=len(exact), cases=sum(1 for c in cases if c["exact"]),
                            recompiled_alone=sum(1 for c in cases if c["exact"] and "collateral" in c["real"]),
                            rule="literal == a spelling the dispatcher compares token text with (read from the tree), alone / one leading / "
                                 "one trailing blank; no marker inside: the line is located by a twin program with the literal \"<marker>\""),
        round4=dict(mixed_literals=len(G.mixed_literals()), formatted_literals=len(G.fmt_literals()),
                    non_ascii_classes=len(G.NONASCII), escape_forms=len(G.ESCAPES),
                    mixed_cases=sum(1 for c in cases if c["lit"].startswith("mix:")),
                    formatted_cases=sum(1 for c in cases if c["lit"].startswith("fmt:")),
                    json_file_cases=sum(1 for c in cases if c["carrier"] == "json-file"),
                    leaf_wrapper_cases={l: sum(1 for c in cases if l in c["ctxs"]) for l in LEAVES},
                    named_escape_cases=sum(1 for c in cases if G.names_table(c["raw"])),
                    debug_watch=watch_info, macro_names_round5=dict(
                        mname_info, cases_in_main_stream=sum(1 for c in cases if c["lit"].startswith("mname:"))),
                    proposed_known=sorted(PROPOSED_KNOWN)),
        correspondence="model line == real marker line (exact code points) for every modelled case; "
                       "diagnostic <-> diagnostic; plus decode-and-compare oracle on every real line",
    ))
    return ck.finish()


def replay(path: str) -> int:
    obj = json.loads(open(path).read())
    print(f"replaying {path} against {__import__('lib').REPO}")
    if "src" not in obj:
        print("this replay records a broken proof/correspondence, not an input:", obj.get("kind"), obj.get("what", ""))
        print(json.dumps(obj, indent=1)[:3000])
        return 1
    res, = compile_batch([dict(src=obj["src"], cert=cert_text(obj["jmc_txt"]), header=obj.get("header"))])
    if obj.get("kind") == "macro-applied-inside-literal":
        base, = compile_batch([dict(src=obj["src"], cert=cert_text(obj["jmc_txt"]))])
        same = res["ok"] and base["ok"] and res["files"] == base["files"]
        print("header         :\n" + obj["header"])
        print("program        :", obj["src"])
        if not same:
            for k in sorted(set(res.get("files", {})) | set(base.get("files", {}))):
                if res.get("files", {}).get(k) != base["files"].get(k):
                    print(f"  {k}\n    without header: {base['files'].get(k)!r}\n    with header   : {res.get('files', {}).get(k)!r}")
            if not res["ok"]:
                print("  with header: refused -", res.get("msg", res.get("error", ""))[:300])
        print("verdict        :", "passes (same output with and without the header)" if same else
              "FAILS: a macro of the header was applied inside a string literal")
        return 0 if same else 1
    if "watch" in obj:
        w = obj["watch"]
        case = dict(line=w["line"], lit=w["lit"])
        if w.get("selector"):
            case["selector"] = w["selector"]
        f = watch_oracle(case, res)
        print("program        :", obj["src"])
        print("expected text  :", repr(w["line"]))
        print("verdict        :", "FAILS: " + json.dumps(f, ensure_ascii=False) if f else "passes")
        return 1 if f else 0
    co = obj["case"]
    q = obj.get("quote") or [l for l in LITERALS if l[0] == co["lit"]][0][1]
    # rebuild the case around the stored program
    case = dict(idx=co["idx"], lit=co["lit"], q=q, raw=obj["source_literal"][1:-1], carrier=co["carrier"],
                stack=co["stack"], ctxs=co["stack"].split("/")[1:], cert=co["cert"], item=obj["src"],
                value=obj["expected_value"], exact=bool(obj.get("exact")), twin=obj.get("twin_src"))
    if case["exact"]:
        twin, = compile_batch([dict(src=obj["twin_src"], cert=cert_text(obj["jmc_txt"]))])
        case["real"] = exact_outcome(twin, res, case, alone=True)
        print("twin program   :", obj["twin_src"])
    else:
        case["real"] = outcome_of(res, obj["marker"], suffix_of(case))
    f = oracle(case)
    if obj.get("header"):
        print("header         :", obj["header"])
    print("source literal :", obj["source_literal"])
    print("expected value :", repr(obj["expected_value"]))
    print("actual         :", json.dumps(case["real"], ensure_ascii=False))
    print("verdict        :", "FAILS: " + json.dumps(f, ensure_ascii=False) if f else "passes")
    return 1 if f else 0
