"""C02 helper: a variable statement in a position that takes ONE command.

    execute if/unless score ... run S;      return run S;      execute ... run return run S;
    $o = S;  ($p = $o = S;)                 if (cond) S   [else S2]   (braces-less bodies)
    execute as @s at @s positioned ~ ~ ~ if score ... run S;

Contents: generators of guards / contexts (all randomness from the caller's rng), the source text and the Coq term of
a placed statement (Run.C02.xstmt), the reference semantics "the whole statement runs iff the guard holds" and RVM =
mcvm + Minecraft's `return` with return VALUES (mcvm.py is shared and stays untouched).  Also used by the narrow
context probes of C01 and C20 (statement kinds other than `:=`: the caller supplies text and meaning)."""
from __future__ import annotations

import re
import sys

from lib import coq_list, coq_str, coq_z
from mcvm import VM, Invalid, OutOfFuel, wrap  # noqa: F401  (re-exported)

# ------------------------------------------------------------------ RVM
sys.setrecursionlimit(max(sys.getrecursionlimit(), 20000))      # one Minecraft call level = several Python frames
VOID = type("Void", (), {"__repr__": lambda self: "<void>", "__bool__": lambda self: True})()


class _Return(Exception):
    def __init__(self, ok, val):
        self.ok, self.val = ok, val


class RVM(VM):
    """mcvm + `return <n>` / `return fail` / `return run <command>`:
    * a `return` that is executed ends the function it is written in, with the value / the result of the command;
    * a function that ends without `return` is void: `execute store ... run function f` stores nothing;
    * `return run <command>` of a command without result (void function, failed `execute if`) returns failure (0);
    * `execute as @s` / `at @s` / `if entity @s` / `positioned ~ ~ ~` do not matter for scores: skipped."""

    NOOP = re.compile(r" (?:as @s|at @s|if entity @s|positioned ~ ~1? ~)(?= )")

    def call(self, name):
        """-> None (unknown function) | VOID | (ok, value)"""
        body = self.lookup(name)
        if body is None:
            return None
        d = self.depth
        self.depth += 1
        if self.depth > self.max_depth:
            raise OutOfFuel("depth")
        try:
            for line in body.split("\n"):
                if line:
                    self.cmd(line)
            return VOID
        except _Return as r:
            return (r.ok, r.val)
        finally:
            self.depth = d

    def cmd(self, line):
        if line == "return" or line.startswith("return "):
            self.steps += 1
            rest = line[7:]
            if rest.startswith("run "):
                ok, val = self.cmd(rest[4:])
                if ok is VOID or val is VOID:
                    raise _Return(False, 0)
                raise _Return(ok, val)
            if rest == "fail":
                raise _Return(False, 0)
            if not re.fullmatch(r"-?\d+", rest):
                raise Invalid(line)
            raise _Return(True, int(rest))
        if line.startswith("function ") and " with " not in line:
            self.steps += 1
            if self.steps > self.max_steps:
                raise OutOfFuel("steps")
            r = self.call(line.split(" ")[1])
            if r is None:
                return False, 0
            if r is VOID:
                return VOID, VOID
            return r
        if line.startswith("execute "):
            line = self.NOOP.sub("", line)
            if line.endswith(" run "):
                raise Invalid("nothing after `run`: " + repr(line))
        if line == "":
            raise Invalid("empty command")
        return VM.cmd(self, line)

    def _store(self, dest, v):
        if v is VOID:
            return
        VM._store(self, dest, v)


# ------------------------------------------------------------------ guards
# a test: (positive, holder variable as written in the source, kind, payload)
#   kind "m": payload = (lo | None, hi | None)  -> `matches lo..hi`      kind "c": payload = (op, other variable)
CMPS = {"<": lambda a, b: a < b, "<=": lambda a, b: a <= b, "=": lambda a, b: a == b,
        ">=": lambda a, b: a >= b, ">": lambda a, b: a > b}
CMP_COQ = {"<": "CLt", "<=": "CLe", "=": "CEq", ">=": "CGe", ">": "CGt"}
RANGES = [(1, None), (None, 0), (None, -1), (0, None), (2, 5), (-3, -1), (None, 2), (-2147483648, -1), (1, 2147483647)]


def gen_test(rng, holders):
    pos = rng.random() < 0.65
    h = rng.choice(holders)
    if rng.random() < 0.7:
        return (pos, h, "m", rng.choice(RANGES))
    return (pos, h, "c", (rng.choice(list(CMPS)), rng.choice(holders)))


def gen_guard(rng, holders, n=None):
    n = n if n is not None else rng.choice([1, 1, 1, 2, 2, 3])
    return [gen_test(rng, holders) for _ in range(n)]


def holder_src(v, var_name, clean):
    """`holder objective` of a variable as it must be written inside `execute if score`"""
    if v.startswith("$"):
        return f"{v} {var_name}"
    obj, sel = v.split(":", 1)
    return f"{clean(sel)} {obj}"


def range_src(r):
    lo, hi = r
    return f"{'' if lo is None else lo}..{'' if hi is None else hi}"


def test_src(t, var_name, clean):
    pos, h, kind, p = t
    w = "if" if pos else "unless"
    if kind == "m":
        return f"{w} score {holder_src(h, var_name, clean)} matches {range_src(p)}"
    return f"{w} score {holder_src(h, var_name, clean)} {p[0]} {holder_src(p[1], var_name, clean)}"


def guard_src(g, var_name, clean):
    return " ".join(test_src(t, var_name, clean) for t in g)


def test_holds(t, env):
    """env: variable text -> value (every variable of the guard is set: tests on unset scores are not generated)"""
    pos, h, kind, p = t
    v = env[h]
    if kind == "m":
        lo, hi = p
        ok = (lo is None or lo <= v) and (hi is None or v <= hi)
    else:
        ok = CMPS[p[0]](v, env[p[1]])
    return ok == pos


def guard_holds(g, env):
    return all(test_holds(t, env) for t in g)


def guard_vars(g):
    out = set()
    for pos, h, kind, p in g:
        out.add(h)
        if kind == "c":
            out.add(p[1])
    return out


def score_term(v, svar_term):
    return f"(score_of nm_ {svar_term(v)})"


def range_term(r):
    lo, hi = r
    if lo is None:
        return f"(To {coq_z(hi)})"
    if hi is None:
        return f"(From {coq_z(lo)})"
    return f"(Between {coq_z(lo)} {coq_z(hi)})"


def guard_term(g, nm, svar_term):
    """Coq term of type list (bool * test); nm = name of the `names` constant"""
    def sc(v):
        return f"(score_of {nm} {svar_term(v)})"
    items = []
    for pos, h, kind, p in g:
        b = "true" if pos else "false"
        if kind == "m":
            items.append(f"({b}, Matches {sc(h)} {range_term(p)})")
        else:
            items.append(f"({b}, Cmp {sc(h)} {CMP_COQ[p[0]]} {sc(p[1])})")
    return coq_list(items)


# ------------------------------------------------------------------ contexts
# ctx = dict(kind=..., guard=[tests], ret=bool, chain=[outer targets, innermost first], prefix=str (python-only kinds))
KINDS_COQ = ["E", "E", "U", "E2", "R", "ER", "C", "C2", "EC", "RC", "ERC"]
KINDS_PY = ["AS", "IFB", "IFELSE"]


def gen_ctx(rng, kind, target, operands):
    """target / operands: variable texts of the statement (guards may read them; a chain may assign to them)"""
    holders = ["$g", "$g", "$h", target] + sorted(operands)[:2]
    outer = ["$o", "$o", "$o", target] + sorted(v for v in operands if v.startswith("$"))[:1]
    c = dict(kind=kind, guard=[], ret=False, chain=[], prefix="")
    if kind in ("E", "EC", "ER", "ERC", "AS"):
        c["guard"] = gen_guard(rng, holders, rng.choice([1, 1, 2]))
    elif kind == "U":
        g = gen_test(rng, holders)
        c["guard"] = [(False,) + g[1:]]
    elif kind == "E2":
        c["guard"] = gen_guard(rng, holders, rng.choice([2, 3]))
    if kind in ("R", "ER", "RC", "ERC"):
        c["ret"] = True
    if kind in ("C", "EC", "RC", "ERC"):
        c["chain"] = [rng.choice(outer)]
    elif kind == "C2":
        c["chain"] = [rng.choice(outer), rng.choice(["$p", "$p", "$o"])]
    if kind == "AS":
        c["prefix"] = rng.choice(["as @s ", "as @s at @s ", "at @s positioned ~ ~1 ~ ", "positioned ~ ~ ~ as @s "])
    return c


def place_src(c, stmt, var_name, clean):
    """source text of the statement `stmt` (without the final `;`) in context c"""
    s = stmt
    for o in c["chain"]:
        s = f"{o} = {s}"
    if c["ret"]:
        s = "return run " + s
    if c["guard"] or c["prefix"]:
        s = f"execute {c['prefix']}{guard_src(c['guard'], var_name, clean)} run {s}".replace("  ", " ")
    return s + ";"


def ctx_vars(c):
    return guard_vars(c["guard"]) | set(c["chain"])


# ------------------------------------------------------------------ reference semantics
UNDEF = object()


def ref_run(stmts, env, canon):
    """stmts: list of dict(ctx=..., target=..., value=callable(env)->new target value | None (no defined meaning),
                            has_commands=bool)
    env: variable text -> value.  Variables that are spellings of one score share it (canon).
    -> (final env keyed by canonical variable, return value | None | "unknown") or UNDEF"""
    st = {}
    for k, v in env.items():
        st[canon(k)] = v

    class View(dict):
        def __missing__(self, k):
            return st[canon(k)]
    view = View()
    returned = None
    fell = True
    for s in stmts:
        c = s["ctx"]
        if not guard_holds(c["guard"], view):
            continue
        new = s["value"](view)
        if new is None:
            return UNDEF
        also = s["also"](view) if "also" in s else []       # other scores the statement writes (the other side of a swap)
        st[canon(s["target"])] = new
        for k, v in also:
            st[canon(k)] = v
        for o in c["chain"]:
            st[canon(o)] = new
        if c["ret"]:
            returned = new if (s["has_commands"] or c["chain"]) else "unknown"
            fell = False
            break
    if fell:
        st[canon("$after")] = 7
    return st, returned


def xstmt_term(c, nm, target_term, form_term, expr_term, svar_term):
    chain = coq_list(svar_term(o) for o in c["chain"])
    return (f"(mkXStmt {target_term} {form_term} {expr_term} {guard_term(c['guard'], nm, svar_term)} "
            f"{'true' if c['ret'] else 'false'} {chain})")


def anon_functions(fns: dict, private: str):
    """[(path, body)] of the private functions of group `anonymous`, by number"""
    out = []
    for k, v in fns.items():
        m = re.fullmatch(re.escape(private) + r"/anonymous/(\d+)", k)
        if m:
            out.append((int(m.group(1)), k, v))
    return [(k, v) for _, k, v in sorted(out)]


def fns_term(ns, anon):
    return coq_list(f"({coq_str(ns + ':' + k)}, {coq_str(v)})" for k, v in anon)
