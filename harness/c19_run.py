"""C19 runner: compiles jobs with the real compiler (virtual build, JMCTestPack) and records, for every
Hardcode.repeat / repeatList / repeatLists call and every @lazy call, the inputs of the expansion and the
texts the real code hands to the function-content parser.

Run with /venv/bin/python and PYTHONPATH=<repo>/src.
stdin : JSON list of jobs {src, header?, envs?}  (compiled one after the other IN THIS PROCESS, in the given order)
stdout: JSON list of {"ok": bool, "files"| "exc","jmc","msg", "records": [record]}
record: {"kind": "repeat"|"list"|"lists"|"lazy", "body": str, "params": [..], "macros": [[k, v]..],
         "start","stop","step" | "strings" | "lists" | "pos","kw" (arguments of a lazy call as token lists:
         ["str", content, is_backtick] | ["paren", cleaned text] | ["func", params, body] | ["other", text] | ["gap"] = blanks between two tokens),
         "texts": [texts handed to the parser, in order],
         "err": null | {"exc": class, "msg": str, "stage": "process"|"parse"}}
"""
import json
import os
import signal
import sys
import traceback

CERT = "LOAD=__load__\nTICK=__tick__\nPRIVATE=__private__\nVAR=__variable__\nINT=__int__\nSTORAGE=__storage__"


class _Timeout(BaseException):
    pass


def _alarm(signum, frame):
    raise _Timeout()


RECORDS = []
STACK = []          # active expansion records (innermost last)
DEPTH = [0]         # nesting depth of DataPack.parse_function_token / PreFunction.parse


def install():
    from jmc.compile.datapack import DataPack, PreFunction
    from jmc.compile.header import Header
    from jmc.compile.tokenizer import Token, TokenType
    from jmc.compile.command.builtin_function import execute_excluded as EE

    orig_pft = DataPack.parse_function_token

    def pft(self, token, tokenizer, prefix, *a, **k):
        DEPTH[0] += 1
        rec = None
        try:
            if STACK and STACK[-1]["kind"] != "lazy" and STACK[-1]["_depth0"] + 1 == DEPTH[0] and not isinstance(token, list):
                rec = STACK[-1]
                rec["texts"].append(token.string)
                rec["_in_parse"] = True
            r = orig_pft(self, token, tokenizer, prefix, *a, **k)
            if rec is not None:
                rec["_in_parse"] = False
            return r
        finally:
            DEPTH[0] -= 1
    DataPack.parse_function_token = pft

    orig_parse = PreFunction.parse

    def parse(self, func_content=None):
        DEPTH[0] += 1
        rec = None
        try:
            if (STACK and STACK[-1]["kind"] == "lazy" and STACK[-1]["_self"] is self
                    and STACK[-1]["_depth0"] + 1 == DEPTH[0] and func_content is not None):
                rec = STACK[-1]
                rec["texts"].append(func_content)
                rec["_in_parse"] = True
            r = orig_parse(self, func_content)
            if rec is not None:
                rec["_in_parse"] = False
            return r
        finally:
            DEPTH[0] -= 1
    PreFunction.parse = parse

    def new_record(kind, body, params):
        rec = {"kind": kind, "body": body, "params": params,
               "macros": [[k, v] for k, v in Header().number_macros.items()],
               "texts": [], "err": None, "_depth0": DEPTH[0], "_in_parse": False}
        RECORDS.append(rec)
        return rec

    def run_recorded(rec, thunk):
        STACK.append(rec)
        try:
            return thunk()
        except BaseException as e:  # noqa
            if rec["err"] is None:
                rec["err"] = {"exc": type(e).__name__, "msg": str(e)[:400],
                              "stage": "parse" if rec["_in_parse"] else "process"}
            raise
        finally:
            STACK.pop()

    def wrap_hardcode(cls, kind):
        orig_call = cls.call

        def call(self):
            try:
                body = self.raw_args["function"].token.string
                params = list(self.arrow_func_args_params["function"])
            except Exception:  # noqa
                return orig_call(self)
            rec = new_record(kind, body, params)
            try:
                if kind == "repeat":
                    rec["start"], rec["stop"], rec["step"] = (int(self.args["start"]), int(self.args["stop"]),
                                                              int(self.args["step"]))
                elif kind == "switch":
                    # Hardcode.switch hands the parser the texts of Hardcode.repeat over range(begin_at, count + 1)
                    rec["kind"], rec["via"] = "repeat", "switch"
                    rec["start"], rec["stop"], rec["step"] = int(self.args["begin_at"]), int(self.args["count"]) + 1, 1
                elif kind == "list":
                    rec["strings"] = self.datapack.parse_list(self.raw_args["strings"].token, self.tokenizer,
                                                              TokenType.STRING)[0]
                else:
                    rec["lists"] = self.datapack.parse_lists(self.raw_args["stringLists"].token, self.tokenizer,
                                                             TokenType.STRING)[0]
            except Exception as e:  # noqa
                rec["input_error"] = type(e).__name__
            return run_recorded(rec, lambda: orig_call(self))
        cls.call = call

    wrap_hardcode(EE.HardcodeRepeat, "repeat")
    wrap_hardcode(EE.HardcodeRepeatList, "list")
    wrap_hardcode(EE.HardcodeRepeatLists, "lists")
    if hasattr(EE, "HardcodeSwitch"):
        wrap_hardcode(EE.HardcodeSwitch, "switch")

    from jmc.compile.utils import clean_up_paren_token
    PARENS = (TokenType.PAREN_CURLY, TokenType.PAREN_ROUND, TokenType.PAREN_SQUARE)

    def tok_rec(tok, tokenizer):
        tt = tok.token_type
        if tt == TokenType.STRING:
            return ["str", tok.string, tok.quote == "`"]
        if tt in PARENS:
            return ["paren", clean_up_paren_token(tok, tokenizer)]
        if tt == TokenType.FUNC:
            head = getattr(tok, "_embeded_data", None)
            return ["func", head.string if head is not None else "()", tok.string]
        return ["other", tok.string]

    def arg_rec(tokens, tokenizer):
        """token records of one argument; ["gap"] where two tokens are not adjacent in the source"""
        out = []
        for i, t in enumerate(tokens):
            if i and tuple(tokens[i - 1].end) != (t.line, t.col):
                out.append(["gap"])
            out.append(tok_rec(t, tokenizer))
        return out

    orig_hl = PreFunction.handle_lazy

    def handle_lazy(self, args, kwargs, error_token, hardcode_parse_calc):
        rec = new_record("lazy", self.func_content, None)
        rec["_self"] = self
        try:
            rec["params"] = list(self.tokenizer.parse_param(self.params))
            # the arguments as token lists: [kind, ...]; the text of a bracket token is clean_up_paren_token's (outside the model)
            rec["pos"] = [arg_rec(a, self.tokenizer) for a in args]
            rec["kw"] = [[k, arg_rec(v, self.tokenizer)] for k, v in kwargs.items()]
        except Exception as e:  # noqa
            rec["input_error"] = type(e).__name__
        return run_recorded(rec, lambda: orig_hl(self, args, kwargs, error_token, hardcode_parse_calc))
    PreFunction.handle_lazy = handle_lazy


def jmc_exception_classes():
    from jmc.compile import exception as E
    out = []
    for name in dir(E):
        obj = getattr(E, name)
        if isinstance(obj, type) and issubclass(obj, Exception) and obj.__module__ == E.__name__:
            out.append(obj)
    return tuple(out)


def clean(rec):
    return {k: v for k, v in rec.items() if not k.startswith("_")}


def run_job(job, JMCTestPack, jmc_excs):
    del RECORDS[:]
    del STACK[:]
    DEPTH[0] = 0
    signal.alarm(int(job.get("timeout", 10)))
    try:
        p = JMCTestPack(namespace="TEST")
        p.set_jmc_file(job["src"])
        if job.get("header") is not None:
            p.set_header_file(job["header"])
        p.set_cert(CERT)
        if job.get("envs") is not None:
            p.set_envs(list(job["envs"]))
        built = p.build().built
        res = {"ok": True, "files": built}
    except _Timeout:
        res = {"ok": False, "exc": "Timeout", "jmc": False, "msg": ""}
    except BaseException as e:  # noqa
        signal.alarm(0)
        fr = None
        for f in reversed(traceback.extract_tb(e.__traceback__)):
            if "/jmc/" in f.filename:
                fr = [os.path.basename(f.filename), f.name, f.lineno]
                break
        res = {"ok": False, "exc": type(e).__name__, "jmc": isinstance(e, jmc_excs), "msg": str(e)[:1500], "frame": fr}
    finally:
        signal.alarm(0)
    res["records"] = [clean(r) for r in RECORDS]
    return res


def main():
    import logging
    logging.disable(logging.CRITICAL)
    from jmc.compile.test_compile import JMCTestPack
    install()
    jmc_excs = jmc_exception_classes()
    signal.signal(signal.SIGALRM, _alarm)
    jobs = json.load(sys.stdin)
    real_stdout = sys.stdout
    sys.stdout = open(os.devnull, "w")
    out = [run_job(j, JMCTestPack, jmc_excs) for j in jobs]
    sys.stdout = real_stdout
    json.dump(out, sys.stdout)


if __name__ == "__main__":
    main()
