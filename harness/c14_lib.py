"""Shared by c14.py and c13.py: real tokenizer traces -> Coq cases for Run/C14.v, position helpers."""
from __future__ import annotations

import re
import unicodedata

from lib import coq_str, coq_z, coq_bool, coq_list, coq_opt

COQ_HEADER = ("From Coq Require Import ZArith NArith String List Bool.\n"
              "From JMCV Require Import Model.Tok Model.TokPos Run.Common Run.C14.\n"
              "Import ListNotations.\nOpen Scope string_scope.\n")

_PRINTABLE = None


def printable_ranges() -> list[tuple[int, int]]:
    """str.isprintable() above U+007F of the interpreter running the harness (= the one running jmc)."""
    global _PRINTABLE
    if _PRINTABLE is None:
        out, start = [], None
        for cp in range(0x80, 0x110000):
            p = chr(cp).isprintable()
            if p and start is None:
                start = cp
            elif not p and start is not None:
                out.append((start, cp - 1))
                start = None
        if start is not None:
            out.append((start, 0x10FFFF))
        _PRINTABLE = out
    return _PRINTABLE


def space_ranges() -> list[tuple[int, int]]:
    """`re.match(r"\\s+", c)` for every code point, as ranges."""
    pat = re.compile(r"\s+")
    out, start = [], None
    for cp in range(0, 0x110000):
        p = bool(pat.match(chr(cp)))
        if p and start is None:
            start = cp
        elif not p and start is not None:
            out.append((start, cp - 1))
            start = None
    return out


NAME_RE = re.compile(r"\\N\{([^}]*)\}")


def uni_table(texts) -> list[tuple[str, int]]:
    names = set()
    for t in texts:
        names.update(NAME_RE.findall(t))
    tab = []
    for n in sorted(names):
        try:
            tab.append((n, ord(unicodedata.lookup(n))))
        except (KeyError, ValueError):
            pass
    return tab


def env_term(texts) -> str:
    uni = coq_list(f"({coq_str(n)}, {cp}%N)" for n, cp in uni_table(texts))
    pr = coq_list(f"({a}%N, {b}%N)" for a, b in printable_ranges())
    return f"Definition E : env := mkEnv {uni} {pr}.\n"


def encodable(s: str) -> bool:
    try:
        s.encode("utf-8")
        return True
    except UnicodeEncodeError:
        return False


def rtok_term(t) -> str:
    ty, line, col, s, quote = t
    return f"R {ty} {coq_z(line)} {coq_z(col)} {coq_str(s)} {coq_bool(quote == '`')}"


def rout_term(out) -> str:
    if out["kind"] == "ok":
        return "ROk " + coq_list(coq_list(rtok_term(t) for t in st) for st in out["programs"])
    if out.get("jmc") and out.get("cited"):
        line, col = out["cited"]
        return (f"RDiag {coq_bool(out['exc'] == 'JMCSyntaxWarning')} {coq_z(line)} "
                f"{coq_opt(coq_z(col) if col is not None else None)}")
    return "RCrash"


def tcase_term(call) -> str:
    return (f"TC {coq_str(call['string'])} {coq_z(call['line'])} {coq_z(call['col'])} {coq_bool(call['es'])} "
            f"{coq_bool(call['alms'])} {coq_bool(call['allow_semi'])} ({rout_term(call['out'])})")


def call_encodable(call) -> bool:
    if not encodable(call["string"]):
        return False
    if call["out"]["kind"] == "ok":
        return all(encodable(t[3]) for st in call["out"]["programs"] for t in st)
    return True


# ---------------------------------------------------------------- positions in a file text

def offset_of(fs: str, line: int, col: int):
    """offset of the character at 1-based (line, col) of fs, None if there is no such character
    (col may be len(line)+1: the newline / end position)."""
    lines = fs.split("\n")
    if line < 1 or line > len(lines) or col < 1 or col > len(lines[line - 1]) + 1:
        return None
    return sum(len(x) + 1 for x in lines[:line - 1]) + col - 1


def pos_of(fs: str, off: int):
    pre = fs[:off]
    return pre.count("\n") + 1, off - (pre.rfind("\n") + 1) + 1


def token_at(fs: str, tok) -> bool:
    """is the token cited at the position of its own source text?"""
    ty, line, col, s, quote = tok
    o = offset_of(fs, line, col)
    if o is None:
        return False
    if ty == "STRING":
        return fs[o:o + 1] in ("'", '"', "`") and fs[o:o + 1] != ""
    return s != "" and fs.startswith(s, o)
