"""fstrace.py — runs the REAL disk build (`compile_jmc`) under file-system tracing and fault injection.

Executed with the repo interpreter (PYTHONPATH=<repo>/src).  stdin: JSON list of jobs, stdout: JSON list of results.

job = {
  "ns": str, "pack_format": str, "desc": str,
  "out_exists": bool,                       # whether the output directory exists before the first build
  "out_dotdot": bool,                       # hand the output directory to JMC as <tmp>/proj/../out (what `cwd / "../out"` of
                                            # terminal/configuration.py gives) instead of the normalised <tmp>/out
  "paths": null | {                         # (round 4) how JMC is GIVEN its paths; default: canonical absolute paths, cwd untouched
     "mkdirs": [rel, ...],                  #   extra folders below the private temporary folder <tmp> (which holds proj/, out/, outside/)
     "links": [[rel, target], ...],         #   symbolic links <tmp>/rel -> target ("{TMP}" = <tmp>; relative targets allowed)
     "cwd": rel,                            #   working directory of the compile, below <tmp> ("proj", ".", "elsewhere/deep")
     "output": str, "target": str,          #   as written in jmc_config.json ("../out", "out/", "{TMP}/lnk/out"; "main.jmc")
     "mode": "config" | "raw" },            #   config: GlobalData.cwd / <string> (terminal/configuration.py load_config);
                                            #   raw: Path(<string>) as an API caller may pass it (relative paths stay relative)
                                            # the output must denote <tmp>/out and the target <tmp>/proj/main.jmc
  "init": [[relpath, null | text], ...],    # initial content of the output directory (null = directory), created in order
  "copy_src": null | [[relpath, null|text], ...],   # content of <project>/cp  (the folder `#copy "cp"` refers to)
  "builds": [ {"src": str, "header": null|str,   # "{OUTSIDE}" in the header = absolute path of a folder NEXT TO the output directory
                                            # (holds keep.txt, pack/...; result["outside_changed"] says whether the build touched it)
               # "{TMP}" in the header = the private temporary folder (absolute `#static` arguments)
               "touch": null|[[relpath, null|text], ...],   # files the user puts into (or overwrites in) the output directory before this build
               "remove": null|[relpath, ...],               # files / folders the user deletes from the output directory before this build
               "pack_format": null|str,                     # pack format of THIS build (default: the job's)
               "crash_at": null|int,        # raise KeyboardInterrupt right after the k-th successful mutation (1-based);
                                            # if that mutation is a file write the file keeps only the first
                                            # len*torn[0]//torn[1] bytes ("torn": [num, den], default [1, 2])
               "oserror_path": null|relpath # the first deletion (unlink/rmdir) of this path raises OSError instead
              }, ... ] }
result = {"builds": [ {"before": [[relpath, null|text], ...]   (scandir pre-order: the order the OS lists entries),
                       "trace": [[op, relpath] | ["write", relpath, text] | ["replace", relpath, text], ...],
                                 (os.replace/os.rename(src, dst) = ["replace", dst, bytes of src], ["unlink", src])
                       "after": [[relpath, null|text], ...],
                       "stage": "header"|"cert"|"lex"|"build"|"fs"|"done", "exc": null|[class, msg],
                       "facts": {... header facts and the compiled outputs captured from the real run ...}} ]}

All work happens under a private tempfile.mkdtemp() that is removed afterwards.
Mutations are observed by wrapping os.mkdir/unlink/rmdir/rename/replace/remove and io.open/builtins.open in THIS process;
`shutil.rmtree` issues dir_fd-relative calls whose paths are recovered through /proc/self/fd.
"""
import builtins
import io
import json
import os
import shutil
import sys
import tempfile
from pathlib import Path

from jmc.terminal import Configuration, GlobalData
from jmc.compile import compiling
from jmc.compile.compiling import compile_jmc
from jmc.compile.datapack import DataPack
from jmc.compile.header import Header

GlobalData().init("x", "jmc_config.json")
START_CWD = os.getcwd()

DEFAULT_NAMES = dict(load_name="__load__", tick_name="__tick__", private_name="__private__",
                     var_name="__variable__", int_name="__int__", storage_name="__storage__")


class Tracer:
    def __init__(self):
        self.root = None          # str, real path of the output directory
        self.on = False
        self.trace = []
        self.n_mut = 0
        self.n_del = 0
        self.crash_at = None
        self.oserror_path = None
        self.torn = (1, 2)
        self.dcache = {}

    def rel(self, path, dir_fd=None):
        p = os.fspath(path)
        if isinstance(p, bytes):
            p = p.decode()
        if dir_fd is not None and not os.path.isabs(p):
            p = os.path.join(os.readlink(f"/proc/self/fd/{dir_fd}"), p)
        p = self.canon(p)
        if p == self.root:
            return "."
        if p.startswith(self.root + "/"):
            return p[len(self.root) + 1:]
        return None               # outside the output directory (sources, copy source)

    def canon(self, p):
        """the location the operating system gives the path: the directory part through os.path.realpath (symbolic links
        and `..` as the kernel reads them), the last component as written (the mutated entry itself)"""
        if not os.path.isabs(p):
            p = os.path.join(os.getcwd(), p)
        d, b = os.path.split(p.rstrip("/") or "/")
        if b in ("", ".", ".."):
            return os.path.realpath(p)
        rd = self.dcache.get(d)
        if rd is None:
            rd = self.dcache[d] = os.path.realpath(d)
        return os.path.join(rd, b)

    def did(self, op, relpath, *more):
        self.trace.append([op, relpath, *more])
        self.n_mut += 1
        if self.crash_at is not None and self.n_mut == self.crash_at:
            return True
        return False


T = Tracer()
_orig = {}


def _wrap_simple(name, op, is_delete=False):
    orig = getattr(os, name)
    _orig[name] = orig

    def w(path, *a, **k):
        if not T.on:
            return orig(path, *a, **k)
        r = T.rel(path, k.get("dir_fd"))
        if r is None:
            return orig(path, *a, **k)
        if is_delete:
            T.n_del += 1
            if T.oserror_path is not None and r == T.oserror_path:
                T.oserror_path = None
                raise OSError(5, "injected I/O error", os.fspath(path))
        res = orig(path, *a, **k)            # failure (e.g. rmdir of a non-empty folder) is not a mutation
        if T.did(op, r):
            raise KeyboardInterrupt(f"injected crash after mutation {T.n_mut}")
        return res
    setattr(os, name, w)


_wrap_simple("mkdir", "mkdir")
_wrap_simple("unlink", "unlink", True)
_wrap_simple("remove", "unlink", True)
_wrap_simple("rmdir", "rmdir", True)


def _wrap_two(name):
    """os.rename / os.replace of a regular file inside the output directory = the two mutations of Model/FS.v rename_ops:
    ["replace", dst, <bytes of src>] (dst atomically becomes a file with these bytes) and ["unlink", src].  The kernel does
    both in one step, so an injected crash that falls on either half is raised after the call returned (both halves done).
    Anything else (a directory, a name outside the output directory) stays UNMODELLED."""
    orig = getattr(os, name)

    def w(src, dst, *a, **k):
        if not T.on:
            return orig(src, dst, *a, **k)
        rs, rd = T.rel(src, k.get("src_dir_fd")), T.rel(dst, k.get("dst_dir_fd"))
        if rs is None and rd is None:
            return orig(src, dst, *a, **k)
        real_src = os.path.join(T.root, rs) if rs not in (None, ".") else None
        if rs is None or rd is None or real_src is None or not os.path.isfile(real_src) or os.path.islink(real_src):
            T.trace.append(["UNMODELLED-" + name, str(rs), str(rd)])
            return orig(src, dst, *a, **k)
        with _orig_open(real_src, "rb") as g:
            data = g.read()
        res = orig(src, dst, *a, **k)
        c1 = T.did("replace", rd, data.decode("utf-8", "surrogateescape"))
        c2 = T.did("unlink", rs)
        if c1 or c2:
            raise KeyboardInterrupt(f"injected crash after {name} (mutations {T.n_mut - 1}, {T.n_mut})")
        return res
    setattr(os, name, w)


_wrap_two("rename")
_wrap_two("replace")

_orig_open = io.open


class WFile:
    """Proxy of a file opened for writing inside the output directory: the open is the mutation `create`
    (create/truncate), the close is the mutation `write` (the bytes then on disk)."""

    def __init__(self, f, rel, real):
        object.__setattr__(self, "_f", f)
        object.__setattr__(self, "_rel", rel)
        object.__setattr__(self, "_real", real)
        object.__setattr__(self, "_done", False)

    def __getattr__(self, n):
        return getattr(self._f, n)

    def __iter__(self):
        return iter(self._f)

    def __enter__(self):
        self._f.__enter__()
        return self

    def _finish(self):
        if self._done:
            return
        object.__setattr__(self, "_done", True)
        with _orig_open(self._real, "rb") as g:
            data = g.read()
        if not T.on:
            return
        if T.did("write", self._rel, data.decode("utf-8", "surrogateescape")):
            cut = len(data) * T.torn[0] // T.torn[1]
            with _orig_open(self._real, "wb") as g:       # torn write: only a prefix reached the disk
                g.write(data[:cut])
            T.trace[-1][2] = data[:cut].decode("utf-8", "surrogateescape")
            raise KeyboardInterrupt(f"injected crash in write {T.n_mut}")

    def close(self):
        self._f.close()
        self._finish()

    def __exit__(self, et, ev, tb):
        r = self._f.__exit__(et, ev, tb)
        if et is None:
            self._finish()
        return r


def _my_open(file, mode="r", *a, **k):
    if not T.on or not isinstance(file, (str, bytes, os.PathLike)) or not any(c in mode for c in "wax+"):
        return _orig_open(file, mode, *a, **k)
    r = T.rel(file)
    if r is None:
        return _orig_open(file, mode, *a, **k)
    f = _orig_open(file, mode, *a, **k)
    real = T.canon(os.fspath(file))
    if T.did("create", r):
        f.close()
        raise KeyboardInterrupt(f"injected crash after create {T.n_mut}")
    return WFile(f, r, real)


io.open = _my_open
builtins.open = _my_open

# ----------------------------------------------------------------------------- stage / facts capture

STATE = {}


def _stage_wrap(name, stage_before):
    orig = getattr(compiling, name)

    def w(*a, **k):
        STATE["stage"] = stage_before
        return orig(*a, **k)
    setattr(compiling, name, w)


_stage_wrap("read_header", "header")
_stage_wrap("read_cert", "cert")
_orig_Lexer = compiling.Lexer


def _lexer(*a, **k):
    STATE["stage"] = "lex"
    h = Header()
    STATE["statics"] = sorted(str(p) for p in h.statics)
    STATE["overrides"] = sorted(h.namespace_overrides)
    STATE["copy"] = str(h.copy) if h.copy is not None else None
    return _orig_Lexer(*a, **k)


compiling.Lexer = _lexer
_stage_wrap("build", "build")
_orig_dp_build = DataPack.build


def _dp_build(self, *a, **k):
    r = _orig_dp_build(self, *a, **k)
    h = Header()
    STATE["stage"] = "fs"
    STATE["functions"] = [[name, compiling.post_process(f.content)] for name, f in self.functions.items()]
    STATE["jsons"] = [[name, (json.dumps(j, indent=4) if j else None)] for name, j in self.jsons.items()]
    STATE["tick"] = bool(DataPack.tick_name in self.functions and self.functions[DataPack.tick_name])
    STATE["load_name"], STATE["tick_name"] = DataPack.load_name, DataPack.tick_name
    STATE["nometa"] = bool(h.nometa)
    STATE["custom_meta"] = bool(self.custom_pack_meta)
    STATE["ff"] = "function" if self.version >= compiling.PackVersionFeature.LEGACY_FOLDER_RENAME else "functions"
    STATE["statics"] = sorted(str(p) for p in h.statics)
    STATE["overrides"] = sorted(h.namespace_overrides)
    STATE["copy"] = str(h.copy) if h.copy is not None else None
    return r


DataPack.build = _dp_build


def snapshot(root: Path):
    """[[relpath, None|text]] in scandir pre-order; [] when the directory does not exist; "." is the directory itself."""
    out = []
    if not root.is_dir():
        return out
    out.append([".", None])

    def walk(d, rel):
        with os.scandir(d) as it:
            entries = list(it)
        for e in entries:
            r = e.name if rel == "" else rel + "/" + e.name
            if e.is_dir(follow_symlinks=False):
                out.append([r, None])
                walk(e.path, r)
            else:
                with _orig_open(e.path, "rb") as g:
                    out.append([r, g.read().decode("utf-8", "surrogateescape")])
    walk(str(root), "")
    return out


def make_tree(base: Path, items):
    for rel, content in items:
        p = base / rel
        if content is None:
            p.mkdir(parents=True, exist_ok=True)
        else:
            p.parent.mkdir(parents=True, exist_ok=True)
            with _orig_open(p, "wb") as g:
                g.write(content.encode("utf-8", "surrogateescape"))


def run_job(job):
    tmp = Path(os.path.realpath(tempfile.mkdtemp(prefix="jmcv_fs_")))
    res = {"builds": []}
    try:
        proj = tmp / "proj"
        proj.mkdir()
        out = tmp / "out"
        if job.get("out_exists", True) or job.get("init"):
            out.mkdir()
        make_tree(out, job.get("init") or [])
        if job.get("copy_src") is not None:
            (proj / "cp").mkdir()
            make_tree(proj / "cp", job["copy_src"])
        outside = tmp / "outside"          # a folder next to the output directory: nothing JMC does may reach it
        make_tree(outside, [["keep.txt", "not yours"], ["pack/data/x/function/a.mcfunction", "say a"]])
        paths = job.get("paths") or {}
        for rel in paths.get("mkdirs") or []:
            (tmp / rel).mkdir(parents=True, exist_ok=True)
        for rel, target in paths.get("links") or []:
            (tmp / rel).parent.mkdir(parents=True, exist_ok=True)
            os.symlink(target.replace("{TMP}", str(tmp)), tmp / rel)
        link_table = [[str(tmp / rel), os.path.realpath(tmp / rel)] for rel, _ in paths.get("links") or []]
        cwd = (tmp / paths["cwd"]) if paths.get("cwd") is not None else None
        if cwd is not None:
            cwd.mkdir(parents=True, exist_ok=True)
            os.chdir(cwd)
            GlobalData().cwd = Path(os.getcwd())

        def given(text, default):
            """the Path handed to JMC for `text` as the user wrote it"""
            if text is None:
                return default
            text = text.replace("{TMP}", str(tmp))
            if paths.get("mode", "config") == "config":
                return Path(os.getcwd()) / text          # terminal/configuration.py load_config: global_data.cwd / json[...]
            return Path(text)
        for b in job["builds"]:
            proj.mkdir(exist_ok=True)          # (a build that escapes the output directory may have deleted it)
            (proj / "main.jmc").write_text(b["src"])
            hj = proj / "main.hjmc"
            header_text = None
            if b.get("header") is not None:
                header_text = b["header"].replace("{OUTSIDE}", str(outside)).replace("{TMP}", str(tmp))
                hj.write_text(header_text)
            elif hj.exists():
                hj.unlink()
            for rel in b.get("remove") or []:
                victim = out / rel
                if victim.is_dir():
                    shutil.rmtree(victim)
                elif victim.exists():
                    victim.unlink()
            if b.get("touch"):
                make_tree(out, b["touch"])
            for k, v in DEFAULT_NAMES.items():       # C12's subject: names must not leak between compiles of this process
                setattr(DataPack, k, v)
            out_given = given(paths.get("output"), (proj / ".." / "out") if job.get("out_dotdot") else out)
            target_given = given(paths.get("target"), proj / "main.jmc")
            if os.path.realpath(out_given) != str(out) or not os.path.samefile(target_given, proj / "main.jmc"):
                raise RuntimeError(f"job paths do not denote <tmp>/out and <tmp>/proj/main.jmc: {out_given} {target_given}")
            cfg = Configuration(GlobalData(), namespace=job.get("ns", "ns"), description=job.get("desc", "d"),
                                pack_format=b.get("pack_format") or job.get("pack_format", "48"), target=target_given,
                                output=out_given)
            Header().envs = []
            before = snapshot(out)
            outside_before = snapshot(outside)
            copy_list = None
            STATE.clear()
            STATE["stage"] = "start"
            T.root, T.trace, T.n_mut, T.n_del = str(out), [], 0, 0
            T.crash_at, T.oserror_path = b.get("crash_at"), b.get("oserror_path")
            T.torn = tuple(b.get("torn") or (1, 2))
            T.dcache = {}
            exc = None
            T.on = True
            try:
                compile_jmc(cfg)
                STATE["stage"] = "done"
            except BaseException as e:  # noqa
                exc = [type(e).__name__, str(e)[:300]]
            finally:
                T.on = False
            after = snapshot(out)
            outside_after = snapshot(outside)
            facts = {k: v for k, v in STATE.items() if k != "stage"}
            if facts.get("copy"):
                facts["copy_tree"] = snapshot(Path(facts["copy"]))
            facts["root"] = str(out)
            # (round 4) the spellings AS GIVEN, for Model/BuildPath.v: the output directory as the operating system reads it
            # (working directory first when relative), the symbolic links, the header text
            facts["out_given"] = os.path.join(os.getcwd(), str(out_given))
            facts["links"] = link_table
            facts["header_text"] = header_text
            facts["pack_format"] = b.get("pack_format") or job.get("pack_format", "48")
            res["builds"].append({"before": before, "trace": T.trace, "after": after, "stage": STATE["stage"],
                                  "exc": exc, "facts": facts, "n_mut": T.n_mut, "n_del": T.n_del,
                                  "outside_changed": outside_before != outside_after,
                                  "outside": [outside_before, outside_after] if outside_before != outside_after else None})
            if outside_before != outside_after:      # restore, so that later builds of the job are judged on their own
                shutil.rmtree(outside, ignore_errors=True)
                make_tree(outside, [["keep.txt", "not yours"], ["pack/data/x/function/a.mcfunction", "say a"]])
    finally:
        T.on = False
        os.chdir(START_CWD)
        shutil.rmtree(tmp, ignore_errors=True)
    return res


def main():
    jobs = json.load(sys.stdin)
    real_stdout = sys.stdout
    sys.stdout = sys.stderr            # jmc logs / prints must not pollute the JSON channel
    results = []
    for job in jobs:
        try:
            results.append(run_job(job))
        except BaseException as e:  # noqa
            import traceback
            results.append({"runner_error": traceback.format_exc()[-2000:]})
    sys.stdout = real_stdout
    json.dump(results, sys.stdout)


if __name__ == "__main__":
    main()
