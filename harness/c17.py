"""C17 — splitting a program across imported files does not change it.

Proof step (Props/C17.v) + tie:
  * metamorphic check on the real compiler: project on disk (PyJMC, chosen cwd and spelling of the main
    path) vs the flattened single file (flattening done by an independent implementation of the
    specification in this file): file maps must be identical / both must fail the same way;
  * correspondence: Model/Import.v (mode Repaired) must predict, for every project, the order in which the
    real compiler processed the items (private-function numbering, __load__ line order), the .jmc files it
    opened (each at most once) and the diagnostic;
  * the Coq `flatten` must agree with the harness' flattening.
Strengthening round 2: EDIT SEQUENCES - successive states of one project folder (files added / removed / renamed / moved between
folders / rewritten, import lines changed, a wildcard's folder appearing and disappearing), every state compiled in turn in ONE
process on the same paths (c17_run.py {"seq": ...}; untouched files keep inode and mtime).  Every state is a case like any other:
in-process result == flattened single file of the project AS IT IS NOW, == model prediction, and (control) == the result of a fresh
process when the OS lists the folders in the same order.  A failing state is replayed with the shortest history that reproduces it.
Strengthening round 3: FILE-SENSITIVE load statements before / between / after imports (gen_filesens): a load statement is compiled
later, in a batch, with the shared `load_tokenizer`; what it compiles to may depend on the file that tokenizer stands on -
  (a) its line number and the text of that line (`$q += n;` under Debug.watch($q) prints `file:line | source line`; late lines, 1-line
      neighbours), (b) the folder of its file (JMC.pythonFile("gen.py"), a gen.py of its own in every folder), (c) the file and line
      of its diagnostic (failing statements: immediate and deferred-to-build diagnostics).
The flattened file is compared MODULO THE FILE MAPPING: a statement keeps its meaning (pythonFile paths are rebased when pasted), file
names / lines printed in the output or in the diagnostic must be those of the statement's own file and line on either side.  The
model (EvBatch tok l) must predict the file every watched statement was compiled as text of, and the file of the diagnostic.
Strengthening round 4: the NAME and SPELLING space of import statements (gen_names + wider random spellings).  The model now starts from
the import STRING (Model/ImportPath.v: wildcard iff it ends in "/*" or "\\*", text cut at "/" only, `.jmc` completion on the resolved
name) and from the directory tree found on disk (`nodes`: files and folders; the listings handed to the model must describe it).
Projects: a module file next to a folder of the same stem (lib.jmc + lib/), a folder without its file, stems with dots, x.jmc.jmc, a file
called `.jmc`, upper/lower case twins, names with a backslash or a `*`, a folder called d.jmc below a wildcard; spellings ./x, a/../x
(through existing and non-existing names), trailing and doubled slashes, `x.jmc/.`, absolute, backslash in plain and wildcard imports,
wildcards of depth 0/1/2 and upwards (`*`, `./*`, `/*`, `\\*`, `lib/*`, `lib/sub/*`, `../*`) written in main and in files of sub-folders;
bystander files (.jmc and look-alikes such as x.jmcx, x.jmc.bak) at every level.  New direct check: the .jmc files the compiler READS,
in order, are exactly the files the specification pastes (set and order), besides the model's prediction of the same.
"""
from __future__ import annotations

import itertools
import json
import os
import posixpath
import re
from concurrent.futures import ThreadPoolExecutor

from lib import (Check, COMMON_TRUSTED, NCPU, VERIF, coq_bool, coq_list, coq_nat, coq_str, eval_cases, known_for,
                 run_py)

PROP = "C17"
RUNNER = VERIF / "harness" / "c17_run.py"
P = "w/proj"                      # project directory below the temp root
ROOTC = "R"                       # the temp root is called /R in the model

HEADER = ("From Coq Require Import String List Bool Arith.\n"
          "From JMCV Require Import Model.Import Model.ImportPath Run.Common Run.C17.\n"
          "Import ListNotations.\nOpen Scope string_scope.\n")

# ------------------------------------------------------------------ items

LOAD_KINDS = ["if", "say", "var", "expand", "while", "ifelse"]
DEF_KINDS = ["func", "class", "plain", "new", "nested"]
ALLOC_KINDS = {"if", "func", "class"}


# strengthening round 3: load statements whose compilation depends on the FILE the load tokenizer stands on
WATCHED_KINDS = {"wvar", "wvarp"}                        # `$q += n;` under Debug.watch($q): prints file:line and the source line
BAD_KINDS = ["badvar", "badvarp", "badarg", "badcall"]    # do not compile; badcall is diagnosed when the pack is built (deferred)
HIDDEN_KINDS = {"watch", "pyf"} | set(BAD_KINDS)         # no id of their own in __load__
FS_LOAD_KINDS = ["wvar", "wvarp", "pyf"]
PAD = "\n" * 5                                           # the statement sits on a late line of its file


def item_text(kind: str, n: int, rel: str = "") -> str:
    """text of item n; rel = folder of the file the item was WRITTEN in, relative to the folder of the file the text is put in
    ("" = the same: the project itself; the flattened file rebases relative paths)"""
    if kind == "watch":
        return "Debug.watch($q);"
    if kind == "wvar":
        return f"$q += {n};"
    if kind == "wvarp":
        return PAD + f"$q += {n};"
    if kind == "wfunc":
        return f"function d{n}() {{ $q += {n}; }}"
    if kind == "pyf":
        pre = "" if rel in ("", ".") else rel + "/"
        return f'JMC.pythonFile("{pre}{["gen.py", "gen", "./gen.py"][n % 3] if not pre else ["gen.py", "gen"][n % 2]}");'
    if kind == "badvar":
        return f"$b{n} = ;"
    if kind == "badvarp":
        return PAD + f"$b{n} = ;"
    if kind == "badarg":
        return f"Timer.add(t{n});"
    if kind == "badcall":
        return f"Player.nothing{n}();"
    if kind == "if":
        return f'if ($x == {n}) {{ say "L{n}"; say "l{n}"; }}'
    if kind == "ifelse":      # allocates in if_else too, but several numbers: not used for the order observation
        return f'if ($y{n} == 1) {{ say "L{n}"; }} else if ($y{n} == 2) {{ say "m{n}"; say "o{n}"; }} else {{ say "n{n}"; }}'
    if kind == "say":
        return f'say "L{n}";'
    if kind == "var":
        return f"$v{n} = {n};"
    if kind == "expand":
        return f'execute as @a expand {{ execute at @s run say "L{n}"; say "l{n}"; }}'
    if kind == "while":
        return f'while ($w{n} < 3) {{ $w{n} += 1; say "L{n}"; }}'
    if kind == "func":
        return f'function d{n}() {{ if ($x == {n}) {{ say "D{n}"; say "d{n}"; }} }}'
    if kind == "class":
        return f'class k{n} {{ function m() {{ if ($x == {n}) {{ say "D{n}"; say "d{n}"; }} }} }}'
    if kind == "plain":
        return f'function d{n}() {{ say "D{n}"; }}'
    if kind == "nested":
        return f'function d{n}() {{ while ($z{n} < 2) {{ $z{n} ++; say "D{n}"; }} }}'
    if kind == "new":
        return f'new advancements(a{n}) {{ "criteria": {{ "t": {{ "trigger": "minecraft:tick" }} }} }}'
    raise ValueError(kind)


# ------------------------------------------------------------------ paths (harness-side specification, plain Python)

def canon(base: tuple, comps: list[str]) -> tuple:
    acc = list(base)
    for c in comps:
        if c in ("", "."):
            continue
        if c == "..":
            if acc:
                acc.pop()
        else:
            acc.append(c)
    return tuple(acc)


def py_suffix(name: str) -> str:
    i = name.rfind(".")
    return name[i:] if 0 < i < len(name) - 1 else ""


def model_str(s: str) -> str:
    return s.replace("{ROOT}", "/" + ROOTC)


def spec_target(fid: tuple, s: str) -> tuple:
    s = model_str(s)
    base = () if s.startswith("/") else fid[:-1]
    p1 = canon(base, s.split("/"))
    if py_suffix(p1[-1] if p1 else "") == ".jmc":
        return p1
    return canon(base, (s + ".jmc").split("/"))


def spec_dir(fid: tuple, s: str) -> tuple:
    d = model_str(s[:-2])
    base = () if d.startswith("/") else fid[:-1]
    return canon(base, d.split("/"))


def spec_walk_ok(fid: tuple, s: str, listing: dict) -> bool:
    """round 4: `folder.is_dir()` of a wildcard import is answered by the operating system on the UNRESOLVED path
    `<folder of the importer>/<text>`: every name on the way must be an existing folder (listing: folder -> files | None)"""
    d = model_str(s[:-2])
    cur = [] if d.startswith("/") else list(fid[:-1])
    for c in d.split("/"):
        if c in ("", "."):
            continue
        if c == "..":
            cur = cur[:-1]
            continue
        cur.append(c)
        if listing.get(tuple(cur)) is None:
            return False
    return True


class SpecError(Exception):
    def __init__(self, kind, path):
        self.kind, self.path = kind, path


def spec_flatten(files: dict, listing: dict, main_id: tuple, order: list | None = None) -> list:
    """The single file: each imported file pasted in place of its first import (files keyed by identity).
    order (round 4): receives the files in the order they are pasted = the order they have to be READ in."""
    seen, out = set(), []
    order = [] if order is None else order

    def rec(fid):
        if fid in seen:
            return
        seen.add(fid)
        order.append(fid)
        if fid not in files:
            raise SpecError("notfound", fid)
        for it in files[fid]:
            if it[0] in ("load", "def"):
                out.append(tuple(it[:3]) + (fid,))          # + the file it was written in
            elif not is_wild(it[1]):
                rec(spec_target(fid, it[1]))
            else:
                d = spec_dir(fid, it[1])
                if not spec_walk_ok(fid, it[1], listing) or listing.get(d) is None:
                    raise SpecError("dirnotfound", d)
                for f in listing[d]:
                    rec(f)
    rec(main_id)
    return out


# ------------------------------------------------------------------ projects

def tup(relpath: str) -> tuple:
    return (ROOTC,) + tuple(relpath.split("/")) if relpath else (ROOTC,)


def is_wild(s: str) -> bool:
    """lexer.py: `string.endswith("/*") or string.endswith("\\*")` (the harness' own reading of the import string)"""
    return s.endswith("/*") or s.endswith("\\*")


def retag(it):
    """an import statement is ("import" | "wild", string[, "raw"]): the tag is what the STRING says, whatever the generator meant"""
    if it[0] in ("import", "wild"):
        return ("wild" if is_wild(it[1]) else "import",) + tuple(it[1:])
    return tuple(it)


def import_source(it) -> str:
    """the statement as written in the file: a backslash of the string is written `\\\\`; ("..", "raw"): a final `\\*` written with ONE
    backslash (an unknown escape sequence: the tokenizer keeps it as it is)"""
    s = it[1]
    if len(it) > 2 and it[2] == "raw" and s.endswith("\\*") and "\\" not in s[:-2]:
        return f'import "{s}";'
    return 'import "' + s.replace("\\", "\\\\") + '";'


class Project:
    def __init__(self, files: dict[str, list], dirs: list[str], cwd: str, target: str, tag: str, extra: dict | None = None):
        # {"w/proj/a.jmc": [items]}   item = ("load"|"def", n, kind) | ("import"|"wild", string[, "raw"])
        self.files = {f: [retag(i) for i in its] for f, its in files.items()}
        self.dirs = dirs
        self.cwd, self.target, self.tag = cwd, target, tag
        self.extra = dict(extra or {})      # round 4: files that are no .jmc source (look-alikes: x.jmcx, x.jmc.bak, notes.txt): {path: text}

    def file_text(self, items) -> str:
        lines = []
        for it in items:
            if it[0] in ("load", "def"):
                lines.append(item_text(it[2], it[1]))
            else:
                lines.append(import_source(it))
        return "\n".join(lines) + "\n"

    def kinds(self) -> set:
        return {it[2] for its in self.files.values() for it in its if it[0] in ("load", "def")}

    def aux_files(self) -> dict:
        """round 3: a gen.py of its own in EVERY folder (same name, different output) when the project uses JMC.pythonFile"""
        if "pyf" not in self.kinds():
            return {}
        return {f"{d}/gen.py": f'emit(\'say "PY {d}"\')\n' for d in self.all_dirs() + ["w"]}

    def layout(self) -> dict:
        """item id -> (file, line of its statement)"""
        out = {}
        for f, its in self.files.items():
            line = 1
            for it in its:
                if it[0] in ("load", "def"):
                    t = item_text(it[2], it[1])
                    out[it[1]] = (tup(f), line + len(t) - len(t.lstrip("\n")))
                    line += t.count("\n")
                line += 1
        return out

    def ids_of(self, kinds) -> list:
        return sorted(it[1] for its in self.files.values() for it in its if it[0] in ("load", "def") and it[2] in kinds)

    def all_dirs(self) -> list[str]:
        ds = set(self.dirs)
        for f in list(self.files) + list(self.extra):
            d = posixpath.dirname(f)
            while d:
                ds.add(d)
                d = posixpath.dirname(d)
        return sorted(ds)

    def job(self) -> dict:
        return dict(files=dict({f: self.file_text(its) for f, its in self.files.items()}, **self.aux_files(), **self.extra), dirs=self.dirs,
                    cwd=self.cwd, target=self.target, globs=self.all_dirs())

    def main_id(self) -> tuple:
        t = model_str(self.target)
        base = () if t.startswith("/") else tup(self.cwd)
        return canon(base, t.split("/"))

    def to_json(self):
        return dict(files=self.files, dirs=self.dirs, cwd=self.cwd, target=self.target, tag=self.tag, **({"extra": self.extra} if self.extra else {}))

    @staticmethod
    def from_json(o):
        return Project({k: [tuple(i) for i in v] for k, v in o["files"].items()}, o["dirs"], o["cwd"], o["target"], o.get("tag", ""), o.get("extra"))


def flat_rel(it) -> str:
    """folder of the file item `it` of a flattened list was written in, relative to the folder of the flattened file"""
    return posixpath.relpath("/".join(it[3][1:-1]), P) if len(it) > 3 and it[3][:1] == (ROOTC,) else ""


def flat_texts(flat_items) -> list[str]:
    return [item_text(it[2], it[1], flat_rel(it)) for it in flat_items]


def flat_job(flat_items, aux=None) -> dict:
    text = "\n".join(flat_texts(flat_items)) + "\n"
    return dict(files=dict({f"{P}/main.jmc": text}, **(aux or {})), dirs=[], cwd=P, target="{ROOT}/" + P + "/main.jmc", globs=[])


def flat_layout(flat_items) -> dict:
    out, line = {}, 1
    for it in flat_items:
        t = item_text(it[2], it[1], flat_rel(it))
        out[it[1]] = (tup(f"{P}/main.jmc"), line + len(t) - len(t.lstrip("\n")))
        line += t.count("\n") + 1
    return out


MAIN_SPELLINGS = [            # (cwd, target)
    (P, "main.jmc"),
    (P, "{ROOT}/" + P + "/main.jmc"),
    ("w", "proj/main.jmc"),
    ("w/other", "../proj/main.jmc"),
    (P, "./main.jmc"),
    (P, "sub/../main.jmc"),
    (P, "{ROOT}/w/other/../proj/main.jmc"),
    (P + "/sub", "../main.jmc"),
    ("w/other", "{ROOT}/" + P + "/main.jmc"),
]


def named_spellings(src: str, dst: str) -> list[str]:
    """round 4: many ways of writing, in file `src`, a named import of file `dst` - kept only if the harness' own reading of the
    string (spec_target) is `dst`"""
    rel = posixpath.relpath(dst, posixpath.dirname(src))
    bases = [rel] + ([rel[:-4]] if rel.endswith(".jmc") else [])
    first = rel.split("/")[0]
    out = []
    for b in bases:
        out += [b, "./" + b, ".//" + b, "zz/../" + b, "zz/./yy/../../" + b, b + "/", b + "/.", b + "//", b.replace("/", "//"), b.replace("/", "/./")]
        if "/" in b and first not in ("..", "."):
            out.append(first + "/../" + b)
        dd = posixpath.dirname(src)
        if posixpath.basename(dd):
            out.append("../" + posixpath.basename(dd) + "/" + b)
        for a in (dst, dst[:-4] if b != rel else dst):
            out += ["{ROOT}/" + a, "{ROOT}/./" + a, "{ROOT}/w/../" + a]
    return sorted({v for v in out if spec_target(tup(src), v) == tup(dst)})


def wild_spellings(src: str, d: str) -> list[str]:
    """round 4: many ways of writing, in file `src`, a wildcard import of folder `d` (both endings)"""
    rel = posixpath.relpath(d, posixpath.dirname(src))
    out = []
    for b in ([rel] if rel != "." else [".", "", "./."]):
        for e in ("/*", "\\*"):
            out += [b + e, "./" + b + e, b + "/" + e, b + "/." + e, b.replace("/", "//") + e]
            if b not in (".", "", "./.", "zz/..") and not b.startswith(".."):
                out.append(b + "/../" + posixpath.basename(b) + e)             # a detour through an EXISTING folder (the OS walks the path)
    for e in ("/*", "\\*"):
        out += ["{ROOT}/" + d + e, "{ROOT}/w/../" + d + e, "{ROOT}/" + d + "/." + e]
    return sorted({v for v in out if is_wild(v) and spec_dir(tup(src), v) == tup(d)})


def import_spelling(rng, src: str, dst: str, style: int | None = None) -> str:
    """An import string in file `src` denoting file `dst` (both relative to the root)."""
    if style is None and rng.random() < .25:
        c = named_spellings(src, dst)
        if c:
            return rng.choice(c)
    rel = posixpath.relpath(dst, posixpath.dirname(src))
    style = rng.randrange(8) if style is None else style
    stem = rel[:-4]
    no_suffix_ok = py_suffix(posixpath.basename(stem)) != ".jmc"
    if style == 0 or (style == 1 and not no_suffix_ok):
        return rel
    if style == 1:
        return stem
    if style == 2:
        return "./" + (stem if no_suffix_ok and rng.random() < .5 else rel)
    if style == 3:
        return "{ROOT}/" + (dst[:-4] if no_suffix_ok and rng.random() < .5 else dst)
    if style == 4:      # redundant detour through an existing directory
        return "sub/../" + rel if posixpath.dirname(src) == P else "../" + posixpath.basename(posixpath.dirname(src)) + "/" + rel
    if style == 5:
        return rel + "/"
    if style == 6:
        return stem.replace("/", "//") if no_suffix_ok else rel
    return stem if no_suffix_ok else rel


def wild_spelling(rng, src: str, d: str) -> str:
    if rng.random() < .3:
        c = wild_spellings(src, d)
        if c:
            return rng.choice(c)
    rel = posixpath.relpath(d, posixpath.dirname(src))
    r = rng.randrange(4)
    if r == 0 and rel != ".":
        return rel + "/*"
    if r == 1:
        return "./" + rel + "/*"
    if r == 2:
        return "{ROOT}/" + d + "/*"
    return rel + "/*"


FILE_POOL = ["a.jmc", "b.jmc", "sub/c.jmc", "sub/d.jmc", "sub/deep/e.jmc", "lib/f.jmc", "a.b.jmc", "lib/g.x.jmc",
             "sub/a.jmc", "lib/a.jmc", "sub/main.jmc", "sub/deep/c.jmc"]      # same names in different directories


def gen_exhaustive(rng, tier):
    """All import graphs over {main, a, b} (every subset of the 6 edges, with/without a self import of main)
    x spellings of the main path."""
    out = []
    names = {"m": f"{P}/main.jmc", "a": f"{P}/a.jmc", "b": f"{P}/sub/b.jmc"}
    edges = [("m", "a"), ("m", "b"), ("a", "m"), ("a", "b"), ("b", "m"), ("b", "a")]
    spell = MAIN_SPELLINGS[:4] if tier == "quick" else MAIN_SPELLINGS
    gi = 0
    for mask in range(64):
        for self_imp in (False, True):
            if tier == "quick" and self_imp and mask % 4 != 1:
                continue
            gi += 1
            files = {}
            n = 1000
            for key, path in names.items():
                items = [("load", n, "if"), ("def", n + 1, "func"), ("load", n + 2, "say")]
                n += 3
                imps = [("import", import_spelling(rng, path, names[d], style=(gi + k) % 3))
                        for k, (s, d) in enumerate(edges) if s == key and mask >> k & 1]
                if key == "m" and self_imp:
                    imps.append(("import", "main"))
                # place imports: first before everything, second in the middle, others at the end
                pos = [0, 2, 4, 5]
                for j, im in enumerate(imps):
                    items.insert(min(pos[j] if j < len(pos) else len(items), len(items)), im)
                files[path] = items
            cwd, target = spell[gi % len(spell)]
            out.append(Project(files, ["w/other", f"{P}/sub"], cwd, target, f"exh{mask}{'s' if self_imp else ''}"))
            if mask in (4, 5, 16, 17, 20, 21, 37, 63):       # cycles through main: every spelling
                for cwd2, target2 in spell:
                    if (cwd2, target2) != (cwd, target):
                        out.append(Project(files, ["w/other", f"{P}/sub"], cwd2, target2, f"exh{mask}x"))
    return out


def gen_random(rng, count):
    out = []
    for ci in range(count):
        nfiles = rng.randint(1, 5)
        others = rng.sample(FILE_POOL, nfiles)
        paths = [f"{P}/main.jmc"] + [f"{P}/{o}" for o in others]
        if rng.random() < .2:
            paths.append("w/other/o.jmc")
        nitems = rng.randint(4, 14)
        files = {p: [] for p in paths}
        n = 1000
        for _ in range(nitems):
            if rng.random() < .55:
                it = ("load", n, rng.choice(LOAD_KINDS))
            else:
                it = ("def", n, rng.choice(DEF_KINDS))
            n += 1
            files[rng.choice(paths)].append(it)
        dirs = ["w/other", f"{P}/sub"]
        all_dirs = sorted({posixpath.dirname(p) for p in paths} | set(dirs))
        # import edges
        dense = rng.choice([.25, .5, .8])
        for src in paths:
            for dst in paths:
                if src == dst and rng.random() > .15:
                    continue
                if rng.random() < dense / max(1, len(paths) - 1) * 2:
                    reps = 2 if rng.random() < .2 else 1
                    for _ in range(reps):
                        its = files[src]
                        its.insert(rng.randint(0, len(its)), ("import", import_spelling(rng, src, dst)))
            if rng.random() < .25:
                d = rng.choice(all_dirs)
                its = files[src]
                its.insert(rng.randint(0, len(its)), ("wild", wild_spelling(rng, src, d)))
        # make sure main imports something most of the time
        if len(paths) > 1 and not any(i[0] in ("import", "wild") for i in files[paths[0]]):
            its = files[paths[0]]
            its.insert(rng.randint(0, len(its)), ("import", import_spelling(rng, paths[0], paths[1])))
        # a cycle back to main fairly often
        if len(paths) > 1 and rng.random() < .5:
            src = rng.choice(paths[1:])
            its = files[src]
            its.insert(rng.randint(0, len(its)), ("import", import_spelling(rng, src, paths[0])))
        cwd, target = rng.choice(MAIN_SPELLINGS)
        out.append(Project(files, dirs, cwd, target, f"rnd{ci}"))
    return out


def gen_adversarial(rng):
    out = []
    m = f"{P}/main.jmc"

    def proj(files, cwd=P, target="main.jmc", tag="adv", dirs=None):
        out.append(Project(files, ["w/other", f"{P}/sub"] + (dirs or []), cwd, target, tag))
    L = lambda n, k="if": ("load", n, k)   # noqa
    D = lambda n, k="func": ("def", n, k)  # noqa
    # missing file / missing directory
    proj({m: [L(1000), ("import", "nope"), D(1001)]}, tag="missing-file")
    proj({m: [L(1000), ("wild", "nodir/*"), D(1001)]}, tag="missing-dir")
    # a wildcard that covers already-imported files and the main file itself
    for cwd, target in MAIN_SPELLINGS[:4]:
        proj({m: [L(1000), ("import", "sub/c"), D(1001), ("wild", "./*"), L(1002, "say")],
              f"{P}/sub/c.jmc": [D(1003), L(1004)], f"{P}/sub/d.jmc": [L(1005), D(1006, "class")],
              f"{P}/a.jmc": [D(1007), ("import", "main.jmc"), L(1008, "var")]}, cwd, target, tag="wild-covers-main")
    # wildcard written in a file of a sub-directory (relative to that file, not to the cwd)
    for cwd, target in MAIN_SPELLINGS[:4]:
        proj({m: [("import", "sub/c"), L(1000)],
              f"{P}/sub/c.jmc": [D(1001), ("wild", "deep/*"), L(1002)],
              f"{P}/sub/deep/e.jmc": [L(1003), D(1004)], f"{P}/sub/deep/x/y.jmc": [D(1005, "class")]},
             cwd, target, tag="wild-in-subdir")
        proj({m: [("import", "lib/f"), L(1000)],
              f"{P}/lib/f.jmc": [D(1001), ("wild", "../sub/*"), L(1002)],
              f"{P}/sub/c.jmc": [L(1003), D(1004)]}, cwd, target, tag="wild-dotdot")
    # strengthening round 2: the SAME import string in two files of different folders names different folders / files
    for cwd, target in MAIN_SPELLINGS[:3]:
        proj({m: [L(1000), ("wild", "x/*"), ("import", "lib/f"), D(1001), ("import", "a")],
              f"{P}/lib/f.jmc": [D(1002), ("wild", "x/*"), ("import", "a"), L(1003)],
              f"{P}/x/p.jmc": [L(1004), D(1005)], f"{P}/lib/x/q.jmc": [D(1006, "class"), L(1007, "say")], f"{P}/lib/x/deep/r.jmc": [L(1008)],
              f"{P}/a.jmc": [D(1009)], f"{P}/lib/a.jmc": [L(1010), D(1011, "plain")]}, cwd, target, tag="same-string-two-folders")
        proj({m: [("import", "lib/f"), L(1000), ("wild", "./x/*"), ("wild", "x/*")],
              f"{P}/lib/f.jmc": [("wild", "./x/*"), D(1002), ("wild", "../x/*")],
              f"{P}/x/p.jmc": [L(1004), D(1005)], f"{P}/lib/x/q.jmc": [D(1006, "class"), L(1007, "say")]}, cwd, target, tag="same-string-two-folders")
    # strengthening round 3: RE-ENTRANT wildcards - a file below the folder of a wildcard import names that folder again (directly, through
    # a sub-folder, through another folder): the files not yet read are pasted THERE, inside that file, whatever the listing order
    # (a "this folder is being imported already" shortcut moves them behind the rest of the file)
    for cwd, target in MAIN_SPELLINGS[:3]:
        proj({m: [L(1000), ("wild", "lib/*"), D(1001)],
              f"{P}/lib/a.jmc": [L(1002), ("wild", "./*"), L(1003, "say")], f"{P}/lib/b.jmc": [L(1004), ("wild", "../lib/*"), D(1005)],
              f"{P}/lib/c.jmc": [D(1006), ("wild", "{ROOT}/" + P + "/lib/*"), L(1007)]}, cwd, target, tag="reentrant-wildcard")
        proj({m: [("wild", "lib/*"), L(1000)],
              f"{P}/lib/a.jmc": [L(1001), ("wild", "inner/../*"), L(1002)], f"{P}/lib/inner/x.jmc": [L(1003), ("wild", "../*"), L(1004, "say")],
              f"{P}/lib/inner/y.jmc": [D(1005), ("wild", "./*"), L(1006)]}, cwd, target, tag="reentrant-wildcard")
        proj({m: [L(1000), ("wild", "x/*"), ("wild", "lib/*"), L(1001, "say")],
              f"{P}/x/p.jmc": [L(1002), ("wild", "../lib/*"), L(1003)], f"{P}/x/q.jmc": [L(1004), ("wild", "../lib/*"), L(1005)],
              f"{P}/lib/f.jmc": [L(1006), ("wild", "../x/*"), L(1007)], f"{P}/lib/g.jmc": [D(1008), ("wild", "../x/*"), L(1009)]},
             cwd, target, tag="reentrant-wildcard")
    # suffix completion
    proj({m: [("import", "a.b"), L(1000), ("import", "a.b.jmc"), ("import", "x.jmc")],
          f"{P}/a.b.jmc": [D(1001), L(1002)], f"{P}/x.jmc.jmc": [D(1003)], f"{P}/x.jmc": [D(1004), ("import", "x.jmc.jmc")]},
         tag="suffix")
    # load items around imports of already-imported files (batch boundaries), expand last in its batch
    for cwd, target in MAIN_SPELLINGS[:2]:
        proj({m: [("import", "a"), L(1000, "expand"), ("import", "a"), L(1001, "say"), L(1002, "expand"), ("import", "b"),
                  L(1003, "expand")],
              f"{P}/a.jmc": [L(1004, "expand")], f"{P}/b.jmc": [L(1005, "say"), ("import", "main"), L(1006, "expand")]},
             cwd, target, tag="batches")
    # cycle through main with only load commands in main (no duplicate diagnostic: lines would repeat)
    for cwd, target in MAIN_SPELLINGS:
        proj({m: [L(1000, "say"), ("import", "a"), L(1001, "var")], f"{P}/a.jmc": [L(1002, "say"), ("import", "main"), D(1003)]},
             cwd, target, tag="cycle-loads-only")
        proj({m: [("import", "a"), D(1000), L(1001)], f"{P}/a.jmc": [("import", "sub/../main.jmc"), D(1002)]},
             cwd, target, tag="cycle-def-after-import")
    return out


# ------------------------------------------------------------------ the NAME and SPELLING space (strengthening round 4)

NAMED_STRINGS = [     # written in main.jmc (folder P)
    "lib", "lib.jmc", "./lib", "lib/", "lib/.", "lib.jmc/", "lib.jmc/.", "./lib.jmc", "zz/../lib", "sub/../lib", "lib/../lib", ".//lib",
    "{ROOT}/w/proj/lib", "{ROOT}/w/proj/./lib.jmc", "{ROOT}/w/other/../proj/lib", "a", "A", "a.b", "a.b.jmc", "x", "x.jmc", "x.jmc.jmc", "", "./",
    ".jmc", "*", "./*.jmc", "sub\\c", "sub/c", "sub//c", "sub/c.jmc/", "only", "only/o", "Lib/x", "lib/X", "lib/x", "lib/sub/y", "lib/d",
    "lib/d.jmc/z", "lib\\sub/w", "nope", "lib/nope", "a.jmc.jmc", "a.JMC", "lib/sub", "sub", "by/../lib", "lib\\x", "../proj/lib", "..", ".",
    "a.jmc/y", "lib.jmc/x", "sub/c.jmc/z", "a.jmc/../lib", "lib.jmc/../a"]
WILD_STRINGS = [
    "lib/*", "lib\\*", ("lib\\*", "raw"), "./lib/*", "lib//*", "lib/./*", "zz/../lib/*", "zz/../lib\\*", "lib/../lib/*", "sub/../lib\\*", "a.jmc/../lib/*", "lib/sub/../*", "lib/sub/*", "lib/sub\\*", ("lib/sub\\*", "raw"),
    "lib\\sub/*", "lib\\sub\\*", "./*", "/*", "\\*", ("\\*", "raw"), ".\\*", "sub/../*", "sub/..\\*", "Lib/*", "only/*", "only\\*", "lib.jmc/*", "lib/d.jmc/*",
    "lib/x.jmc/*", "nodir/*", "nodir\\*", "{ROOT}/w/proj/lib/*", "{ROOT}/w/proj/lib\\*", "../proj/lib/*", "../proj/lib\\*", "../*", "..\\*", "*/*", "sub/*",
    "sub\\*", "lib/**", "lib/*/", "a.jmc/*", "x.jmc/*"]
SUB_STRINGS = [       # written in sub/c.jmc
    "../lib", "../lib.jmc", "../lib/*", "../lib\\*", "..\\*", "../*", "*", "./*", "/*", "\\*", "c", "../sub/c", "../sub\\c", "by", "../a", "../A", "",
    "../lib/sub/*", "../lib/sub\\*", "deep/*", "../sub/*", "../x.jmc", "../x", "../only", "../only/*", "{ROOT}/w/proj/lib", "{ROOT}/w/proj/lib\\*"]
LIB_STRINGS = ["lib/*", "lib\\*", "lib/x", "lib/x.jmc", "./lib/sub/*", "lib", "lib.jmc", "lib/sub\\*"]      # written in lib.jmc itself


def names_universe(variant: int, n0: int = 1100):
    """the files of the name space -> ({path: items}, {look-alike path: text}); every file leaves a trace where it is pasted"""
    paths = ["lib.jmc", "lib/x.jmc", "lib/X.jmc", "lib/sub/y.jmc", "a.jmc", "A.jmc", "a.b.jmc", "x.jmc", "x.jmc.jmc", ".jmc", "sub\\c.jmc",
             "sub/c.jmc", "by.jmc", "sub/by.jmc", "lib/sub/by.jmc", "Lib/x.jmc", "only/o.jmc", "lib\\sub/w.jmc"]
    if variant % 2 == 0:
        paths += ["lib/d.jmc/z.jmc"]                 # a FOLDER called d.jmc below lib/
    if variant % 3 == 0:
        paths += ["*.jmc", "sub/.jmc"]
    files, n = {}, n0
    for q in paths:
        files[f"{P}/{q}"] = [("load", n, "if" if n % 4 == 0 else "say"), ("def", n + 1, "plain")]
        n += 2
    files["w/other/o.jmc"] = [("load", n, "say")]
    files["w/by.jmc"] = [("load", n + 1, "say")]
    extra = {f"{P}/lib/x.jmcx": 'say "NOT-A-SOURCE";\n', f"{P}/lib/x.jmc.bak": 'say "NOT-A-SOURCE";\n', f"{P}/lib/notes.txt": "not jmc {\n",
             f"{P}/lib/jmc": 'say "NOT-A-SOURCE";\n', f"{P}/sub/c": 'say "NOT-A-SOURCE";\n', f"{P}/a": 'say "NOT-A-SOURCE";\n', f"{P}/a.JMC": 'say "NOT-A-SOURCE";\n'}
    return files, extra


def gen_names(rng, tier):
    """hand-made: ONE import string per project (in main, in a file of a sub-folder, in the module file next to its folder) over the whole
    universe of names; random: several strings per project over a random part of the universe"""
    out = []
    m = f"{P}/main.jmc"
    L = lambda n, k="say": ("load", n, k)   # noqa
    spell = MAIN_SPELLINGS[:4]
    k = 0

    def imp(s):
        return ("import",) + (s if isinstance(s, tuple) else (s,))

    def proj(files, extra, tag):
        nonlocal k
        for cwd, target in ([spell[k % len(spell)]] if tier == "quick" else [spell[k % len(spell)], spell[(k + 1) % len(spell)]]):
            out.append(Project(files, ["w/other", f"{P}/sub", f"{P}/emptydir"], cwd, target, tag, extra))
        k += 1
    for s in NAMED_STRINGS + WILD_STRINGS:
        files, extra = names_universe(k)
        files[m] = [L(1000), imp(s), L(1001, "if"), ("def", 1002, "plain")]
        proj(files, extra, "names-main")
    for s in SUB_STRINGS:
        files, extra = names_universe(k)
        files[m] = [L(1000), ("import", "sub/c"), L(1001)]
        files[f"{P}/sub/c.jmc"] = [L(1002, "if"), imp(s), L(1003)]
        proj(files, extra, "names-sub")
    for s in LIB_STRINGS:
        files, extra = names_universe(k)
        files[m] = [L(1000), ("import", "lib"), L(1001)]
        files[f"{P}/lib.jmc"] = [L(1002, "if"), imp(s), L(1003), ("def", 1004, "plain")]
        proj(files, extra, "names-module-file")
    # the same file / folder named twice, spelled differently (imported once)
    for a, b in [("lib", "./lib.jmc/"), ("lib/*", "lib\\*"), ("lib\\*", "./lib/./*"), ("sub\\c", "./sub\\c.jmc"), ("lib/x", "lib/*"), ("lib/*", "lib/X"),
                 ("a", "A"), ("lib", "lib/*"), ("lib/*", "lib"), ("", "./.jmc"), ("lib/sub\\*", "lib/*"), ("x", "x.jmc.jmc")]:
        files, extra = names_universe(k)
        files[m] = [L(1000), imp(a), L(1001, "if"), imp(b), L(1002)]
        proj(files, extra, "names-twice")
    # random: part of the universe, several strings, written in several files
    pool = [s for s in NAMED_STRINGS + WILD_STRINGS] + [s for s in SUB_STRINGS]
    for ci in range(40 if tier == "quick" else 500):
        files, extra = names_universe(rng.randrange(6))
        for f in rng.sample(sorted(files), rng.randint(0, 8)):
            del files[f]
        for e in rng.sample(sorted(extra), rng.randint(0, len(extra))):
            del extra[e]
        files[m] = [L(1000), L(1001, "if")]
        holders = [m] + [f for f in sorted(files) if f != m and rng.random() < .3]
        for _ in range(rng.randint(1, 5)):
            f = rng.choice(holders)
            r = rng.random()
            if r < .4:
                it = imp(rng.choice(pool))
            elif r < .75 and len(files) > 1:
                c = named_spellings(f, rng.choice(sorted(files)))
                it = imp(rng.choice(c)) if c else imp(rng.choice(pool))
            else:
                c = wild_spellings(f, rng.choice(sorted({posixpath.dirname(x) for x in files} | {f"{P}/emptydir", "w"})))
                it = imp(rng.choice(c)) if c else imp(rng.choice(pool))
            files[f].insert(rng.randint(0, len(files[f])), it)
        cwd, target = rng.choice(MAIN_SPELLINGS)
        out.append(Project(files, ["w/other", f"{P}/sub", f"{P}/emptydir"], cwd, target, "names-rnd", extra))
    return out


# ------------------------------------------------------------------ file-sensitive load statements (strengthening round 3)

def gen_filesens(rng, tier):
    """load statements before / between / after imports whose compilation depends on the file the load tokenizer stands on:
    line number vs the length of the neighbouring files, folder of the file, file and line of a diagnostic"""
    out = []
    m = f"{P}/main.jmc"
    L = lambda n, k="wvar": ("load", n, k)   # noqa
    D = lambda n, k="func": ("def", n, k)    # noqa
    W = ("load", 1999, "watch")
    dirs = ["w/other", f"{P}/sub"]
    spell = MAIN_SPELLINGS[:4] if tier == "quick" else MAIN_SPELLINGS

    def proj(files, cwd, target, tag):
        out.append(Project(files, list(dirs), cwd, target, tag))
    for cwd, target in spell:
        # (a) statements on late lines, 1-line neighbours; before / between / after imports, a repeated import, an imported file's own import
        proj({m: [W, L(1000, "wvarp"), ("import", "a"), L(1001), ("import", "a"), L(1002, "wvarp"), ("import", "sub/c"), L(1003, "wvarp")],
              f"{P}/a.jmc": [L(1004, "say")],
              f"{P}/sub/c.jmc": [L(1005, "wvarp"), ("import", "deep/e"), L(1006, "wvarp"), D(1007, "wfunc"), L(1008)],
              f"{P}/sub/deep/e.jmc": [L(1009)]}, cwd, target, "fs-late-line")
        proj({m: [W, L(1000, "say"), L(1001, "wvarp"), ("wild", "lib/*"), L(1002, "wvarp"), ("import", "sub/a"), L(1003)],
              f"{P}/lib/f.jmc": [L(1004)], f"{P}/lib/a.jmc": [L(1005, "wvarp"), ("import", "../a")],
              f"{P}/a.jmc": [L(1006)], f"{P}/sub/a.jmc": [D(1007, "plain"), L(1008, "wvarp"), ("wild", "../lib/*"), L(1009, "wvarp")]},
             cwd, target, "fs-late-line-wild")
        # (b) the folder of the file: JMC.pythonFile("gen.py"), a gen.py in every folder
        proj({m: [L(1000, "pyf"), ("import", "sub/c"), L(1001, "pyf"), ("wild", "lib/*"), L(1002, "pyf"), ("import", "sub/c"), L(1003, "pyf")],
              f"{P}/sub/c.jmc": [L(1004, "pyf"), ("import", "deep/e"), L(1005, "pyf"), D(1006), L(1007, "pyf")],
              f"{P}/sub/deep/e.jmc": [L(1008, "pyf"), D(1009, "plain")], f"{P}/lib/f.jmc": [L(1010, "pyf"), ("import", "../sub/c")]},
             cwd, target, "fs-python-file")
        proj({m: [L(1000, "pyf"), ("import", "../other/o"), L(1001, "pyf")], "w/other/o.jmc": [L(1002, "pyf"), ("import", "../proj/main"), L(1003, "pyf")]},
             cwd, target, "fs-python-file-outside")
    # (c) a failing load statement in every position x every kind of diagnostic
    k = 0
    for slot in range(8):
        for bad in BAD_KINDS:
            cwd, target = spell[k % len(spell)]
            k += 1
            s = [L(1000 + j, "say") if j != slot else L(1000 + j, bad) for j in range(8)]
            proj({m: [s[0], ("import", "sub/c"), s[1], ("wild", "lib/*"), s[2]],
                  f"{P}/sub/c.jmc": [s[3], ("import", "deep/e"), s[4], D(1010, "plain"), s[5]],
                  f"{P}/sub/deep/e.jmc": [s[6]], f"{P}/lib/f.jmc": [L(1011, "say"), s[7]]}, cwd, target, "fs-diagnostic")
    # random projects: half of the load statements file-sensitive, sometimes one failing statement
    n_rand = 60 if tier == "quick" else 600
    for ci, pr in enumerate(gen_random(rng, n_rand)):
        ids = set()
        for f, its in pr.files.items():
            for j, it in enumerate(its):
                if it[0] == "load" and rng.random() < .6:
                    its[j] = ("load", it[1], rng.choice(FS_LOAD_KINDS))
                elif it[0] == "def" and rng.random() < .15:
                    its[j] = ("def", it[1], "wfunc")
                ids.add(it[1] if it[0] in ("load", "def") else 0)
        nxt = max(ids | {999}) + 1
        # make sure a file-sensitive statement stands directly before and after an import of the main file and of one more file
        holders = [f for f, its in pr.files.items() if any(i[0] in ("import", "wild") for i in its)]
        for f in [m] + ([rng.choice(holders)] if holders else []):
            its = pr.files[f]
            pos = [j for j, i in enumerate(its) if i[0] in ("import", "wild")]
            if pos:
                j = rng.choice(pos)
                its.insert(j + 1, ("load", nxt, rng.choice(FS_LOAD_KINDS)))
                its.insert(j, ("load", nxt + 1, rng.choice(FS_LOAD_KINDS)))
                nxt += 2
        if rng.random() < .3:
            f = rng.choice(sorted(pr.files))
            pr.files[f].insert(rng.randint(0, len(pr.files[f])), ("load", nxt, rng.choice(BAD_KINDS)))
        pr.files[m].insert(0, W)
        pr.tag = f"fs-rnd{ci}"
        out.append(pr)
    return out


# ------------------------------------------------------------------ edit sequences (strengthening round 2)
# A sequence = successive states of ONE project folder.  Every state is compiled in turn in ONE process (jmc's interactive shell /
# autocompile / an API user rebuilding), the folder being edited in place in between; every state must compile to the flattened
# single file of the project AS IT IS NOW, and to what the model predicts for it.

def next_id(files) -> int:
    ids = [it[1] for its in files.values() for it in its if it[0] in ("load", "def")]
    return max(ids + [999]) + 1


def wild_dirs_of(pr: Project) -> list[str]:
    """root-relative directories named by the wildcard imports of the project (existing or not)"""
    out = []
    for f, its in pr.files.items():
        for it in its:
            if it[0] == "wild":
                d = spec_dir(tup(f), it[1])
                if d[:1] == (ROOTC,) and len(d) > 1:
                    out.append("/".join(d[1:]))
    return sorted(set(out))


def fresh_items(rng, n0: int, k: int):
    out = []
    for j in range(k):
        out.append(("load", n0 + j, rng.choice(["if", "say", "var"])) if rng.random() < .5 else ("def", n0 + j, rng.choice(["func", "plain", "class"])))
    return out


def edit_project(rng, pr: Project, kind: str) -> Project | None:
    files = {k: list(v) for k, v in pr.files.items()}
    dirs = list(pr.dirs)
    main = "/".join(pr.main_id()[1:])
    others = [f for f in files if f != main]
    wdirs = wild_dirs_of(pr)
    n0 = next_id(files)
    if n0 > 1990:
        return None
    covered = [f for f in others if any(f.startswith(d + "/") for d in wdirs)]
    if kind == "add":
        base = rng.choice(wdirs) if wdirs and rng.random() < .8 else rng.choice(sorted({posixpath.dirname(f) for f in files}))
        r = rng.random()
        d = base if r < .6 else base + "/" + rng.choice(["sub", "newsub", "deep/er"])
        name = rng.choice(["n", "added", "z.x", "a"]) + str(n0) + ".jmc"
        files[f"{d}/{name}"] = fresh_items(rng, n0, rng.randint(1, 3))
    elif kind == "remove":
        if not others:
            return None
        f = rng.choice(covered) if covered and rng.random() < .8 else rng.choice(others)
        del files[f]
    elif kind == "edit":
        f = rng.choice(covered) if covered and rng.random() < .6 else rng.choice(sorted(files))
        its = files[f]
        r = rng.random()
        if r < .5 or not its:
            its.insert(rng.randint(0, len(its)), fresh_items(rng, n0, 1)[0])
        elif r < .75:
            its.pop(rng.randrange(len(its)))
        else:
            k = rng.randrange(len(its))
            if its[k][0] in ("load", "def"):
                its[k] = fresh_items(rng, n0, 1)[0]
            else:
                its.insert(k, fresh_items(rng, n0, 1)[0])
    elif kind == "move":
        if not others:
            return None
        f = rng.choice(covered) if covered and rng.random() < .6 else rng.choice(others)
        cand = sorted(set(wdirs) | {posixpath.dirname(x) for x in files} | {d + "/moved" for d in wdirs} | {P + "/elsewhere"})
        d = rng.choice(cand)
        name = posixpath.basename(f) if rng.random() < .6 else "mv" + str(n0) + ".jmc"
        g = f"{d}/{name}"
        if g in files:
            return None
        files[g] = files.pop(f)
    elif kind == "import":
        holders = [f for f, its in files.items() if any(i[0] in ("import", "wild") for i in its)]
        r = rng.random()
        if holders and r < .7:
            f = rng.choice(holders)
            its = files[f]
            k = rng.choice([k for k, i in enumerate(its) if i[0] in ("import", "wild")])
            it = its[k]
            r2 = rng.random()
            if r2 < .25:
                its.pop(k)                                          # the import line is deleted
            elif it[0] == "import" and r2 < .7:                      # explicit import -> wildcard over the target's folder
                t = spec_target(tup(f), it[1])
                if t[:1] != (ROOTC,) or len(t) < 3:
                    return None
                its[k] = ("wild", wild_spelling(rng, f, "/".join(t[1:-1])))
            elif it[0] == "wild" and r2 < .7:                        # wildcard -> explicit import of one file below it / another folder
                d = "/".join(spec_dir(tup(f), it[1])[1:])
                below = [x for x in files if x.startswith(d + "/")]
                if below and rng.random() < .6:
                    its[k] = ("import", import_spelling(rng, f, rng.choice(below)))
                else:
                    its[k] = ("wild", wild_spelling(rng, f, rng.choice(sorted({posixpath.dirname(x) for x in files} | set(dirs)))))
            else:
                its.insert(rng.randint(0, len(its)), its.pop(k))     # the import line is moved
        else:                                                        # a new import line
            f = rng.choice(sorted(files))
            its = files[f]
            if others and rng.random() < .5:
                its.insert(rng.randint(0, len(its)), ("import", import_spelling(rng, f, rng.choice(sorted(files)))))
            else:
                its.insert(rng.randint(0, len(its)), ("wild", wild_spelling(rng, f, rng.choice(sorted({posixpath.dirname(x) for x in files} | set(dirs))))))
    elif kind == "rmdir":                                            # every file below a wildcard's folder goes away (the folder too)
        if not wdirs:
            return None
        d = rng.choice(wdirs)
        gone = [f for f in others if f.startswith(d + "/")]
        if not gone:
            return None
        for f in gone:
            del files[f]
        dirs = [x for x in dirs if not (x == d or x.startswith(d + "/")) or pr.cwd == x or pr.cwd.startswith(x + "/")]
    else:
        raise ValueError(kind)
    if pr.cwd not in dirs and not any(f.startswith(pr.cwd + "/") for f in files):
        dirs.append(pr.cwd)             # the working directory is part of the input: it stays
    return Project(files, dirs, pr.cwd, pr.target, pr.tag, pr.extra)


EDIT_KINDS = ["add", "add", "remove", "edit", "move", "import", "rmdir"]


def seq_bases(rng, count):
    """projects that certainly use wildcard imports (main and / or an imported file), several files below the covered folders"""
    out = []
    m = f"{P}/main.jmc"
    for ci in range(count):
        n = 1000
        files = {m: []}
        libs = rng.sample(["lib", "sub", "lib/inner", "sub/deep", "pkg"], rng.randint(1, 3))
        for d in libs:
            for name in rng.sample(["a.jmc", "b.jmc", "c.jmc", "x.y.jmc", "main.jmc"], rng.randint(1, 3)):
                files[f"{P}/{d}/{name}"] = fresh_items(rng, n, rng.randint(1, 2))
                n += 2
        files[m] = fresh_items(rng, n, rng.randint(1, 3))
        n += 3
        holder_pool = [m] + [f for f in files if f != m and rng.random() < .3]
        for d in libs:
            if rng.random() < .85:
                f = rng.choice(holder_pool)
                its = files[f]
                its.insert(rng.randint(0, len(its)), ("wild", wild_spelling(rng, f, f"{P}/{d}")))
        if not any(i[0] == "wild" for its in files.values() for i in its):
            files[m].insert(0, ("wild", wild_spelling(rng, m, f"{P}/{libs[0]}")))
        for f in list(files):
            if f != m and rng.random() < .3:
                its = files[m]
                its.insert(rng.randint(0, len(its)), ("import", import_spelling(rng, m, f)))
        if rng.random() < .3:
            files[m].insert(rng.randint(0, len(files[m])), ("wild", "later/*"))      # a folder that does not exist (yet)
        cwd, target = rng.choice(MAIN_SPELLINGS[:4]) if rng.random() < .8 else rng.choice(MAIN_SPELLINGS)
        out.append(Project(files, ["w/other", f"{P}/sub"], cwd, target, f"seqbase{ci}"))
    return out


def gen_sequences(rng, tier):
    """[(tag, [Project, ...])]: hand-made sequences for each kind of edit + random ones of 2-4 further steps"""
    seqs = []
    m = f"{P}/main.jmc"
    L = lambda n, k="if": ("load", n, k)   # noqa
    D = lambda n, k="func": ("def", n, k)  # noqa
    lib = {f"{P}/lib/a.jmc": [L(1001), D(1002)], f"{P}/lib/b.jmc": [D(1003, "class"), L(1004, "say")]}
    for cwd, target in MAIN_SPELLINGS[:4]:
        base = Project({m: [L(1000), ("wild", "lib/*"), D(1005)], **lib}, ["w/other", f"{P}/sub"], cwd, target, "seq-hand")
        def st(files, dirs=None):
            return Project(files, base.dirs if dirs is None else dirs, cwd, target, "seq-hand")
        added = dict(base.files, **{f"{P}/lib/c.jmc": [L(1006), D(1007)]})
        added_sub = dict(added, **{f"{P}/lib/new/deep/d.jmc": [D(1008, "plain"), L(1009, "var")]})
        seqs.append(("add-file", [base, st(added), st(added_sub)]))
        seqs.append(("remove-file", [st(added_sub), st(added), base, st({k: v for k, v in base.files.items() if not k.endswith("/a.jmc")})]))
        seqs.append(("rename-file", [base, st({(k.replace("/a.jmc", "/renamed.jmc")): v for k, v in base.files.items()})]))
        seqs.append(("move-out-and-in", [base, st({(k.replace("/lib/a.jmc", "/sub/a.jmc")): v for k, v in base.files.items()}),
                                         st({(k.replace("/lib/a.jmc", "/lib/deeper/a.jmc")): v for k, v in base.files.items()})]))
        seqs.append(("edit-file", [base, st(dict(base.files, **{f"{P}/lib/a.jmc": [L(1001), D(1010), D(1002)]})),
                                   st(dict(base.files, **{f"{P}/lib/a.jmc": [D(1002)], m: [("wild", "lib/*"), L(1000), D(1005), L(1011, "say")]}))]))
        seqs.append(("import-line", [base, st(dict(base.files, **{m: [L(1000), ("import", "lib/b"), D(1005)]})),
                                     st(dict(base.files, **{m: [L(1000), ("import", "lib/b"), D(1005), ("wild", "./lib/*")]})),
                                     st(dict(base.files, **{m: [L(1000), D(1005)]}))]))
        seqs.append(("folder-appears", [st({m: [L(1000), ("wild", "lib/*"), D(1005)]}), base, st({m: [L(1000), ("wild", "lib/*"), D(1005)]})]))
        seqs.append(("two-wildcards", [st(dict(base.files, **{m: [("wild", "lib/*"), L(1000), ("wild", "sub/*")], f"{P}/sub/s.jmc": [D(1012)]})),
                                       st(dict(base.files, **{m: [("wild", "lib/*"), L(1000), ("wild", "sub/*")], f"{P}/sub/s.jmc": [D(1012)],
                                                              f"{P}/sub/t.jmc": [L(1013)], f"{P}/lib/u.jmc": [D(1014)]}))]))
        seqs.append(("wildcard-in-imported-file",
                     [st({m: [("import", "sub/c"), L(1000)], f"{P}/sub/c.jmc": [D(1001), ("wild", "deep/*"), L(1002)], f"{P}/sub/deep/e.jmc": [L(1003)]}),
                      st({m: [("import", "sub/c"), L(1000)], f"{P}/sub/c.jmc": [D(1001), ("wild", "deep/*"), L(1002)], f"{P}/sub/deep/e.jmc": [L(1003)],
                          f"{P}/sub/deep/f.jmc": [D(1004)], f"{P}/sub/deep/x/g.jmc": [L(1005, "say")]})]))
        seqs.append(("same-state-again", [base, base, st(added), st(added)]))
    n_rand = 40 if tier == "quick" else 400
    bases = seq_bases(rng, n_rand) + [p for p in gen_random(rng, n_rand) if wild_dirs_of(p)][:n_rand // 2]
    for b in bases:
        steps = [b]
        for _ in range(rng.randint(1, 3) if tier == "quick" else rng.randint(2, 4)):
            nxt = None
            for _try in range(6):
                nxt = edit_project(rng, steps[-1], rng.choice(EDIT_KINDS))
                if nxt is not None:
                    break
            if nxt is None:
                break
            steps.append(nxt)
        if len(steps) > 1:
            seqs.append(("random", steps))
    return seqs


def run_sequences(seqs, chunk=1):
    """every sequence in ONE process of its own -> per sequence the list of results"""
    jobs = [dict(seq=[p.job() for p in steps]) for _, steps in seqs]
    chunks = [jobs[i:i + chunk] for i in range(0, len(jobs), chunk)]
    with ThreadPoolExecutor(max_workers=NCPU) as ex:
        res = list(ex.map(lambda c: run_py(RUNNER, c, timeout=900), chunks))
    return [r["seq"] for rs in res for r in rs]


# ------------------------------------------------------------------ observation of a real result

ID_RE = re.compile(r"(?<!\d)(1\d{3})(?!\d)")


WATCH_RE = re.compile(r'\{"text":"([^"]*)","color":"yellow"\},\{"text":" \| ","color":"aqua","bold":true\},'
                      r'\{"text":"([^"]*)","color":"yellow"\}\]')
NAME_RE = re.compile(r"(.*?\.jmc)(?::(\d+))?(?::\d+)?")
WATCH_FN_RE = re.compile(r"/__private__/__debug_watch__/(\d+)\.mcfunction$")


def printed_file(name: str, cwd_t: tuple):
    """a file name as jmc prints it (relative to the cwd with :line[:col], or absolute) -> (canonical file, line | None) | None"""
    mm = NAME_RE.fullmatch(name)
    if not mm:
        return None
    path = mm.group(1)
    if path.startswith("{ROOT}/"):
        t = canon((), ["", ROOTC] + path[len("{ROOT}/"):].split("/"))
    elif path.startswith("/"):
        return None
    else:
        t = canon(cwd_t, path.split("/"))
    return t, (int(mm.group(2)) if mm.group(2) else None)


def watch_functions(files: dict):
    """[(k, path, id of the statement, printed name, printed source line)] of the Debug.watch wrappers, in order of their numbers"""
    out = []
    for k, v in files.items():
        mm = WATCH_FN_RE.search(k)
        if mm:
            ids = ID_RE.findall(v.split("\n")[1] if v.count("\n") else v)
            w = WATCH_RE.search(v)
            out.append((int(mm.group(1)), k, int(ids[0]) if ids else -1, w.group(1) if w else None, w.group(2) if w else None))
    return sorted(out)


def diag_pos(res: dict, cwd_t: tuple):
    """where a diagnostic says the error is: (canonical file | None, line | None)"""
    msg = res.get("msg", "")
    f = None
    if msg.startswith("In "):
        pf = printed_file(msg.split("\n")[0][3:].strip(), cwd_t)
        f = pf[0] if pf else None
    mm = re.search(r" at line (\d+) col \d+", msg)
    return f, (int(mm.group(1)) if mm else None)


def observe(res: dict, alloc=None, pr=None):
    """-> ('ok', order, loads, opens, wids, wfiles) | ('dup', n) | ('notfound', tuple) | ('dirnotfound', tuple) | ('bad', n, file) | ('other', text)"""
    if res["ok"]:
        fs = res["files"]
        order = []
        ks = []
        for k, v in fs.items():
            mm = re.search(r"/__private__/if_else/(\d+)\.mcfunction$", k)
            if mm:
                ks.append((int(mm.group(1)), v))
        for _, v in sorted(ks):
            ids = ID_RE.findall(v)
            n = int(ids[0]) if ids else -1
            if alloc is None or n in alloc:
                order.append(n)
        loads = []
        load = next((v for k, v in fs.items() if k.endswith("/function/__load__.mcfunction")), "")
        wf = watch_functions(fs)
        wcalls = {re.sub(r".*/function/", "", k)[:-len(".mcfunction")]: n for _, k, n, _, _ in wf}
        for line in load.split("\n"):
            ids = ID_RE.findall(line)
            mm = re.fullmatch(r"function [^:\s]+:(\S+)", line)
            if mm and mm.group(1) in wcalls:                     # a watched `$q += n;` is a call of its Debug.watch wrapper
                ids = [str(wcalls[mm.group(1)])]
            if ids and (not loads or loads[-1] != int(ids[0])):
                loads.append(int(ids[0]))
        wids, wfiles = [], []
        if pr is not None:
            watched = set(pr.ids_of(WATCHED_KINDS))
            for _, _, n, name, _ in wf:
                if n in watched:
                    pf = printed_file(name or "", tup(pr.cwd))
                    wids.append(n)
                    wfiles.append(pf[0] if pf else ("?",))
        return ("ok", order, loads, [tup(o) for o in res["opens"]], wids, wfiles)
    msg = res.get("msg", "")
    if pr is not None and res.get("jmc"):
        bad = pr.ids_of(BAD_KINDS)
        f, _line = diag_pos(res, tup(pr.cwd))
        if len(bad) == 1 and f is not None:
            return ("bad", bad[0], f)
    if res["exc"] == "JMCSyntaxException" and "Duplicate function declaration" in msg:
        ids = ID_RE.findall(msg.split("Duplicate function declaration", 1)[1])
        return ("dup", int(ids[0]) if ids else -1)
    if res["exc"] == "JMCFileNotFoundError":
        mm = re.search(r"(JMC file|Directory\(folder\)) not found: (\S+)", msg)
        if mm:
            p = mm.group(2)
            comps = tuple(c for c in p.replace("{ROOT}", "/" + ROOTC).split("/") if c)
            return ("notfound" if mm.group(1) == "JMC file" else "dirnotfound", comps)
    return ("other", f"{res['exc']}: {msg[:300]}")


def result_key(res: dict, layout: dict | None = None, cwd_t: tuple | None = None):
    """What must coincide between the project and the flattened file.
    layout (item id -> (file, line) on THIS side) given: comparison modulo the file mapping - a file name / line the output prints for
    a statement (Debug.watch) and the position of a diagnostic are replaced by the statement they denote on this side."""
    if res["ok"]:
        files = res["files"]
        if layout is not None:
            files = dict(files)
            for _, k, n, name, _src in watch_functions(files):
                pf = printed_file(name or "", cwd_t)
                own = layout.get(n)
                if pf and own and pf[0] == own[0] and pf[1] in (None, own[1]):
                    files[k] = files[k].replace('{"text":"' + name + '","color":"yellow"}', '{"text":"@own-file-and-line","color":"yellow"}')
        return ("ok", tuple(sorted(files.items())))
    msg = res.get("msg", "")
    first = msg.split("\n")[1] if msg.startswith("In ") and "\n" in msg else msg.split("\n")[0]
    first = re.sub(r" at line \d+ col \d+", "", first)
    if layout is None:
        return ("err", res["exc"], first[:200])
    f, line = diag_pos(res, cwd_t)
    where = None
    if f is not None or line is not None:
        at = [n for n, (ff, ll) in layout.items() if ff == f and ll == line]
        where = at[0] if at else ("no statement of the program at", "/".join(f or ("?",)), line)
        if at:                                            # the source line the diagnostic shows must be the statement's
            shown = re.search(r"^%d *\|(.*)$" % line, msg, re.M)
            where = (where, shown.group(1).strip() if shown else None)
    return ("err", res["exc"], first[:200], where)


# ------------------------------------------------------------------ Coq terms

# round 4: coqc parses string literals slowly (~20 kB/s) and a project of the name space repeats every path many times (tree, directory
# tree, one listing per ancestor folder, files opened): every distinct path is defined ONCE per generated file and used by name
PATHS: dict = {}


def coq_path_lit(t: tuple) -> str:
    return coq_list(coq_str(c) for c in t)


def coq_path(t: tuple) -> str:
    t = tuple(t)
    if t not in PATHS:
        PATHS[t] = f"pth_{len(PATHS)}"
    return PATHS[t]


def eval_both(terms: list[str], specs: list[str], per_file: int = 60):
    """model_obs == real observation (Run.C17.mismatches) and Coq flatten == harness flatten (spec_ok) in ONE evaluation of each case
    -> (indices differing on the first, indices differing on the second, error outputs)"""
    from lib import run_coq_files, parse_nat_list
    names = {v: k for k, v in PATHS.items()}
    files = []
    for fi, start in enumerate(range(0, len(terms), per_file)):
        chunk = [f"({t}, {sp})" for t, sp in zip(terms[start:start + per_file], specs[start:start + per_file])]
        body = ";\n".join(chunk)
        used = sorted(set(re.findall(r"\bpth_\d+\b", body)), key=lambda x: int(x[4:]))
        defs = "".join(f"Definition {u} : apath := {coq_path_lit(names[u])}.\n" for u in used if u in names)
        text = (HEADER + defs + "Definition cases : list (case * option (list nat)) := [\n" + body + "\n].\n"
                "Definition both_bad (l : list (case * option (list nat))) : list nat :=\n"
                "  map (fun i => 2 * i) (bad_indices (fun cs => case_ok (fst cs)) l) ++ map (fun i => 2 * i + 1) (bad_indices (fun cs => spec_ok (fst cs) (snd cs)) l).\n"
                "Eval vm_compute in both_bad cases.\n")
        files.append((f"cases_{fi}.v", text))
    outs = run_coq_files(PROP, files, timeout=900)
    bad, bad2, errs = [], [], []
    for fi, (ok, out) in enumerate(outs):
        if not ok:
            errs.append(f"{files[fi][0]}: {out[-3000:]}")
            continue
        for c in parse_nat_list(out):
            (bad2 if c % 2 else bad).append(fi * per_file + c // 2)
    return sorted(bad), sorted(bad2), errs


def cid(n) -> str:
    """item ids are 1000..1999 in the program text (ID_RE finds them in the output); in the Coq terms they are written n - 1000:
    a nat literal is a unary term, `1100` costs 1100 constructors to parse and type-check (measured: 26 s -> 5 s per 60 cases)"""
    n = int(n)
    return str(n - 1000) if n >= 1000 else "1000"


def coq_item(it) -> str:
    if it[0] == "load":
        return f"SrcLoad {cid(it[1])}"
    if it[0] == "def":
        return f"SrcDef {cid(it[1])}"
    return f"SrcImport {coq_str(model_str(it[1]))}"       # round 4: the STRING; Model/ImportPath.v lower_import reads it


def coq_robs(o) -> str:
    if o[0] == "ok":
        return (f"(ROk {coq_list(cid(n) for n in o[1])} {coq_list(cid(n) for n in o[2])} "
                f"{coq_list(coq_path(p) for p in o[3])} {coq_list(cid(n) for n in o[4])} {coq_list(coq_path(p) for p in o[5])})")
    if o[0] == "bad":
        return f"(RBad {cid(o[1])} {coq_path(o[2])})"
    if o[0] == "dup":
        return f"(RDup {cid(o[1])})"
    if o[0] == "notfound":
        return f"(RNotFound {coq_path(o[1])})"
    if o[0] == "dirnotfound":
        return f"(RDirNotFound {coq_path(o[1])})"
    return "ROther"


def alloc_ids(pr: Project) -> set:
    return {it[1] for its in pr.files.values() for it in its if it[0] in ("load", "def") and it[2] in ALLOC_KINDS}


def coq_case(pr: Project, listing: dict, obs, mode="Repaired", nodes=()) -> str:
    tree = "(lower_tree " + coq_list(f"({coq_path(tup(f))}, {coq_list(coq_item(i) for i in its)})" for f, its in pr.files.items()) + ")"
    fs = coq_list(f"({coq_path(n)}, {'NDir' if k == 'd' else 'NFile'})" for n, k in nodes)
    dirs = coq_list(f"({coq_path(d)}, {coq_list(coq_path(f) for f in fl)})" for d, fl in listing.items() if fl is not None)
    t = model_str(pr.target)
    alloc = sorted(alloc_ids(pr))
    return (f"mkCase {mode} {tree} {fs} {dirs} {coq_path(tup(pr.cwd))} {coq_bool(t.startswith('/'))} "
            f"{coq_list(coq_str(c) for c in t.split('/'))} {coq_list(cid(n) for n in alloc)} "
            f"{coq_list(cid(n) for n in pr.ids_of(WATCHED_KINDS))} {coq_list(cid(n) for n in pr.ids_of(BAD_KINDS))} "
            f"{coq_list(cid(n) for n in pr.ids_of(HIDDEN_KINDS))} {coq_robs(obs)}")


# ------------------------------------------------------------------ running

def run_jobs(jobs: list[dict], chunk: int = 40) -> list[dict]:
    chunks = [jobs[i:i + chunk] for i in range(0, len(jobs), chunk)]
    with ThreadPoolExecutor(max_workers=NCPU) as ex:
        res = list(ex.map(lambda c: run_py(RUNNER, c, timeout=900), chunks))
    return [r for rs in res for r in rs]


def listing_of(pr: Project, res: dict) -> dict:
    out = {}
    for d, fl in res["globs"].items():
        out[tup(d)] = None if fl is None else [tup(f) for f in fl]
    return out


def evaluate(projects: list[Project], reals: list[dict] | None = None):
    """Run every project and its flattened file on the real compiler.  Returns per project a dict.
    reals: results already obtained for the projects (the steps of an edit sequence compiled in ONE process)."""
    res = reals if reals is not None else run_jobs([p.job() for p in projects])
    rows = []
    flat_jobs, flat_idx = [], []
    for i, (pr, r) in enumerate(zip(projects, res)):
        listing = listing_of(pr, r)
        files = {tup(f): its for f, its in pr.files.items()}
        order = []
        try:
            flat = spec_flatten(files, listing, pr.main_id(), order)
            spec = ("ok", flat)
            flat_idx.append(i)
            flat_jobs.append(flat_job(flat, pr.aux_files()))
        except SpecError as e:
            spec = (e.kind, e.path)
        rows.append(dict(project=pr, real=r, listing=listing, spec=spec, flat_real=None, order=order,
                         nodes=[(tup(n), k) for n, k in r.get("nodes", [])]))
    for i, fr in zip(flat_idx, run_jobs(flat_jobs)):
        rows[i]["flat_real"] = fr
    return rows


def property_failure(row) -> dict | None:
    """The property itself, on the real compiler."""
    r, spec, fr = row["real"], row["spec"], row["flat_real"]
    if spec[0] == "ok":
        pr = row["project"]
        if result_key(r, pr.layout(), tup(pr.cwd)) != result_key(fr, flat_layout(spec[1]), tup(P)):
            return dict(expected=summary(fr), actual=summary(r),
                        what="the project does not compile to the output of the flattened single file "
                             "(modulo the file mapping: printed file names / lines and the position of a diagnostic denote the same statement)")
        opens = r.get("opens", [])
        if len(opens) != len(set(opens)):
            return dict(expected="every .jmc file read at most once", actual=opens, what="a file was parsed twice")
        want = ["/".join(f[1:]) for f in row.get("order", [])]
        if r["ok"] and row.get("order") and opens != want:       # round 4: the SET and ORDER of the files read
            return dict(expected=want, actual=opens,
                        what="the .jmc files read are not exactly the files the import statements lead to, in the order they are pasted "
                             "(a bystander was read / an imported file was not / read early or late)")
        return None
    obs = observe(r)
    if obs[0] != spec[0] or tuple(obs[1]) != tuple(spec[1]):
        return dict(expected=f"{spec[0]} {'/'.join(spec[1])}", actual=summary(r),
                    what="an import of a missing file/directory is not diagnosed as such")
    return None


def summary(res: dict):
    if res is None:
        return None
    if res["ok"]:
        return {k: v for k, v in res["files"].items() if k.endswith(".mcfunction")}
    return f"{res['exc']}: {res.get('msg', '')[:400]}"


def shrink(pr: Project, fails) -> Project:
    """Greedy: drop items / files while the project still fails the property."""
    cur = pr
    changed = True
    budget = 40
    while changed and budget > 0:
        changed = False
        cands = []
        main = "/".join(cur.main_id()[1:])
        for f in cur.files:                       # round 4: whole files / look-alike files first (projects of the name space are large)
            if f != main:
                cands.append(Project({g: v for g, v in cur.files.items() if g != f}, cur.dirs, cur.cwd, cur.target, cur.tag, cur.extra))
        for e in cur.extra:
            cands.append(Project(cur.files, cur.dirs, cur.cwd, cur.target, cur.tag, {g: v for g, v in cur.extra.items() if g != e}))
        for f, its in cur.files.items():
            for k in range(len(its)):
                nf = dict(cur.files)
                nf[f] = its[:k] + its[k + 1:]
                cands.append(Project(nf, cur.dirs, cur.cwd, cur.target, cur.tag, cur.extra))
        if not cands:
            break
        rows = evaluate(cands[:80])
        budget -= 1
        for c, row in zip(cands, rows):
            if fails(row):
                cur = c
                changed = True
                break
    return cur


def _norm_run_execute(res: dict):
    if not res or not res.get("ok"):
        return None
    return {k: v.replace(" run execute ", " ") for k, v in res["files"].items()}


def known_class(row):
    """A failing project is a known finding only if it matches a rule of known_findings.json:
       match = {"requires_kind": <item kind that must occur in the project>,
                "normalize": "run-execute"  (project and flattened outputs are equal once ` run execute ` is folded)
                           | "deferred-diagnostic"  (both sides raise the same 'was never defined' diagnostic, raised when the pack is
                                                     built; only the file / line / source line it cites differ)
                           | "jmc-folder"  (IsADirectoryError and a folder called *.jmc exists, or NotADirectoryError and a named import
                                            names something below a FILE: fixes/C17-import-path-not-a-file.patch)}"""
    pr = row["project"]
    kinds = {it[2] for its in pr.files.values() for it in its if it[0] in ("load", "def")}
    for f in known_for(PROP):
        m = f.get("match", {})
        if m.get("requires_kind") and m["requires_kind"] not in kinds:
            continue
        if m.get("normalize") == "run-execute":
            a, b = _norm_run_execute(row["real"]), _norm_run_execute(row["flat_real"])
            if a is None or a != b:
                continue
            return f
        if m.get("normalize") == "jmc-folder":
            # round 4: the compile stops with IsADirectoryError and the directory tree has a FOLDER whose name ends in .jmc,
            #          or with NotADirectoryError and a named import walks "through" a FILE (x.jmc/y)
            r = row["real"]
            nodes = row.get("nodes", [])
            if r["ok"]:
                continue
            if r.get("exc") == "IsADirectoryError" and any(k == "d" and n[-1].endswith(".jmc") for n, k in nodes):
                return f
            through_file = any(it[0] == "import" and any((spec_target(tup(fn), it[1])[:j], "f") in set(nodes) for j in range(1, 12))
                               for fn, its in pr.files.items() for it in its)
            if r.get("exc") == "NotADirectoryError" and through_file:
                return f
            continue
        if m.get("normalize") == "deferred-diagnostic":
            r, fr = row["real"], row["flat_real"]
            if not fr or r["ok"] or fr["ok"] or "was never defined" not in r.get("msg", "") or result_key(r) != result_key(fr):
                continue
            return f
    return None


def fs_stats(rows) -> dict:
    """strengthening round 3: what the file-sensitive statements really exercised"""
    fs = [r for r in rows if r["project"].tag.startswith("fs-")]
    pos = {"before-import": 0, "after-import": 0, "between-imports": 0}
    late = 0
    for r in fs:
        pr = r["project"]
        lens = {f: pr.file_text(its).count("\n") for f, its in pr.files.items()}
        lay = pr.layout()
        for f, its in pr.files.items():
            for j, it in enumerate(its):
                if it[0] == "load" and it[2] in WATCHED_KINDS | {"pyf"} | set(BAD_KINDS):
                    nxt = j + 1 < len(its) and its[j + 1][0] in ("import", "wild")
                    prv = j > 0 and its[j - 1][0] in ("import", "wild")
                    pos["before-import"] += bool(nxt)
                    pos["after-import"] += bool(prv)
                    pos["between-imports"] += bool(nxt and prv)
                    if nxt and its[j + 1][0] == "import":
                        t = spec_target(tup(f), its[j + 1][1])
                        tf = "/".join(t[1:])
                        late += bool(tf in lens and lay[it[1]][1] > lens[tf])
    return dict(projects=len(fs), by_tag={t: sum(1 for r in fs if re.sub(r"\d+$", "", r["project"].tag) == t)
                                          for t in sorted({re.sub(r"\d+$", "", r["project"].tag) for r in fs})},
                watched_statements_observed=sum(len(r["obs"][4]) for r in fs if r["obs"][0] == "ok"),
                watched_files_distinct=len({(r["project"].tag, p) for r in fs if r["obs"][0] == "ok" for p in r["obs"][5]}),
                python_file_statements=sum(len(r["project"].ids_of({"pyf"})) for r in fs),
                diagnosed_failing_statement={k: sum(1 for r in fs if r["obs"][0] == "bad" and k in r["project"].kinds()) for k in BAD_KINDS},
                diagnosed_in_imported_file=sum(1 for r in fs if r["obs"][0] == "bad" and r["obs"][2] != r["project"].main_id()),
                statements_next_to_an_import=pos, statements_before_import_of_shorter_file_than_their_line=late,
                outcomes={k: sum(1 for r in fs if r["obs"][0] == k) for k in sorted({r["obs"][0] for r in fs})})


def names_stats(rows) -> dict:
    """strengthening round 4: what the name / spelling space really exercised"""
    nm = [r for r in rows if r["project"].tag.startswith("names-")]
    strings = {}
    for r in rows:
        for its in r["project"].files.values():
            for it in its:
                if it[0] in ("import", "wild"):
                    strings[it[1]] = strings.get(it[1], 0) + 1

    def n(pred):
        return sum(1 for s in strings if pred(s))
    read = lambda r: set(r["real"].get("opens", []))   # noqa
    return dict(projects=len(nm), by_tag={t: sum(1 for r in nm if r["project"].tag == t) for t in sorted({r["project"].tag for r in nm})},
                outcomes={k: sum(1 for r in nm if r["obs"][0] + "/" + r["spec"][0] == k) for k in sorted({r["obs"][0] + "/" + r["spec"][0] for r in nm})},
                distinct_import_strings_all_streams=len(strings),
                strings=dict(wildcard_slash=n(lambda s: s.endswith("/*")), wildcard_backslash=n(lambda s: s.endswith("\\*")),
                             named_with_backslash=n(lambda s: "\\" in s and not is_wild(s)), with_dotdot=n(lambda s: ".." in s.split("/")),
                             doubled_slash=n(lambda s: "//" in s), trailing_slash_or_dot=n(lambda s: not is_wild(s) and (s.endswith("/") or s.endswith("/."))),
                             absolute=n(lambda s: s.startswith("{ROOT}")), named_without_suffix=n(lambda s: not is_wild(s) and not s.rstrip("/.").endswith(".jmc"))),
                projects_with_same_stem_file_and_folder=sum(1 for r in rows if any(f[:-4] + "/" in g for f in r["project"].files for g in r["project"].files if g != f)),
                projects_with_a_folder_called_x_jmc=sum(1 for r in rows if any(k == "d" and nn[-1].endswith(".jmc") for nn, k in r["nodes"])),
                bystander_jmc_files_not_read=sum(len([f for f in r["project"].files if f not in read(r)]) for r in nm if r["real"]["ok"]),
                lookalike_files_present=sum(len(r["project"].extra) for r in nm),
                wildcard_refused_by_the_walk=sum(1 for r in nm for f, its in r["project"].files.items() for it in its
                                                 if it[0] == "wild" and not spec_walk_ok(tup(f), it[1], r["listing"]) and r["listing"].get(spec_dir(tup(f), it[1])) is not None))


def main(tier: str) -> int:
    ck = Check(PROP, tier)
    ck.cov["trusted_base"] = COMMON_TRUSTED + [
        "Model/Import.v is a hand-written port of Lexer.parse_file (lexer.py:173-286) incl. pathlib's parent / join / resolve / suffix "
        "on component lists (no symbolic links); tied to the code by predicting, per generated project, processing order, files opened and diagnostic",
        "definitions and load statements are opaque items: that FuncContent parses a load batch independently of where the batch is cut "
        "is not modelled (hypothesis of C17_outputs_equal); it is exercised by the metamorphic comparison of real file maps only",
        "harness/c17.py spec_flatten: independent Python implementation of the specification, cross-checked against Coq `flatten`",
        "directory listing order of `import \"dir/*\"` is taken from the real file system (parameter `dirs` of the model)",
        "file-sensitive load statements (round 3): the model says which file's tokenizer parses a batch (EvBatch tok l, C17_load_batch_file); what a "
        "tokenizer's file is used for (diagnostics, Debug.watch source line, JMC.pythonFile folder) is not modelled - observed on the real output: printed "
        "file names are mapped back to files by harness/c17.py printed_file, item lines by Project.layout",
        "import strings (round 4): Model/ImportPath.v lower_import / split_slash / strip_wild is a hand-written port of the string tests of the import "
        "branch (endswith '/*' or '\\*', [:-2], string + '.jmc'); POSIX pathlib only ('/' the only separator; a string starting with exactly two slashes "
        "and symbolic links are outside the model); `folder.is_dir()` = every name walked through is a folder of the tree (walk_ok); the directory tree "
        "and the Path.glob listings are taken from the real file system (c17_run.py survey) and checked against each other by listing_okb in every case; "
        "that Path.glob('**/*.jmc') lists every .jmc below a folder is thereby checked on the generated trees, not proved about CPython",
        "the model is a function of the source tree alone (no state between compiles): that the CODE keeps nothing between compiles of an edited "
        "folder is checked by the edit sequences (c17_run.py sync_tree edits one folder in place, every state compiled in one process)",
    ]
    ck.proof(extra_targets=["Run/C17.vo"])
    rng = ck.rng
    projects = (gen_adversarial(rng) + gen_exhaustive(rng, tier) + gen_random(rng, 150 if tier == "quick" else 1500)
                + gen_filesens(rng, tier) + gen_names(rng, tier))
    only = os.environ.get("C17_ONLY")               # dev aid: C17_ONLY=names -> only the projects whose tag starts with it, no edit sequences
    if only:
        projects = [p for p in projects if p.tag.startswith(only)]
    rows = evaluate(projects)

    # ---- 0. edit sequences (strengthening round 2): every state of a project folder compiled in turn in ONE process; each state is a row
    #         like any other project (property on the real compiler, model prediction, Coq flatten), its real result being the in-process one
    seqs = gen_sequences(rng, tier) if not only else []
    seq_res = run_sequences(seqs)
    seq_rows = evaluate([p for _, steps in seqs for p in steps], [r for rs in seq_res for r in rs])
    k = 0
    for si, (tag, steps) in enumerate(seqs):
        for st in range(len(steps)):
            seq_rows[k]["seq"] = (si, st)
            k += 1
    # control: the same state compiled in a FRESH process (another temporary folder); same directory listing => same result
    ctl_idx = [i for i, r in enumerate(seq_rows) if r["seq"][1] > 0]
    ctl_res = run_jobs([seq_rows[i]["project"].job() for i in ctl_idx], chunk=1 if tier == "thorough" else 4)
    n_ctl = n_ctl_listing_differs = 0
    reported_seq = set()

    def seq_violation(row, failure, kind):
        """a failing state of an edit sequence: shortest history (one earlier state if possible), replayable"""
        si, st = row["seq"]
        tag, steps = seqs[si]
        alone = evaluate([steps[st]])[0]
        if property_failure(alone):
            return None                                 # fails in a fresh process as well: an ordinary project failure (reported below)
        hist = steps[:st]
        for j in range(st - 1, -1, -1):
            rr = run_sequences([(tag, [steps[j], steps[st]])])[0]
            r2 = evaluate([steps[st]], [rr[1]])[0]
            if property_failure(r2) or result_key(rr[1]) != result_key(alone["real"]):
                hist = [steps[j]]
                break
        ck.violation(dict(kind=kind, edit=tag, history=[h.to_json() for h in hist], project=steps[st].to_json(),
                          flattened=flat_texts(row["spec"][1]) if row["spec"][0] == "ok" else row["spec"],
                          failure=failure, fresh_process=summary(alone["real"]),
                          what="compiled after the earlier states of the same folder in ONE process, the project no longer compiles to the "
                               "flattened single file of the project as it is now (a fresh process does)"))
        return True

    for i, cr in zip(ctl_idx, ctl_res):
        row = seq_rows[i]
        n_ctl += 1
        if cr["globs"] != row["real"]["globs"]:
            n_ctl_listing_differs += 1                  # the OS lists the folder in another order: the results may differ legitimately
            continue
        if result_key(cr) != result_key(row["real"]) and not property_failure(row) and len(reported_seq) < 2:
            key = ("ctl", seqs[row["seq"][0]][0])
            if key not in reported_seq:
                reported_seq.add(key)
                seq_violation(row, dict(expected=summary(cr), actual=summary(row["real"]), what="result differs from the fresh-process result"),
                              "import-result-depends-on-earlier-compiles")
    rows = rows + seq_rows

    # ---- 1. the property on the real compiler
    n_fail = 0
    reported = set()
    for row in rows:
        f = property_failure(row)
        row["fail"] = f
        if not f:
            continue
        n_fail += 1
        pr = row["project"]
        kf = known_class(row)
        if kf:
            ck.known(kf["id"], kf["what"])
            continue
        if row.get("seq") and row["seq"][1] > 0:
            key = ("seq", seqs[row["seq"][0]][0], f["what"])
            if key in reported_seq or len(reported_seq) >= 4:
                continue
            if seq_violation(row, f, "import-split-changes-output-after-edits"):
                reported_seq.add(key)
                continue
        key = (f["what"], str(f["actual"])[:60] if isinstance(f["actual"], str) else "files")
        if key in reported or len(reported) >= 4:
            continue
        reported.add(key)
        small = shrink(pr, lambda r: property_failure(r) is not None) if tier == "thorough" or len(reported) <= 2 else pr
        srow = evaluate([small])[0]
        sf = property_failure(srow) or f
        ck.violation(dict(kind="import-split-changes-output", project=small.to_json(),
                          flattened=flat_texts(srow["spec"][1]) if srow["spec"][0] == "ok" else srow["spec"],
                          failure=sf, n_failing_projects=sum(1 for r in rows if r.get("fail") or property_failure(r))))

    # ---- 2. correspondence model <-> code, and Coq flatten <-> harness flatten
    terms, specs = [], []
    for row in rows:
        pr = row["project"]
        obs = observe(row["real"], alloc_ids(pr), pr)
        row["obs"] = obs
        terms.append(coq_case(pr, row["listing"], obs, os.environ.get("C17_MODEL_MODE", "Repaired"), row["nodes"]))
        sp = row["spec"]
        specs.append("(Some " + coq_list(cid(i[1]) for i in sp[1]) + ")" if sp[0] == "ok" else "None")
    bad, bad2, errs = eval_both(terms, specs)
    for e in errs:
        ck.violation(dict(kind="correspondence-file-failed", log=e), no_input=True)
    silent = [i for i in bad if not rows[i]["fail"]]
    if silent:
        ck.violation(dict(kind="correspondence-differs",
                          theorem="C17_import_flatten no longer speaks about the code (Model/Import.v, mode Repaired, mispredicts the real parse)",
                          cases=[dict(project=rows[i]["project"].to_json(), real_observation=rows[i]["obs"],
                                      **(dict(history=[h.to_json() for h in seqs[rows[i]["seq"][0]][1][:rows[i]["seq"][1]]]) if rows[i].get("seq") else {}))
                                 for i in silent[:3]],
                          n_differing=len(silent)), no_input=True)
    if bad2:
        ck.violation(dict(kind="spec-differs", what="Coq `flatten` disagrees with the harness' flattening",
                          cases=[rows[i]["project"].to_json() for i in bad2[:3]]), no_input=True)

    kinds = {}
    for row in rows:
        k = row["obs"][0] + "/" + row["spec"][0]
        kinds[k] = kinds.get(k, 0) + 1
    shape = {}
    for row in rows:
        pr = row["project"]
        nimp = sum(1 for its in pr.files.values() for i in its if i[0] in ("import", "wild"))
        key = f"files={len(pr.files)},imports={min(nimp, 9)}"
        shape[key] = shape.get(key, 0) + 1
    distinct = len({json.dumps(r["project"].to_json(), sort_keys=True) for r in rows
                    if sum(1 for its in r["project"].files.values() for i in its if i[0] in ("import", "wild")) > 0})
    cyc = sum(1 for r in rows if any(i[0] == "import" and spec_target(tup(f), i[1]) == r["project"].main_id()
                                     for f, its in r["project"].files.items() for i in its))
    ck.cov.update(dict(
        evaluations=len(rows) * 3, distinct_nontrivial=distinct, programs=len(rows),
        rule="a case = one project on disk (1-7 files, import graph, spelling of main path, cwd): real compile of the project vs real compile of "
             "the harness-flattened file (file maps equal), model prediction of order/opens/diagnostic, Coq flatten vs harness flatten; "
             "distinct_nontrivial = distinct projects with at least one import",
        samples=[dict(project=rows[i]["project"].to_json(), observation=rows[i]["obs"][:3]) for i in (0, len(rows) // 2, len(rows) - 1)],
        disagreements_checked=len(bad) + len(bad2), property_failures=n_fail,
        outcome_histogram=kinds, shape_histogram=shape, projects_with_import_of_main=cyc,
        main_spellings=[f"cwd={c} target={t}" for c, t in MAIN_SPELLINGS],
        file_sensitive=fs_stats(rows),
        name_and_spelling_space=names_stats(rows),
        edit_sequences=dict(sequences=len(seqs), states=len(seq_rows), by_edit={t: sum(1 for tt, _ in seqs if tt == t) for t in sorted({tt for tt, _ in seqs})},
                            states_after_an_edit=len(ctl_idx), fresh_process_controls=n_ctl, controls_with_other_directory_order=n_ctl_listing_differs,
                            states_with_wildcard=sum(1 for r in seq_rows if wild_dirs_of(r["project"])),
                            outcome_histogram={k2: sum(1 for r in seq_rows if r["obs"][0] + "/" + r["spec"][0] == k2)
                                               for k2 in sorted({r["obs"][0] + "/" + r["spec"][0] for r in seq_rows})}),
    ))
    return ck.finish()


def replay(path: str) -> int:
    o = json.load(open(path))
    pr = Project.from_json(o["project"])
    if o.get("history"):
        hist = [Project.from_json(h) for h in o["history"]]
        rr = run_sequences([("replay", hist + [pr])])[0]
        row = evaluate([pr], [rr[-1]])[0]
        alone = evaluate([pr])[0]
        print("earlier states of the folder, compiled in the same process:", len(hist))
        for h in hist:
            print("  files:", sorted(h.files))
        print("fresh-process result:", "same" if result_key(alone["real"]) == result_key(row["real"]) else json.dumps(summary(alone["real"]), indent=1))
    else:
        row = evaluate([pr])[0]
    f = property_failure(row)
    print("project:", json.dumps(pr.to_json(), indent=1))
    print("flattened:", row["spec"][0], flat_texts(row["spec"][1]) if row["spec"][0] == "ok" else row["spec"][1])
    print("expected (flattened file):", json.dumps(summary(row["flat_real"]), indent=1))
    print("actual (project):", json.dumps(summary(row["real"]), indent=1))
    print("FAILS" if f else "holds", f["what"] if f else "")
    return 1 if f else 0
