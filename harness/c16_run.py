"""Runner of C16's own probes (executed with the repo's interpreter, PYTHONPATH=<repo>/src).  stdin/stdout: JSON.

op = "probe" : which optional repairs does this tree have?  Decided by BEHAVIOUR, never by names:
               nested_body_fix - `#define S @e` / `#define NEAR S [tag=a]`: the bracket of NEAR's expansion is NOT
               connected to `@e` (fixes/C16-macro-in-macro-body-adjacency.patch).
op = "body"  : jobs = [{num: [[name, value], ..] (insertion order), body: text}] -> the text the callers' loop
                   while (p := s.find("Hardcode.calc")) != -1: s = hardcode_parse_calc(p, s, token, tokenizer)
               ends with, the evaluator replaced by a marker `<text it received>`;
               {"ok": True, "text": ..} | {"ok": False, "exc": .., "msg": ..}.
"""
import json
import os
import signal
import sys


class _Timeout(BaseException):
    pass


def _alarm(signum, frame):
    raise _Timeout()


def _tokenizer(text):
    from jmc.compile.tokenizer import Tokenizer
    t = Tokenizer.__new__(Tokenizer)
    t.macro_factory = None
    t.allow_semicolon = False
    t.raw_string = t.file_string = text
    t.file_path = "main.jmc"
    return t


def op_probe(req):
    from jmc.compile.header import Header
    from jmc.compile.test_compile import JMCTestPack
    from jmc.compile.compiling import read_header
    from jmc.compile.utils import is_connected
    out = {}
    try:
        Header.clear()
        read_header(JMCTestPack().config, _test_file="#define S @e\n#define NEAR S [tag=a]")
        t = _tokenizer("NEAR")
        toks = t.parse("NEAR", line=1, col=1, expect_semicolon=False)[0]
        out["nested_body_fix"] = len(toks) == 2 and not is_connected(toks[1], toks[0])
    except BaseException as e:  # noqa
        out["nested_body_fix"] = False
        out["nested_body_probe_error"] = type(e).__name__
    finally:
        Header.clear()
    return out


def op_body(req):
    from jmc.compile.header import Header
    from jmc.compile.tokenizer import Token, TokenType
    import jmc.compile.command.utils as CU
    orig = CU.eval_expr
    CU.eval_expr = lambda expr: "<" + expr + ">"
    res = []
    try:
        for j in req["jobs"]:
            Header.clear()
            Header().number_macros = {k: v for k, v in j["num"]}
            s = j["body"]
            t = _tokenizer(s)
            tok = Token(TokenType.KEYWORD, 1, 1, "Hardcode.repeat")
            signal.alarm(10)
            try:
                steps = 0
                while True:
                    p = s.find("Hardcode.calc")
                    if p == -1:
                        break
                    s = CU.hardcode_parse_calc(p, s, tok, t)
                    steps += 1
                    if steps > 200:
                        raise _Timeout()
                res.append({"ok": True, "text": s})
            except _Timeout:
                res.append({"ok": False, "exc": "Timeout", "msg": ""})
            except BaseException as e:  # noqa
                signal.alarm(0)
                res.append({"ok": False, "exc": type(e).__name__, "msg": str(e)[:200]})
            finally:
                signal.alarm(0)
    finally:
        CU.eval_expr = orig
        Header.clear()
    return res


def main():
    import logging
    logging.disable(logging.CRITICAL)
    signal.signal(signal.SIGALRM, _alarm)
    req = json.load(sys.stdin)
    real_stdout = sys.stdout
    sys.stdout = open(os.devnull, "w")
    out = {"probe": op_probe, "body": op_body}[req["op"]](req)
    sys.stdout = real_stdout
    json.dump(out, sys.stdout)


if __name__ == "__main__":
    main()
