"""Seeded-change tooling (not part of any registered check).

  seedtool.py confirm <dir>            confirm a candidate seeded change: demo passes on the clean tree, the pinned
                                       suite still passes with the patch, demo fails with the patch.  Prints JSON.
  seedtool.py run <PROP> <dir> [tier]  run ./check PROP against a scratch worktree with <dir>/patch.diff applied
                                       (JMC_REPO=<worktree>); prints whether a VIOLATION was reported.
<dir> contains patch.diff and demo.py (demo.py <tree> exits 0 = property holds).
Worktrees are created under /tmp and removed afterwards.
"""
import json
import os
import re
import subprocess
import sys
import tempfile

VERIF = os.path.dirname(os.path.dirname(os.path.abspath(__file__)))
BASE = json.load(open("/root/.vp/BASELINE.json"))


def sh(cmd, cwd=None, timeout=1800, env=None):
    p = subprocess.run(cmd, shell=True, cwd=cwd, stdout=subprocess.PIPE, stderr=subprocess.STDOUT, timeout=timeout, env=env)
    return p.returncode, p.stdout.decode(errors="replace")


def worktree():
    d = tempfile.mkdtemp(prefix="seedwt_", dir="/tmp")
    os.rmdir(d)
    rc, out = sh(f"git -C /repo worktree add -q --detach {d} HEAD")
    assert rc == 0, out
    return d


def drop(d):
    sh(f"git -C /repo worktree remove --force {d}")
    sh(f"rm -rf {d}")


def suite(tree):
    junit = tempfile.mktemp(suffix=".xml")
    rc, out = sh(f"/venv/bin/python -m pytest -q -p no:cacheprovider --timeout=900 --continue-on-collection-errors --junitxml={junit}", cwd=tree)
    import xml.etree.ElementTree as ET
    passed = set()
    try:
        for tc in ET.parse(junit).getroot().iter("testcase"):
            if not list(tc):
                passed.add(f"{tc.get('classname')}::{tc.get('name')}")
    finally:
        if os.path.exists(junit):
            os.unlink(junit)
    passed |= {"src." + t for t in passed}
    missing = [t for t in BASE["stable_pass"] if t not in passed]
    return missing, out[-600:]


def demo(tree, d):
    env = dict(os.environ, PYTHONHASHSEED="0", PYTHONDONTWRITEBYTECODE="1")
    try:
        rc, out = sh(f"/venv/bin/python {d}/demo.py {tree}", cwd=tree, timeout=600, env=env)
    except subprocess.TimeoutExpired:
        return 124, "timeout"
    return rc, out[-1500:]


def apply(tree, d):
    rc, out = sh(f"git apply --whitespace=nowarn {d}/patch.diff", cwd=tree)
    if rc != 0:
        rc, out = sh(f"git apply -3 --whitespace=nowarn {d}/patch.diff", cwd=tree)
    return rc, out


def adopt(prop, src, name):
    """confirm <src>; if confirmed copy to /verif/seeded/<prop>-<name>/ with meta.json"""
    import shutil, io, contextlib
    buf = io.StringIO()
    with contextlib.redirect_stdout(buf):
        rc = confirm(src)
    res = json.loads(buf.getvalue())
    print(json.dumps({k: (res[k][:4] if isinstance(res[k], list) else res[k]) for k in res if k in ("confirmed", "demo_clean_rc", "demo_patched_rc", "suite_missing", "apply_rc")}))
    if rc != 0:
        return 1
    dst = os.path.join(os.environ.get("SEED_STAGE", "/root/seeded_stage"), f"{prop}-{name}")
    os.makedirs(dst, exist_ok=True)
    for f in ("patch.diff", "demo.py", "notes.md"):
        if os.path.exists(os.path.join(src, f)):
            shutil.copy(os.path.join(src, f), os.path.join(dst, f))
    rc_, head = sh("git -C /repo rev-parse --short HEAD")
    meta = {"property": prop, "id": f"{prop}-{name}", "origin": "independent sub-agent given only the property text",
            "base_commit": head.strip(),
            "confirmed": {"demo_passes_on_clean_tree": True, "pinned_suite_passes_with_patch": True,
                          "demo_fails_with_patch": True, "demo_patched_rc": res["demo_patched_rc"]},
            "ran": ["harness/seedtool.py confirm (fresh worktree: demo clean, git apply, pytest src/tests vs BASELINE stable_pass, demo patched)"],
            "needs_to_manifest": "see notes.md", "detected_by": None}
    json.dump(meta, open(os.path.join(dst, "meta.json"), "w"), indent=1)
    return 0


def confirm(d):
    d = os.path.abspath(d)
    t = worktree()
    res = {}
    try:
        rc0, out0 = demo(t, d)
        res["demo_clean_rc"] = rc0
        rc, out = apply(t, d)
        res["apply_rc"] = rc
        if rc != 0:
            res["apply_out"] = out[-800:]
        else:
            missing, tail = suite(t)
            res["suite_missing"] = missing
            rc1, out1 = demo(t, d)
            res["demo_patched_rc"] = rc1
            res["demo_patched_out"] = out1[-600:]
        res["confirmed"] = (rc0 == 0 and res.get("apply_rc") == 0 and not res.get("suite_missing") and res.get("demo_patched_rc", 0) not in (0, 124))
        if rc0 != 0:
            res["demo_clean_out"] = out0[-600:]
    finally:
        drop(t)
    print(json.dumps(res, indent=1))
    return 0 if res.get("confirmed") else 1


def run(prop, d, tier="quick"):
    d = os.path.abspath(d)
    t = worktree()
    try:
        rc, out = apply(t, d)
        if rc != 0:
            print(json.dumps({"apply_rc": rc, "out": out[-800:]}))
            return 2
        tag = os.path.basename(t)
        env = dict(os.environ, JMC_REPO=t, VERIF_RUN_TAG=tag, VERIF_EVIDENCE_DIR=f"/tmp/{tag}_ev", VERIF_REPLAY_DIR=f"/tmp/{tag}_rp")
        rc, out = sh(f"./check {prop} --tier {tier}", cwd=VERIF, timeout=3600, env=env)
        viol = re.findall(r"^VIOLATION .*$", out, re.M)
        sh(f"rm -rf {VERIF}/coq/Gen/{tag} /tmp/{tag}_ev")
        print(json.dumps({"check_rc": rc, "violations": viol[:5], "n_violations": len(viol), "tail": out[-500:]}, indent=1))
        mp = os.path.join(d, "meta.json")
        if os.path.exists(mp):
            meta = json.load(open(mp))
            meta["detected_by"] = {"check": f"./check {prop} --tier {tier}", "detected": bool(rc == 1 and viol),
                                   "violation_lines": viol[:3]}
            json.dump(meta, open(mp, "w"), indent=1)
        return 0 if (rc == 1 and viol) else 1
    finally:
        drop(t)


if __name__ == "__main__":
    if sys.argv[1] == "confirm":
        sys.exit(confirm(sys.argv[2]))
    elif sys.argv[1] == "adopt":
        sys.exit(adopt(*sys.argv[2:]))
    elif sys.argv[1] == "run":
        sys.exit(run(*sys.argv[2:]))
