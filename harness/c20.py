"""C20 — Math.sqrt and Math.random meet their numeric contracts for every input.

Proof step (Props/C20.v) + regenerated tie (probe calls compiled by the real compiler, every
emitted function translated fail-closed into MC.Syntax terms, Coq decides `emitted = model` and
`print emitted = text`) + search for failing inputs on the real emitted text (mcvm).
Strengthening round 1: sequence packs (functions holding 2-4 calls with other statements, function calls, execute-wrapped
calls, if / while blocks in between; class methods; statements outside any function): the text of every function and
block must be the concatenation of the model's text of each item, and the whole function is run in mcvm.
Triage round (argument spellings): the probes enumerate how the arguments can be written (STYLES: positional, keyword in both
orders, positional min + keyword max, `min=` only, `max=` only, one positional, none; literals plain / sign as a separate token /
leading zeros / through a `#define` macro of the header) over a matrix of operand-kind combinations inside the quantifier, inline
and execute-wrapped.  The model term does not depend on the spelling: every spelling must give the model's text (Coq) and all
spellings of one call the same text (python, replay kind `spelling-differs`).  Constant ranges wider than 2^31-1 values are outside
the property's quantifier: nothing is asserted, what the tree does is recorded (`outside_quantifier_probes`).
Identical (model term, emitted text) cases are evaluated once; the case file is sharded (coq/Gen/C20/MathEmitted_<k>.v).
"""
from __future__ import annotations

import json
import math
import re
import subprocess
from concurrent.futures import ProcessPoolExecutor

from lib import (COQ, Check, COMMON_TRUSTED, INT_MAX, INT_MIN, NCPU, REPO, compile_batch, coq_list, coq_str, coq_z,
                 eval_strings, functions_of, parse_nat_list, run_coq_files)
from mcvm import VM, Invalid, OutOfFuel
from c20_translate import Untranslatable, parse_function
import c20_ctx

PROP = "C20"

CERTS = [
    dict(LOAD="__load__", TICK="__tick__", PRIVATE="__private__", VAR="__variable__", INT="__int__", STORAGE="__storage__"),
    dict(LOAD="init", TICK="loop", PRIVATE="priv", VAR="v", INT="i", STORAGE="stor"),
]
NAMESPACES = ["TEST", "pk2"]

SQRT_SCRATCH = ["__math__.x", "__math__.x_n", "__main__.x_n_sq", "__math__.N", "__math__.different"]
RAND_SCRATCH = ["__math__.seed", "__math__.rng.result", "__math__.rng.a", "__math__.rng.c", "__math__.rng.bound",
                "__math__.tmp"]


def cert_text(c):
    return "\n".join(f"{k}={v}" for k, v in c.items())


def names_term(ci):
    c = CERTS[ci]
    return (f'(mkNames {coq_str(NAMESPACES[ci])} {coq_str(c["VAR"])} {coq_str(c["INT"])} {coq_str(c["PRIVATE"])} '
            f'{coq_str(c["LOAD"])} {coq_str(c["TICK"])} {coq_str(c["STORAGE"])})')


def score_of(src: str, cert):
    if src.startswith("$"):
        return (src, cert["VAR"])
    obj, sel = src.split(":", 1)
    return (sel, obj)


def score_term(s):
    return f"({coq_str(s[0])}, {coq_str(s[1])})"


# ------------------------------------------------------------------ probes

def opnd(kind, v=None):
    return (kind, v)


# Spellings of the argument list.  The model term `random_code nm ex target lo hi` (effective defaults 1 / 2147483647) does not
# depend on how the arguments are written, so every spelling of the same call must give the same text.
#   layout : pos `lo, hi` | kw `min=lo, max=hi` | kwrev `max=hi, min=lo` | mixed `lo, max=hi`
#            | minonly `min=lo` (max = 2147483647) | maxonly `max=hi` (min = 1) | pos1 `lo` (max = 2147483647) | empty `` (1, 2147483647)
#   literal: plain `-5` | blank `- 5` / `+ 5` (the sign is a token of its own) | zeros `-005` / `005` | macro (`#define KN5 -5` in the header)
STYLES = {
    "pos": ("pos", "plain"), "kw": ("kw", "plain"), "kwrev": ("kwrev", "plain"), "mixed": ("mixed", "plain"),
    "minonly": ("minonly", "plain"), "maxonly": ("maxonly", "plain"), "pos1": ("pos1", "plain"), "empty": ("empty", "plain"),
    "blank": ("pos", "blank"), "kwblank": ("kwrev", "blank"), "zeros": ("pos", "zeros"), "kwzeros": ("kw", "zeros"),
    "macro": ("pos", "macro"), "macrokw": ("kwrev", "macro"), "mixedmacro": ("mixed", "macro"),
    "minonlyblank": ("minonly", "blank"), "maxonlymacro": ("maxonly", "macro"), "pos1zeros": ("pos1", "zeros"),
}


def macro_name(z):
    return f"KN{-z}" if z < 0 else f"KP{z}"


def lit_text(z, lstyle):
    if lstyle == "blank":
        return f"- {-z}" if z < 0 else f"+ {z}"
    if lstyle == "zeros":
        return f"-00{-z}" if z < 0 else f"00{z}"
    if lstyle == "macro":
        return macro_name(z)
    return str(z)


def style_applies(style, lo, hi):
    """lo, hi: effective operands (no defaults).  A literal form needs a literal it spells; the short layouts need the default value."""
    layout, lstyle = STYLES[style]
    if layout in ("minonly", "pos1", "empty") and hi != ("lit", INT_MAX):
        return False
    if layout in ("maxonly", "empty") and lo != ("lit", 1):
        return False
    shown = ([lo] if layout not in ("maxonly", "empty") else []) + ([hi] if layout in ("pos", "kw", "kwrev", "mixed", "maxonly") else [])
    if lstyle != "plain" and not any(o[0] == "lit" for o in shown):
        return False
    return True


def random_args_text(p):
    """source text of the argument list; `style` chooses the spelling (layout x literal form); operands may be ("default", None)
    with the styles pos / kw (they are then simply left out)"""
    lo, hi, style = tuple(p["lo"]), tuple(p["hi"]), p.get("style", "pos")
    layout, lstyle = STYLES[style]
    def txt(o):
        return lit_text(o[1], lstyle) if o[0] == "lit" else str(o[1])
    if lo[0] == "default" or hi[0] == "default":
        assert lstyle == "plain" and layout in ("pos", "kw")
        if layout == "pos":
            assert hi[0] == "default"
            return "" if lo[0] == "default" else txt(lo)
        return ", ".join(([f"min={txt(lo)}"] if lo[0] != "default" else []) + ([f"max={txt(hi)}"] if hi[0] != "default" else []))
    assert style_applies(style, lo, hi), (style, lo, hi)
    return {"pos": f"{txt(lo)}, {txt(hi)}", "kw": f"min={txt(lo)}, max={txt(hi)}", "kwrev": f"max={txt(hi)}, min={txt(lo)}",
            "mixed": f"{txt(lo)}, max={txt(hi)}", "minonly": f"min={txt(lo)}", "maxonly": f"max={txt(hi)}", "pos1": txt(lo),
            "empty": ""}[layout]


def probe_header(p):
    """the `#define` lines the probe's spelling needs (macro forms), as a set"""
    if p["kind"] != "random" or STYLES[p.get("style", "pos")][1] != "macro":
        return set()
    return {f"#define {macro_name(o[1])} {o[1]}" for o in (p["lo"], p["hi"]) if o[0] == "lit"}


def items_header(items):
    out = set()
    for it in items:
        if it[0] == "call":
            out |= probe_header(it[1])
        elif it[0] in ("if", "while"):
            out |= items_header(it[3])
    return out


def with_header(job, defs):
    if defs:
        job["header"] = "\n".join(sorted(defs)) + "\n"
    return job


def probe_stmt(p, cert):
    pre = f"execute if score $q {cert['VAR']} matches 1..5 run " if p["wrapped"] else ""
    if p["kind"] == "sqrt":
        return f"{pre}{p['target']} = Math.sqrt({p['arg']});"
    return f"{pre}{p['target']} = Math.random({random_args_text(p)});"


def matrix_combos(tier):
    """representative operand combinations inside the property's quantifier (1 <= max-min+1 <= 2^31-1); EVERY applicable
    spelling is applied to each of them, inline and execute-wrapped"""
    L = lambda z: ("lit", z)
    S = lambda s: ("score", s)
    C = [  # const / const: INT_MIN..INT_MIN+k, INT_MAX-k..INT_MAX, negative, the defaults, the widest ranges
        (L(INT_MIN), L(INT_MIN)), (L(INT_MIN), L(INT_MIN + 3)), (L(INT_MIN), L(-2)), (L(INT_MIN + 1), L(-1)),
        (L(INT_MAX - 3), L(INT_MAX)), (L(INT_MAX), L(INT_MAX)), (L(1), L(INT_MAX)), (L(3), L(INT_MAX)), (L(1), L(10)),
        (L(-9), L(-4)), (L(-5), L(9)), (L(0), L(0)), (L(0), L(INT_MAX - 1)),
        # var / const
        (S("$lo"), L(9)), (S("$lo"), L(-3)), (S("$lo"), L(INT_MAX)), (S("$lo"), L(INT_MIN + 2)), (S("$lo"), L(INT_MAX - 1)),
        (S("obj:@s"), L(0)),
        # const / var (INT_MIN and INT_MIN+1: the wrapped `-min+1` literal and the __int__ constant)
        (L(INT_MIN), S("$hi")), (L(INT_MIN + 1), S("$hi")), (L(-7), S("$hi")), (L(1), S("$hi")), (L(0), S("$hi")),
        (L(INT_MAX), S("$hi")), (L(7), S("obj2:@p")),
        # var / var (also the target as an operand)
        (S("$lo"), S("$hi")), (S("obj:@p"), S("obj2:@r")), (S("$a"), S("$hi")),
    ]
    if tier == "quick":
        return C
    return C + [(L(INT_MIN + 8), L(INT_MIN + 8)), (L(INT_MAX - 1), L(INT_MAX)), (L(2), L(INT_MAX)), (L(-1), L(INT_MAX - 2)),
                (L(-2147483647), L(-2147483647)), (S("$lo"), L(0)), (S("$lo"), L(INT_MIN)), (S("$a"), L(INT_MAX)),
                (L(-1), S("$hi")), (L(INT_MAX - 1), S("$hi")), (L(-2147483647), S("$a")), (S("$lo"), S("$a"))]


def gen_probes(rng, tier):
    P = []
    def sq(target, arg, wrapped=False):
        P.append(dict(kind="sqrt", target=target, arg=arg, wrapped=wrapped))
    def rn(target, lo, hi, wrapped=False, style="pos"):
        P.append(dict(kind="random", target=target, lo=lo, hi=hi, wrapped=wrapped, style=style))
    L = lambda z: ("lit", z)
    S = lambda s: ("score", s)
    D = ("default", None)
    sq("$r", "$n"); sq("obj:@s", "obj2:@p"); sq("$n", "$n"); sq("$r", "$n", True); sq("obj:@s", "$n", True)
    # constants (incl. negative, single point, defaults, keyword forms)
    rn("$a", D, D); rn("$a", L(3), L(9)); rn("$a", L(-5), L(9)); rn("$a", L(-9), L(-4)); rn("$a", L(0), L(0))
    rn("$a", L(-7), L(-7)); rn("$a", L(INT_MIN), L(INT_MIN + 8)); rn("$a", L(INT_MAX - 3), L(INT_MAX))
    rn("$a", L(5), L(10), style="kw"); rn("$a", D, L(10), style="kw"); rn("$a", L(3), D)
    rn("$a", L(0), L(INT_MAX - 1)); rn("$a", L(INT_MIN + 1), L(-1))
    # variable min, constant max
    rn("$a", S("$lo"), L(9)); rn("$a", S("$lo"), L(-3)); rn("$a", S("$lo"), D); rn("$a", S("$lo"), L(INT_MAX), style="kw")
    rn("$a", S("obj:@s"), L(0)); rn("$a", S("$lo"), L(INT_MIN + 2)); rn("$a", S("$lo"), L(INT_MAX - 1))
    # constant min, variable max
    rn("$a", L(-7), S("$hi")); rn("$a", L(7), S("$hi")); rn("$a", L(0), S("$hi")); rn("$a", L(1), S("$hi"))
    rn("$a", D, S("$hi"), style="kw"); rn("$a", L(INT_MIN), S("$hi")); rn("$a", L(INT_MIN + 1), S("$hi"))
    rn("$a", L(INT_MAX), S("$hi")); rn("$a", L(2), S("obj2:@p"))
    # both variable
    rn("$a", S("$lo"), S("$hi")); rn("obj:@s", S("obj:@p"), S("obj2:@r")); rn("$a", S("$lo"), S("$lo"))
    # aliasing of the target with an operand
    rn("$a", S("$a"), L(10)); rn("$a", S("$a"), S("$hi")); rn("$a", L(-3), S("$a")); rn("$a", S("$lo"), S("$a"))
    rn("$a", S("$a"), S("$a")); rn("obj:@s", S("obj:@s"), L(5)); rn("$a", S("$a"), D)
    # inside execute
    rn("$a", L(3), L(9), True); rn("$a", S("$lo"), L(9), True); rn("$a", L(INT_MIN), S("$hi"), True)
    rn("$a", S("$a"), S("$hi"), True); rn("$a", L(-4), S("$hi"), True, style="kw")
    # random literals
    nrand = 8 if tier == "quick" else 60
    for _ in range(nrand):
        a = rng.choice([rng.randint(-50, 50), rng.randint(INT_MIN, INT_MAX), rng.randint(-100000, 100000)])
        span = rng.choice([0, 1, rng.randint(0, 20), rng.randint(0, 10**6), rng.randint(0, INT_MAX - 1)])
        b = a + span
        if b > INT_MAX:
            b = INT_MAX
        if b - a + 1 > INT_MAX:
            b = a + INT_MAX - 1
        rn("$a", L(a), L(b))
        k = rng.choice([rng.randint(-60, 60), rng.randint(INT_MIN, INT_MAX)])
        rn("$a", S("$lo"), L(k), wrapped=rng.random() < 0.2)
        rn("$a", L(k), S("$hi"), wrapped=rng.random() < 0.2)
    # spelling matrix: every applicable spelling x representative operand combinations x {inline, execute-wrapped}
    for lo, hi in matrix_combos(tier):
        for wrapped in (False, True):
            for style in STYLES:
                if style_applies(style, lo, hi):
                    P.append(dict(kind="random", target="$a", lo=lo, hi=hi, wrapped=wrapped, style=style, matrix=True))
    return P


ERROR_PROBES = [dict(kind="random", target="$a", lo=("lit", 5), hi=("lit", 3), wrapped=False, style="pos"),
                dict(kind="random", target="$a", lo=("lit", -3), hi=("lit", -4), wrapped=False, style="kw")] + \
               [dict(kind="random", target="$a", lo=("lit", a), hi=("lit", b), wrapped=w, style=st)
                for (a, b, w, st) in [(5, 3, False, "kwrev"), (5, 3, True, "mixed"), (-3, -4, False, "blank"), (-3, -4, False, "kwblank"),
                                      (9, -9, False, "zeros"), (INT_MIN + 1, INT_MIN, False, "macro"), (INT_MAX, INT_MAX - 1, True, "macrokw"),
                                      (2, 1, False, "kwzeros"),
                                      (INT_MIN + 1, INT_MIN, False, "pos")]] + \
               [dict(kind="random", target="$a", lo=("lit", 1), hi=("lit", 0), wrapped=False, style="maxonly"),     # max=0 < default min 1
                dict(kind="random", target="$a", lo=("lit", 1), hi=("lit", -5), wrapped=False, style="maxonlymacro")]


def opnd_term(o, cert):
    if o[0] == "default":
        raise AssertionError
    if o[0] == "lit":
        return f"(PLit {coq_z(o[1])})"
    return f"(PScore {score_term(score_of(o[1], cert))})"


def eff_lo(p):
    return ("lit", 1) if p["lo"][0] == "default" else p["lo"]


def eff_hi(p):
    return ("lit", INT_MAX) if p["hi"][0] == "default" else p["hi"]


def model_term(p, ci, count):
    cert = CERTS[ci]
    if p["wrapped"]:
        ex = (f'(Some ([MIf true (Matches {score_term(("$q", cert["VAR"]))} (Between {coq_z(1)} {coq_z(5)}))], '
              f'{coq_z(count)}))')
    else:
        ex = "None"
    t = score_term(score_of(p["target"], cert))
    if p["kind"] == "sqrt":
        return f"(Some (sqrt_code nm{ci} {ex} {t} {score_term(score_of(p['arg'], cert))}))"
    return f"(random_code nm{ci} {ex} {t} {opnd_term(eff_lo(p), cert)} {opnd_term(eff_hi(p), cert)})"


# ------------------------------------------------------------------ packs -> Coq cases

class DefReg:
    """names of the model terms: one `Definition En := get <term>.` per distinct term, shared by all packs, so that the case
    terms of identical (model, emitted text) pairs are identical strings and are evaluated once"""

    def __init__(self):
        self.names, self.lines = {}, {}

    def name(self, term):
        n = self.names.get(term)
        if n is None:
            n = self.names[term] = f"E{len(self.names)}x"
            self.lines[n] = f"Definition {n} := get {term}."
        return n

    def used_by(self, text):
        return [self.lines[n] for n in sorted(set(re.findall(r"\bE\d+x\b", text)) & set(self.lines), key=lambda x: int(x[1:-1]))]


DEFS = DefReg()


def try_parse(text):
    try:
        return parse_function(text), None
    except Untranslatable as e:
        return [f"(COther {coq_str('<untranslatable> ' + str(e))})"], str(e)


def mkF(mname, mcmds, rname, text):
    parsed, err = try_parse(text)
    return (f"mkF {mname} {mcmds} {coq_str(rname)} {coq_list(parsed)} {coq_str(text)}", err)


def pack_cases(pack, res):
    """pack: dict(ci, probes=[(fname, probe, count)]); res: compile result.  Returns
    (definitions, fcases [(term, description)], intchecks [(term, description)])."""
    ci = pack["ci"]
    cert, ns = CERTS[ci], NAMESPACES[ci]
    fns = functions_of(res["files"], ns)
    pv = cert["PRIVATE"]
    defs, fcs, ics = [], [], []
    accounted = set()
    kinds = set()
    model_ints = []
    for fname, p, count in pack["probes"]:
        e = DEFS.name(model_term(p, ci, count))
        kinds.add(p["kind"])
        text = fns.get(fname)
        nm_t = coq_str(f"{ns}:{fname}")
        term, err = mkF(nm_t, f"(e_inline {e})", f"{ns}:{fname}", text if text is not None else "<missing function>")
        fcs.append((term, dict(pack=pack["id"], role="call site", probe=probe_stmt(p, cert), real=text, untranslatable=err)))
        accounted.add(fname)
        if p["wrapped"]:
            key = f"{pv}/math_{p['kind']}/{count}"
            text = fns.get(key)
            term, err = mkF(f"(func_name {e} 0)", f"(func_body {e} 0)", f"{ns}:{key}",
                            text if text is not None else "<missing function>")
            fcs.append((term, dict(pack=pack["id"], role="execute wrapper", probe=probe_stmt(p, cert), real=text,
                                   untranslatable=err)))
            accounted.add(key)
        model_ints.append(f"e_ints {e}")
    shared = []
    if "sqrt" in kinds:
        shared += [(f"{pv}/math_sqrt/newton_raphson", f"(sqrt_nr_name nm{ci})", f"(sqrt_nr_body nm{ci})"),
                   (f"{pv}/math_sqrt/main", f"(sqrt_main_name nm{ci})", f"(sqrt_main_body nm{ci})")]
        model_ints.append("sqrt_shared_ints")
    if "random" in kinds:
        shared += [(f"{pv}/math_random/setup", f"(random_setup_name nm{ci})", f"(random_setup_body nm{ci})"),
                   (f"{pv}/math_random/main", f"(random_main_name nm{ci})", f"(random_main_body nm{ci})")]
    for key, mn, mb in shared:
        text = fns.get(key)
        term, err = mkF(mn, mb, f"{ns}:{key}", text if text is not None else "<missing function>")
        fcs.append((term, dict(pack=pack["id"], role="shared private function " + key, real=text, untranslatable=err)))
        accounted.add(key)
    # no other function may exist in the two private groups
    for key in sorted(fns):
        if (key.startswith(f"{pv}/math_sqrt/") or key.startswith(f"{pv}/math_random/")) and key not in accounted:
            term, err = mkF(coq_str("<model: no such function>"), "[]", f"{ns}:{key}", fns[key])
            fcs.append((term, dict(pack=pack["id"], role="unexpected private function " + key, real=fns[key])))
    # __load__: objective declarations and integer constants aside, exactly the model's lines
    load = fns.get(cert["LOAD"], "")
    rest, ints = [], []
    for ln in load.split("\n"):
        if ln == "" or re.fullmatch(r"scoreboard objectives add \S+ dummy", ln):
            continue
        m = re.fullmatch(r"scoreboard players set (-?\d+) %s (-?\d+)" % re.escape(cert["INT"]), ln)
        if m and m.group(1) == m.group(2):
            ints.append(int(m.group(1)))
            continue
        rest.append(ln)
    mload = f"[random_load_line nm{ci}]" if "random" in kinds else "[]"
    term, err = mkF(coq_str(f"{ns}:{cert['LOAD']}"), mload, f"{ns}:{cert['LOAD']}", "\n".join(rest))
    fcs.append((term, dict(pack=pack["id"], role="__load__ lines", real=load, untranslatable=err)))
    ics.append((f"ints_ok ({' ++ '.join(model_ints) if model_ints else '[]'}) {coq_list(coq_z(n) for n in sorted(set(ints)))}",
                dict(pack=pack["id"], role="integer constants", real_ints=sorted(set(ints)))))
    return defs, fcs, ics, sorted(set(ints))


COQ_HEADER = ("From Coq Require Import ZArith String List Bool.\n"
              "From JMCV Require Import Base.Int32 MC.Syntax MC.Print Model.Names Model.MathFn Run.Common Run.C20.\n"
              "Import ListNotations.\nOpen Scope string_scope.\n")


# ------------------------------------------------------------------ semantic search on the real text (mcvm)

def fresh_vm(fns, ns, cert, max_steps=20000):
    vm = VM({f"{ns}:{k}": v for k, v in fns.items()}, ns=ns, max_steps=max_steps, max_depth=300)
    vm.run_func(f"{ns}:{cert['LOAD']}")
    return vm


def isqrt(n):
    return math.isqrt(n)


def run_case(fns, ns, cert, fname, init, guard=True):
    """Run function fname from the given initial scores (after __load__).  Returns (vm, error-kind or None)."""
    vm = fresh_vm(fns, ns, cert)
    for (h, o), v in init.items():
        if v is None:
            vm.s.pop((h, o), None)
        else:
            vm.s[(h, o)] = v
    if guard:
        vm.s[("$q", cert["VAR"])] = 3
    else:
        vm.s.pop(("$q", cert["VAR"]), None)
    before = dict(vm.s)
    try:
        ok = vm.run_func(f"{ns}:{fname}")
        if not ok:
            return vm, before, "function-missing"
    except Invalid as e:
        return vm, before, "invalid-command: " + str(e)
    except OutOfFuel:
        return vm, before, "no-termination"
    except (KeyError, IndexError, ValueError) as e:
        return vm, before, "unrunnable: " + repr(e)
    return vm, before, None


def frame_failure(vm, before, cert, allowed):
    """Scores other than `allowed` and the scratch names must be unchanged (an unset score that is read may become 0)."""
    for k, v in vm.s.items():
        if k in allowed or (k[1] == cert["VAR"] and (k[0] in SQRT_SCRATCH or k[0] in RAND_SCRATCH)):
            continue
        b = before.get(k)
        if b != v and not (b is None and v == 0):
            return dict(score=list(k), before=b, after=v)
    for k in before:
        if k not in vm.s and k not in allowed:
            return dict(score=list(k), before=before[k], after=None)
    return None


def sqrt_values(rng, tier):
    vals = {0, 1, 2, 3, 4, INT_MAX, INT_MAX - 1, 1225 * 1225, 1225 * 1225 - 1, 1225 * 1225 + 1, 46340 * 46340,
            46340 * 46340 - 1, 46340 * 46340 + 1, 2 ** 30, 2 ** 30 - 1}
    if tier == "thorough":
        ks = range(1, 46341)
    else:
        ks = set(range(1, 200)) | set(range(46300, 46341)) | set(range(1200, 1250)) | \
            {rng.randint(1, 46340) for _ in range(500)} | {2 ** i for i in range(1, 16)}
    for k in ks:
        for d in (-1, 0, 1):
            n = k * k + d
            if 0 <= n <= INT_MAX:
                vals.add(n)
    for _ in range(500 if tier == "quick" else 20000):
        vals.add(rng.randint(0, INT_MAX))
        vals.add(rng.randint(0, 10 ** rng.randint(1, 9)))
    return sorted(vals)


def sqrt_search(job):
    """job: (fns, ns, cert, fname, probe, values).  First failure or None."""
    fns, ns, cert, fname, p, values = job
    t = score_of(p["target"], cert)
    a = score_of(p["arg"], cert)
    by = ("$bystander", cert["VAR"])
    runs = 0
    for n in values:
        init = {a: n, by: 12345}
        if t != a:
            init[t] = -99
        vm, before, err = run_case(fns, ns, cert, fname, init)
        runs += 1
        exp = isqrt(n)
        if err:
            return dict(kind=err, init=init_list(init), expected=exp, actual=None), runs
        got = vm.s.get(t)
        if got != exp:
            return dict(kind="wrong-value", init=init_list(init), expected=exp, actual=got), runs
        ff = frame_failure(vm, before, cert, {t})
        if ff:
            return dict(kind="other-score-changed", init=init_list(init), detail=ff, expected="unchanged", actual=ff["after"]), runs
    if p["wrapped"]:
        init = {a: 17, by: 12345, t: -99} if t != a else {a: 17, by: 12345}
        vm, before, err = run_case(fns, ns, cert, fname, init, guard=False)
        runs += 1
        if err or vm.s.get(t) != before.get(t):
            return dict(kind="guard-ignored", init=init_list(init), expected=before.get(t), actual=vm.s.get(t), err=err), runs
    return None, runs


def init_list(init):
    return [[k[0], k[1], v] for k, v in init.items()]


SEEDS = [0, 1, -1, 6, 7, 12345, -12345, INT_MAX, INT_MIN, INT_MIN + 1, 2 ** 30, -(2 ** 30), 2 ** 30 - 1, 99991, -7, 3]


def operand_values(p, rng, n_extra):
    """(lo value, hi value) pairs respecting 1 <= hi-lo+1 <= 2^31-1; None for a literal operand."""
    lo, hi = eff_lo(p), eff_hi(p)
    span_max = INT_MAX - 1
    out = []
    if lo[0] == "lit" and hi[0] == "lit":
        return [(lo[1], hi[1])]
    if lo[0] == "score" and hi[0] == "lit":
        H = hi[1]
        for d in [0, 1, 2, 5, 100, span_max] + [rng.randint(0, span_max) for _ in range(n_extra)]:
            if H - d >= INT_MIN:
                out.append((H - d, H))
        return out
    if lo[0] == "lit" and hi[0] == "score":
        Lo = lo[1]
        for d in [0, 1, 2, 5, 100, span_max] + [rng.randint(0, span_max) for _ in range(n_extra)]:
            if Lo + d <= INT_MAX:
                out.append((Lo, Lo + d))
        return out
    same = lo[1] == hi[1]
    for a in [0, 3, -5, INT_MIN, INT_MAX, INT_MIN + 5, -(2 ** 30)] + [rng.randint(INT_MIN, INT_MAX) for _ in range(n_extra)]:
        for d in ([0] if same else [0, 1, 7, span_max, rng.randint(0, span_max)]):
            if a + d <= INT_MAX:
                out.append((a, a + d))
    return out


def random_search(job):
    fns, ns, cert, fname, p, pairs, seeds = job
    t = score_of(p["target"], cert)
    lo, hi = eff_lo(p), eff_hi(p)
    ls = score_of(lo[1], cert) if lo[0] == "score" else None
    hs = score_of(hi[1], cert) if hi[0] == "score" else None
    by = ("$bystander", cert["VAR"])
    seed = ("__math__.seed", cert["VAR"])
    runs = 0
    for (a, b) in pairs:
        for s in seeds:
            init = {by: 12345, seed: s}
            if t not in (ls, hs):
                init[t] = -99
            if ls is not None:
                init[ls] = a
            if hs is not None:
                init[hs] = b
            vm, before, err = run_case(fns, ns, cert, fname, init)
            runs += 1
            exp = f"{a} <= target <= {b}"
            if err:
                return dict(kind=err, init=init_list(init), expected=exp, actual=None, lo=a, hi=b), runs
            got = vm.s.get(t)
            if got is None or not (a <= got <= b):
                return dict(kind="out-of-bounds", init=init_list(init), expected=exp, actual=got, lo=a, hi=b), runs
            ff = frame_failure(vm, before, cert, {t, (str(INT_MIN), cert["INT"])})
            if ff:
                return dict(kind="other-score-changed", init=init_list(init), detail=ff, expected="unchanged",
                            actual=ff["after"], lo=a, hi=b), runs
    if p["wrapped"]:
        a, b = pairs[0]
        init = {by: 12345, seed: 5}
        if t not in (ls, hs):
            init[t] = -99
        if ls is not None:
            init[ls] = a
        if hs is not None:
            init[hs] = b
        vm, before, err = run_case(fns, ns, cert, fname, init, guard=False)
        runs += 1
        if err or vm.s.get(t) != before.get(t):
            return dict(kind="guard-ignored", init=init_list(init), expected=before.get(t), actual=vm.s.get(t), err=err,
                        lo=a, hi=b), runs
    return None, runs


# ------------------------------------------------------------------ sequences of calls (strengthening round 1)
#
# The theorems speak about ONE call's emitted commands.  They cover a whole function only if EVERY call site gets
# exactly the modelled text whatever precedes it in the block / pack.  Sequence packs: several functions per pack,
# each a sequence of 2-4 Math.random / Math.sqrt calls (same / different ranges, operands, targets; repeated identical
# calls) with function calls, assignments, execute-wrapped calls, if / while blocks in between.  Expected text of a
# function = concatenation of the model's text of every item (position independent); the whole function is then run
# in mcvm and every target is checked against its bounds / isqrt.
#
# item := ("call", probe) | ("fn", name) | ("set", var, k) | ("add", var, k) | ("if", var, k, [items]) | ("while", var, k, [items])

SEQ_LO = [-20, -5, 0, 3, 5]         # values of $lo  (every constant max used with $lo is >= 5)
SEQ_HI = [10, 11, 17, 40]           # values of $hi  (every constant min used with $hi is <= 10)
SEQ_N = [0, 1, 2, 3, 24, 25, 26, 99, 1225 * 1225 + 1, 46340 * 46340 - 1, INT_MAX]


def _L(z):
    return ("lit", z)


def _S(s):
    return ("score", s)


_D = ("default", None)


def R(target, lo, hi, wrapped=False, style="pos"):
    return ("call", dict(kind="random", target=target, lo=lo, hi=hi, wrapped=wrapped, style=style))


def Q(target, arg, wrapped=False):
    return ("call", dict(kind="sqrt", target=target, arg=arg, wrapped=wrapped))


SEQ_HELPERS = {
    "h0": [R("$b0", _L(1), _L(100))],
    "h1": [R("$b1", _L(-50), _L(-40)), Q("$b2", "$m")],
    "h2": [R("$b3", _S("$lo"), _S("$hi")), R("$b4", _L(1), _L(100)), R("$b5", _L(1), _L(100))],
    "h3": [Q("$b6", "$m"), ("fn", "h0"), Q("$b7", "$m")],
}


def seq_fixed():
    """hand-made shapes: each is a way a call could depend on what precedes it"""
    r16 = lambda t, **k: R(t, _L(1), _L(6), **k)
    F = []
    F.append([r16("$t0"), ("fn", "h0"), r16("$t1")])                              # same range, another roll in between
    F.append([r16("$t0"), r16("$t1")])                                             # adjacent, same range
    F.append([r16("$t0"), r16("$t0")])                                             # repeated identical call
    F.append([r16("$t0"), ("if", "$c0", 1, [R("$t1", _L(1), _L(100)), ("fn", "h1")]), r16("$t2")])
    F.append([r16("$t0"), R("$t1", _L(1), _L(100), wrapped=True), r16("$t2")])    # execute-wrapped roll in between
    F.append([("if", "$c0", 2, [r16("$t0"), r16("$t1")]), r16("$t2"), ("fn", "h2"), r16("$t3")])
    F.append([R("$t0", _L(0), _L(5)), R("$t1", _L(5), _L(10)), R("$t2", _L(-3), _L(2)), r16("$t3")])   # same size, other min
    F.append([R("$t0", _D, _D), ("fn", "h0"), R("$t1", _D, _D)])
    F.append([R("$t0", _L(3), _D), ("set", "$z", 5), R("$t1", _L(3), _D, style="kw"), ("fn", "h1"), R("$t2", _L(3), _D)])
    F.append([Q("$t0", "$n"), ("fn", "h3"), Q("$t1", "$n")])                       # same operand, another sqrt in between
    F.append([Q("$t0", "$n"), Q("$t0", "$n")])
    F.append([Q("$t0", "$n"), Q("$t1", "$m"), Q("$t2", "$n"), Q("$t3", "obj:@s")])
    F.append([Q("$t0", "$n"), ("if", "$c0", 1, [Q("$t1", "$m"), ("add", "$z", 2)]), Q("$t2", "$n", wrapped=True), Q("$t3", "$n")])
    F.append([r16("$t0"), R("$t1", _S("$t0"), _L(10)), Q("$t2", "$t1")])          # dependent chain
    F.append([R("$t0", _S("$lo"), _L(9)), ("set", "$z", 1), R("$t1", _S("$lo"), _L(9)), ("fn", "h2"), R("$t2", _S("$lo"), _L(9))])
    F.append([R("$t0", _S("$lo"), _S("$hi")), ("fn", "h0"), R("$t1", _S("$lo"), _S("$hi")), R("$t2", _S("$lo"), _S("$hi"), wrapped=True)])
    F.append([R("$t0", _L(2), _S("$hi")), ("add", "$z", 3), R("$t1", _L(2), _S("$hi")), ("fn", "h1"), R("$t2", _L(-7), _S("$hi"))])
    F.append([r16("$t0"), ("while", "$w0", 3, [r16("$t1"), ("fn", "h0"), ("add", "$w0", 1)]), r16("$t2")])
    F.append([("while", "$w0", 2, [Q("$t0", "$n"), r16("$t1"), r16("$t2"), ("add", "$w0", 1)]), r16("$t3"), Q("$t0", "$n")])
    F.append([r16("$t0", wrapped=True), r16("$t1", wrapped=True), r16("$t2"), r16("$t3", wrapped=True)])
    F.append([R("$t0", _L(INT_MIN), _L(INT_MIN + 5)), ("fn", "h0"), R("$t1", _L(INT_MIN), _L(INT_MIN + 5)), R("$t2", _L(INT_MAX - 5), _L(INT_MAX))])
    F.append([R("obj:@s", _L(1), _L(6)), ("fn", "h0"), R("obj:@p", _L(1), _L(6)), R("obj:@s", _L(1), _L(6))])
    # the same call spelled differently, side by side
    F.append([R("$t0", _L(-5), _L(9)), R("$t1", _L(-5), _L(9), style="kwrev"), R("$t2", _L(-5), _L(9), style="blank"),
              R("$t3", _L(-5), _L(9), style="macrokw", wrapped=True)])
    F.append([R("$t0", _L(-7), _S("$hi"), style="kwblank"), ("fn", "h0"), R("$t1", _L(-7), _S("$hi"), style="macro"),
              R("$t2", _L(-7), _S("$hi"), style="mixed"), R("$t3", _S("$lo"), _L(9), style="kwzeros")])
    F.append([R("$t0", _L(3), _L(INT_MAX), style="minonly"), R("$t1", _L(3), _L(INT_MAX), style="pos1zeros"),
              R("$t2", _L(1), _L(10), style="maxonly"), R("$t3", _L(1), _L(10), style="mixedmacro", wrapped=True)])
    return F


def seq_style(rng, lo, hi):
    """a spelling for a call of a sequence: half of the time plain positional, otherwise any applicable one"""
    if lo[0] == "default" and hi[0] == "default":
        return "pos"
    if "default" in (lo[0], hi[0]):
        return rng.choice(["pos", "kw"]) if hi[0] == "default" else "kw"
    if rng.random() < 0.5:
        return "pos"
    return rng.choice([st for st in STYLES if style_applies(st, lo, hi)])


def seq_random_call(rng, target, theme):
    r = rng.random()
    wrapped = rng.random() < 0.15
    if r < 0.45:
        lo, hi = theme
        return R(target, lo, hi, wrapped=wrapped, style=seq_style(rng, lo, hi))
    if r < 0.6:
        return Q(target, rng.choice(["$n", "$n", "$m", "obj:@s"]), wrapped=wrapped)
    kind = rng.randrange(4)
    if kind == 0:
        a = rng.choice([1, 0, -3, 5, rng.randint(-40, 40)])
        lo, hi = _L(a), _L(a + rng.choice([5, 5, 0, 99, rng.randint(0, 50)]))
    elif kind == 1:
        lo, hi = _S("$lo"), _L(rng.choice([9, 9, 5, 30]))
    elif kind == 2:
        lo, hi = _L(rng.choice([2, 2, 10, -7])), _S("$hi")
    else:
        lo, hi = _S("$lo"), _S("$hi")
    return R(target, lo, hi, wrapped=wrapped, style=seq_style(rng, lo, hi))


def seq_random(rng):
    themes = [(_L(1), _L(6)), (_L(1), _L(6)), (_L(0), _L(5)), (_L(-2), _L(3)), (_S("$lo"), _L(9)), (_L(2), _S("$hi")),
              (_S("$lo"), _S("$hi")), (_D, _D), (_L(7), _D)]
    theme = rng.choice(themes)
    n_calls = rng.randint(2, 4)
    targets = [f"$t{i}" for i in range(n_calls)]
    if rng.random() < 0.2:
        targets[-1] = targets[0]
    items, blocks = [], 0
    for i, t in enumerate(targets):
        call = seq_random_call(rng, t, theme)
        if i and rng.random() < 0.7:
            for _ in range(rng.randint(1, 2)):
                k = rng.randrange(6)
                if k <= 2:
                    items.append(("fn", rng.choice(sorted(SEQ_HELPERS))))
                elif k == 3:
                    items.append(("set", "$z", rng.randint(-9, 9)))
                elif k == 4:
                    items.append(("add", "$z", rng.randint(1, 9)))
                elif blocks < 2:
                    inner = [seq_random_call(rng, f"$u{blocks}", theme)]
                    inner[0][1]["wrapped"] = False      # a block of one command is inlined by jmc (no private function)
                    if rng.random() < 0.5:
                        inner.append(("fn", rng.choice(sorted(SEQ_HELPERS))))
                    items.append(("if", f"$c{blocks}", rng.randint(1, 3), inner))
                    blocks += 1
        if rng.random() < 0.12 and blocks < 2:
            items.append(("if", f"$c{blocks}", 1, [call, ("fn", "h0")]))
            blocks += 1
        else:
            items.append(call)
    return items


def gen_seq_packs(rng, tier):
    """list of packs; a pack = ordered list of (function name, items)"""
    fixed = seq_fixed()
    n_rand = 30 if tier == "quick" else 300
    bodies = fixed + [seq_random(rng) for _ in range(n_rand)]
    packs, per = [], 9
    for i in range(0, len(bodies), per):
        chunk = bodies[i:i + per]
        helpers = [(h, SEQ_HELPERS[h]) for h in sorted(SEQ_HELPERS)]
        fns = [(f"s{i + j}", b) for j, b in enumerate(chunk)]
        # helper definitions before, after, or in the middle of their callers
        where = (i // per) % 3
        if where == 2 and fns:      # one of the functions is a class method
            fns[0] = (SEQ_CLASS + fns[0][0], fns[0][1])
        order = helpers + fns if where == 0 else fns + helpers if where == 1 else fns[:len(fns) // 2] + helpers + fns[len(fns) // 2:]
        packs.append(order)
    # statements outside any function: the calls are compiled into the load function (no execute wrapper / block: their numbering
    # relative to the functions' is not the subject)
    r16 = lambda t: R(t, _L(1), _L(6))
    helpers = [(h, SEQ_HELPERS[h]) for h in sorted(SEQ_HELPERS)]
    packs.append([(SEQ_TOP, [r16("$t0"), ("set", "$z", 5), ("fn", "h0"), r16("$t1"), Q("$t2", "$n"), ("fn", "h3"), Q("$t3", "$n")])] + helpers
                 + [("s_after", [r16("$t0"), ("fn", "h0"), r16("$t1")])])
    packs.append(helpers + [(SEQ_TOP, [Q("$t0", "$n"), Q("$t0", "$n"), R("$t1", _L(0), _L(5)), ("fn", "h1"), R("$t2", _L(0), _L(5))])])
    return packs


def item_src(it, cert):
    k = it[0]
    if k == "call":
        return probe_stmt(it[1], cert)
    if k == "fn":
        return f"{it[1]}();"
    if k == "set":
        return f"{it[1]} = {it[2]};"
    if k == "add":
        return f"{it[1]} += {it[2]};"
    inner = " ".join(item_src(x, cert) for x in it[3])
    if k == "if":
        return f"if ({it[1]} == {it[2]}) {{ {inner} }}"
    return f"while ({it[1]} < {it[2]}) {{ {inner} }}"


SEQ_TOP = "<top level>"      # pseudo function name: statements outside any function (they are compiled into the load function)
SEQ_CLASS = "k/"             # functions named k/<name> are methods of `class k`


def seq_source(order, cert):
    out = []
    for name, items in order:
        body = " ".join(item_src(x, cert) for x in items)
        if name == SEQ_TOP:
            out.append(body)
        elif name.startswith(SEQ_CLASS):
            out.append(f"class k {{ function {name[len(SEQ_CLASS):]}() {{ {body} }} }}")
        else:
            out.append(f"function {name}() {{ {body} }}")
    return "\n".join(out)


class SeqModel:
    """model terms of one sequence pack: per function file the Coq list of commands, definitions of the calls' models"""

    def __init__(self, pid, ci):
        self.pid, self.ci = pid, ci
        self.cert, self.ns = CERTS[ci], NAMESPACES[ci]
        self.counts = {"sqrt": 0, "random": 0, "if_else": 0, "while_loop": 0}
        self.defs, self.files, self.ints, self.kinds, self.ncalls = [], [], [], set(), 0

    def block(self, items, label, tail=None):
        """Coq term (list cmd) of a block; registers nested private functions in self.files"""
        parts = []
        for it in items:
            k = it[0]
            if k == "call":
                p = it[1]
                c = 0
                if p["wrapped"]:
                    c = self.counts[p["kind"]]
                    self.counts[p["kind"]] += 1
                e = DEFS.name(model_term(p, self.ci, c))
                self.ncalls += 1
                self.kinds.add(p["kind"])
                self.ints.append(f"e_ints {e}")
                parts.append(f"e_inline {e}")
                if p["wrapped"]:
                    key = f"{self.cert['PRIVATE']}/math_{p['kind']}/{c}"
                    self.files.append((key, f"(func_name {e} 0)", f"(func_body {e} 0)", f"execute wrapper of `{probe_stmt(p, self.cert)}` in {label}"))
            elif k == "fn":
                parts.append(f"[CCall {coq_str(self.ns + ':' + it[1])}]")
            elif k == "set":
                parts.append(f"[CSet {score_term(score_of(it[1], self.cert))} {coq_z(it[2])}]")
            elif k == "add":
                parts.append(f"[CAdd {score_term(score_of(it[1], self.cert))} {coq_z(it[2])}]")
            else:
                grp = "if_else" if k == "if" else "while_loop"
                n = self.counts[grp]
                self.counts[grp] += 1
                key = f"{self.cert['PRIVATE']}/{grp}/{n}"
                rng_t = f"(Exact {coq_z(it[2])})" if k == "if" else f"(To {coq_z(it[2] - 1)})"
                line = (f"[CExecute [MIf true (Matches {score_term(score_of(it[1], self.cert))} {rng_t})] "
                        f"(CCall {coq_str(self.ns + ':' + key)})]")
                parts.append(line)
                body = self.block(it[3], f"{label}/{grp}", tail=line if k == "while" else None)
                self.files.append((key, coq_str(self.ns + ":" + key), body, f"{grp} block of {label}"))
        if tail:
            parts.append(tail)
        return "(" + " ++ ".join(parts or ["[]"]) + ")"


def seq_pack_cases(pid, ci, order, res):
    cert, ns = CERTS[ci], NAMESPACES[ci]
    fns = functions_of(res["files"], ns)
    pv = cert["PRIVATE"]
    sm = SeqModel(pid, ci)
    fcs, accounted = [], set()
    top_body = None
    for name, items in order:
        body = sm.block(items, name)
        if name == SEQ_TOP:
            top_body = body
            continue
        sm.files.append((name, coq_str(f"{ns}:{name}"), body, f"sequence function {name}: " + " ".join(item_src(x, cert) for x in items)))
    for key, mname, mbody, role in sm.files:
        text = fns.get(key)
        term, err = mkF(mname, mbody, f"{ns}:{key}", text if text is not None else "<missing function>")
        fcs.append((term, dict(pack=pid, role=role, real=text, untranslatable=err, function=key)))
        accounted.add(key)
    shared, model_ints = [], list(sm.ints)
    if "sqrt" in sm.kinds:
        shared += [(f"{pv}/math_sqrt/newton_raphson", f"(sqrt_nr_name nm{ci})", f"(sqrt_nr_body nm{ci})"),
                   (f"{pv}/math_sqrt/main", f"(sqrt_main_name nm{ci})", f"(sqrt_main_body nm{ci})")]
        model_ints.append("sqrt_shared_ints")
    if "random" in sm.kinds:
        shared += [(f"{pv}/math_random/setup", f"(random_setup_name nm{ci})", f"(random_setup_body nm{ci})"),
                   (f"{pv}/math_random/main", f"(random_main_name nm{ci})", f"(random_main_body nm{ci})")]
    for key, mn, mb in shared:
        text = fns.get(key)
        term, err = mkF(mn, mb, f"{ns}:{key}", text if text is not None else "<missing function>")
        fcs.append((term, dict(pack=pid, role="shared private function " + key, real=text, untranslatable=err)))
        accounted.add(key)
    for key in sorted(fns):
        if (key.startswith(f"{pv}/math_sqrt/") or key.startswith(f"{pv}/math_random/")) and key not in accounted:
            term, err = mkF(coq_str("<model: no such function>"), "[]", f"{ns}:{key}", fns[key])
            fcs.append((term, dict(pack=pid, role="unexpected private function " + key, real=fns[key])))
    load = fns.get(cert["LOAD"], "")
    rest, ints = [], []
    for ln in load.split("\n"):
        if ln == "" or re.fullmatch(r"scoreboard objectives add \S+ dummy", ln):
            continue
        m = re.fullmatch(r"scoreboard players set (-?\d+) %s (-?\d+)" % re.escape(cert["INT"]), ln)
        if m and m.group(1) == m.group(2):
            ints.append(int(m.group(1)))
            continue
        rest.append(ln)
    mload = f"[random_load_line nm{ci}]" if "random" in sm.kinds else "[]"
    if top_body is not None:
        mload = f"({mload} ++ {top_body})"
    term, err = mkF(coq_str(f"{ns}:{cert['LOAD']}"), mload, f"{ns}:{cert['LOAD']}", "\n".join(rest))
    fcs.append((term, dict(pack=pid, role="__load__ lines", real=load, untranslatable=err)))
    ics = [(f"ints_ok ({' ++ '.join(model_ints) if model_ints else '[]'}) {coq_list(coq_z(n) for n in sorted(set(ints)))}",
            dict(pack=pid, role="integer constants", real_ints=sorted(set(ints))))]
    return sm.defs, fcs, ics


def helper_writes(name, seen=()):
    out = set()
    for it in SEQ_HELPERS[name]:
        out |= item_writes(it)
    return out


def item_writes(it):
    k = it[0]
    if k == "call":
        return {it[1]["target"]}
    if k == "fn":
        return helper_writes(it[1])
    if k in ("set", "add"):
        return {it[1]}
    out = set()
    for x in it[3]:
        out |= item_writes(x)
    return out


def seq_events(items, conds=(), loopw=frozenset()):
    """execution-ordered events: ("call", probe, conds, loop_writes) / ("write", {sources}, conds)
    conds = ((kind, var, k), ...) of the enclosing blocks; loop_writes = what later iterations of the enclosing
    while bodies write (own target excluded: the last iteration's value is the one observed)"""
    ev = []
    for it in items:
        k = it[0]
        if k == "call":
            ev.append(("call", it[1], conds, frozenset(loopw - {it[1]["target"]})))
            ev.append(("write", {it[1]["target"]}, conds))
        elif k in ("if", "while"):
            lw = loopw
            if k == "while":
                w = set()
                for x in it[3]:
                    w |= item_writes(x)
                lw = frozenset(loopw | w)
            ev += seq_events(it[3], conds + ((k, it[1], it[2]),), lw)
        else:
            ev.append(("write", item_writes(it), conds))
    return ev


def seq_init(ev, cert, taken, seed, opset):
    lo, hi, n, m, o = opset
    V = cert["VAR"]
    init = {("$bystander", V): 12345, ("__math__.seed", V): seed, ("$lo", V): lo, ("$hi", V): hi, ("$n", V): n,
            ("$m", V): m, ("@s", "obj"): o, ("$z", V): 7}
    for e in ev:
        if e[0] == "write":
            for w in e[1]:
                init.setdefault(score_of(w, cert), -99)
    for e in ev:
        for (k, var, kk) in e[2]:
            init[score_of(var, cert)] = (kk if k == "if" else 0) if taken else kk + 1
    return init


def seq_check_run(fns, ns, cert, fname, items, init, taken):
    """run the function once from `init`; the first call whose target breaks its contract, or None"""
    ev = seq_events(items)
    V = cert["VAR"]
    vm, before, err = run_case(fns, ns, cert, fname, init)
    base = dict(init=init_list(init), blocks_taken=taken)
    if err:
        return dict(kind=err, expected="the function runs to its end", actual=None, **base)
    all_writes, uncond = set(), set()
    for e in ev:
        if e[0] == "write":
            all_writes |= e[1]
            if not e[2]:
                uncond |= e[1]
    for idx, e in enumerate(ev):
        if e[0] != "call":
            continue
        _, p, conds, loopw = e
        t = score_of(p["target"], cert)
        later = set(loopw)
        for e2 in ev[idx + 2:]:
            if e2[0] == "write":
                later |= e2[1]
        if conds and not taken:
            if p["target"] not in uncond and vm.s.get(t) != before.get(t):
                return dict(kind="guard-ignored", statement=probe_stmt(p, cert), expected=before.get(t), actual=vm.s.get(t), **base)
            continue
        if p["target"] in later:
            continue
        got = vm.s.get(t)
        if p["kind"] == "sqrt":
            if p["arg"] in later or p["arg"] == p["target"]:
                continue
            a = vm.s.get(score_of(p["arg"], cert))
            if a is None or a < 0:
                continue
            if got != isqrt(a):
                return dict(kind="wrong-value", statement=probe_stmt(p, cert), expected=isqrt(a), actual=got, arg=a, **base)
        else:
            bounds, skip = [], False
            for o_ in (eff_lo(p), eff_hi(p)):
                if o_[0] == "lit":
                    bounds.append(o_[1])
                elif o_[1] in later or o_[1] == p["target"]:
                    skip = True
                else:
                    bounds.append(vm.s.get(score_of(o_[1], cert)))
            if skip or None in bounds:
                continue
            if got is None or not (bounds[0] <= got <= bounds[1]):
                return dict(kind="out-of-bounds", statement=probe_stmt(p, cert),
                            expected=f"{bounds[0]} <= {p['target']} <= {bounds[1]}", actual=got, lo=bounds[0], hi=bounds[1], **base)
    allowed = {score_of(w, cert) for w in all_writes} | {(str(INT_MIN), cert["INT"]), ("$q", V)}
    ff = frame_failure(vm, before, cert, allowed)
    if ff:
        return dict(kind="other-score-changed", detail=ff, expected="unchanged", actual=ff["after"], **base)
    return None


def seq_search(job):
    """job: (fns, ns, cert, fname, items, seeds, operand sets).  (first failure or None, number of runs)"""
    fns, ns, cert, fname, items, seeds, opsets = job
    ev = seq_events(items)
    has_blocks = any(e[2] for e in ev)
    runs = 0
    for taken in ((True, False) if has_blocks else (True,)):
        for opset in (opsets if taken else opsets[:1]):
            for s in (seeds if taken else seeds[:2]):
                init = seq_init(ev, cert, taken, s, opset)
                runs += 1
                f = seq_check_run(fns, ns, cert, fname, items, init, taken)
                if f:
                    return f, runs
    return None, runs


def _search(job):
    if job[0] == "seq":
        return seq_search(job[1:])
    if job[4]["kind"] == "sqrt":
        return sqrt_search(job)
    return random_search(job)


# ------------------------------------------------------------------ main

# calls OUTSIDE the property's quantifier (constant bounds with max-min+1 > 2^31-1): nothing is asserted about them; what the
# tree does with them (a `set … rng.bound` literal that is not a Java int / a diagnostic) is recorded in the evidence
OUTSIDE_QUANTIFIER = ["0", "min=0", "0, 2147483647", "min=0, max=2147483647", "-2147483648, 5", "min=-2147483648, max=5",
                      "max=5, min=-2147483648", "- 2147483648, 5", "-5, max=2147483647",
                      "min=-2147483648", "-2147483648", "-2147483648, 2147483647", "max=2147483647, min=-1", "-2147483648, -1"]


def outside_quantifier_report(results):
    out = []
    for args, res in zip(OUTSIDE_QUANTIFIER, results):
        if not res["ok"]:
            what = f"diagnostic {res.get('exc')}"
        else:
            text = functions_of(res["files"], NAMESPACES[0]).get("p", "")
            nums = [int(x) for x in re.findall(r"(?<![\w.$@:])-?\d+(?![\w.])", text)]
            bad = [n for n in nums if not INT_MIN <= n <= INT_MAX]
            what = f"compiles; emits the non-int32 literal(s) {bad}" if bad else "compiles; every literal is int32"
        out.append(dict(call=f"$a = Math.random({args});", result=what))
    return out


def spelling_groups(packs, results, jobs):
    """metamorphic relation: single packs of Math.random probes with the same (names configuration, target, effective min, effective
    max, wrapped) must emit identical function text whatever the spelling.  Returns (number of groups, number of members,
    list of (reference member, differing member))"""
    groups = {}
    for pack, res, job in zip(packs, results, jobs):
        if pack["single"] is None:
            continue
        _, p, _ = pack["probes"][0]
        if p["kind"] != "random":
            continue
        ci = pack["ci"]
        if res["ok"]:
            fns = functions_of(res["files"], NAMESPACES[ci])
            keys = ["p"] + ([f"{CERTS[ci]['PRIVATE']}/math_random/0"] if p["wrapped"] else [])
            text = {k: fns.get(k, "<missing function>") for k in keys}
        else:
            text = {"<compile error>": str(res.get("exc"))}     # the message quotes the call: only the class is compared
        key = (ci, p["target"], eff_lo(p), eff_hi(p), p["wrapped"])
        groups.setdefault(key, []).append(dict(pack=pack, probe=p, job=job, text=text))
    diffs = []
    for key, members in groups.items():
        if len(members) < 2:
            continue
        # reference: the majority text (ties: the first spelling)
        cnt = {}
        for m in members:
            cnt.setdefault(json.dumps(m["text"], sort_keys=True), []).append(m)
        ref = max(cnt.values(), key=len)[0]
        for m in members:
            if m["text"] != ref["text"]:
                diffs.append((ref, m))
    return len([g for g in groups.values() if len(g) > 1]), sum(len(g) for g in groups.values() if len(g) > 1), diffs


def main(tier: str) -> int:
    ck = Check(PROP, tier)
    ck.cov["trusted_base"] = COMMON_TRUSTED + [
        "Model/MathFn.v: hand-written port of MathSqrt.call / MathRandom.call (_var_operation.py); tied to the current tree on "
        "every run by term equality + print-back equality of every function the probe calls emit (coq/Gen/C20/MathEmitted_*.v)",
        "c20_translate.py is NOT trusted: Coq checks that the translated terms print back to exactly the emitted text",
        "outside the model: how `execute ... run` decides is_execute (lexer_func_content.py), argument parsing of Math.random "
        "(covered only through the probes, which enumerate the spellings: positional / keyword in both orders / positional+keyword / "
        "`min=` only / `max=` only / one positional / none, literals written plainly, with the sign as a separate token, with leading "
        "zeros and through a `#define` macro; all spellings of a call must give the model's text and the same text as each other), "
        "the summon/data/kill lines of setup.mcfunction "
        "(COther: assumed not to touch scores other than through `store result`), Minecraft's recursion limit",
        "calls outside the property's quantifier (constant bounds with max-min+1 > 2^31-1) are not asserted about; what the tree "
        "does with a few of them is recorded under outside_quantifier_probes",
        "mcvm.py (untrusted Python VM) is used only to search for failing inputs on the real emitted text",
    ]
    pr = ck.proof(extra_targets=["Run/C20.vo"])
    if tier == "thorough" and pr["ok"]:
        # independent re-check of the compiled theorems by coqchk
        q = subprocess.run(["timeout", "900", "coqchk", "-silent", "-o", "-Q", str(COQ), "JMCV", "JMCV.Props.C20"],
                           cwd=COQ, stdout=subprocess.PIPE, stderr=subprocess.STDOUT)
        out = q.stdout.decode(errors="replace")
        ck.cov["coqchk"] = dict(ok=q.returncode == 0, summary=out[-900:])
        if q.returncode != 0:
            ck.violation(dict(kind="coqchk-failed", log=out[-3000:]), no_input=True)

    probes = gen_probes(ck.rng, tier)
    stride = 3 if tier == "quick" else 1       # part of the spelling matrix that also goes into the combined pack
    packs, jobs = [], []
    for ci, cert in enumerate(CERTS):
        # one pack per probe
        for pi, p in enumerate(probes):
            packs.append(dict(id=f"c{ci}p{pi}", ci=ci, probes=[("p", p, 0)], single=pi))
            jobs.append(with_header(dict(src=f"function p() {{ {probe_stmt(p, cert)} }}", cert=cert_text(cert), namespace=NAMESPACES[ci]),
                                    probe_header(p)))
        # one combined pack: wrapper numbering, shared functions created once
        counts = {"sqrt": 0, "random": 0}
        plist, src, hdr, nmx = [], [], set(), 0
        for pi, p in enumerate(probes):
            if p.get("matrix"):
                nmx += 1
                if nmx % stride != ci % stride:
                    continue
            c = 0
            if p["wrapped"]:
                c = counts[p["kind"]]
                counts[p["kind"]] += 1
            plist.append((f"p{pi}", p, c))
            src.append(f"function p{pi}() {{ {probe_stmt(p, cert)} }}")
            hdr |= probe_header(p)
        packs.append(dict(id=f"c{ci}all", ci=ci, probes=plist, single=None))
        jobs.append(with_header(dict(src="\n".join(src), cert=cert_text(cert), namespace=NAMESPACES[ci], timeout=120), hdr))
    err_jobs = []
    for ci, cert in enumerate(CERTS):
        for p in ERROR_PROBES:
            err_jobs.append((ci, p, with_header(dict(src=f"function p() {{ {probe_stmt(p, cert)} }}", cert=cert_text(cert),
                                                     namespace=NAMESPACES[ci]), probe_header(p))))
    seq_orders = gen_seq_packs(ck.rng, tier)
    seq_packs, seq_jobs = [], []
    for ci, cert in enumerate(CERTS):
        for k, order in enumerate(seq_orders):
            seq_packs.append(dict(id=f"c{ci}q{k}", ci=ci, order=order))
            hdr = set()
            for _, items in order:
                hdr |= items_header(items)
            seq_jobs.append(with_header(dict(src=seq_source(order, cert), cert=cert_text(cert), namespace=NAMESPACES[ci], timeout=60), hdr))
    oq_jobs = [dict(src=f"function p() {{ $a = Math.random({a}); }}", cert=cert_text(CERTS[0]), namespace=NAMESPACES[0])
               for a in OUTSIDE_QUANTIFIER]
    results = compile_batch(jobs + [j for _, _, j in err_jobs] + seq_jobs + oq_jobs, chunk=40)
    oq_results = results[len(jobs) + len(err_jobs) + len(seq_jobs):]
    seq_results = results[len(jobs) + len(err_jobs):len(jobs) + len(err_jobs) + len(seq_jobs)]
    err_results = results[len(jobs):len(jobs) + len(err_jobs)]
    results = results[:len(jobs)]
    ck.cov["outside_quantifier_probes"] = outside_quantifier_report(oq_results)

    # identical (model term, emitted text) pairs are identical case terms: evaluated once, counted once
    fcases, icases, echecks = [], [], []
    f_index, i_index, raw_cases = {}, {}, 0
    not_compiling = set()

    def add_cases(f, i):
        nonlocal raw_cases
        for term, d in f:
            raw_cases += 1
            if term not in f_index:
                f_index[term] = len(fcases)
                fcases.append((term, d))
        for term, d in i:
            raw_cases += 1
            if term not in i_index:
                i_index[term] = len(icases)
                icases.append((term, d))

    for pack, res, job in zip(packs, results, jobs):
        if not res["ok"]:
            # the model says these probes compile: a compile error is a correspondence failure
            for fname, p, count in pack["probes"] if pack["single"] is not None else []:
                echecks.append((f"err_ok {model_term(p, pack['ci'], count)} true",
                                dict(pack=pack["id"], role="probe failed to compile", probe=job["src"], header=job.get("header"),
                                     exc=res["exc"], msg=res["msg"][:300])))
                nc_key = (p["kind"], res.get("exc"), p.get("lo", ("", ""))[0], p.get("hi", ("", ""))[0])
                if nc_key not in not_compiling and len(not_compiling) < 3:
                    not_compiling.add(nc_key)
                    ck.violation(dict(kind="probe-does-not-compile", program=job["src"], header=job.get("header"),
                                      jmc_txt=CERTS[pack["ci"]], namespace=NAMESPACES[pack["ci"]], statement=probe_stmt(p, CERTS[pack["ci"]]),
                                      expected="compiles: the call is inside the property's quantifier (model: random_code / sqrt_code = Some ...)",
                                      actual=f"{res.get('exc')}: {res.get('msg', '')[:300]}"))
            if pack["single"] is None:
                echecks.append(("false", dict(pack=pack["id"], role="combined pack failed to compile", exc=res["exc"], msg=res["msg"][:300])))
            continue
        d, f, i, ints = pack_cases(pack, res)
        add_cases(f, i)
    for pack, res, job in zip(seq_packs, seq_results, seq_jobs):
        if not res["ok"]:
            echecks.append(("false", dict(pack=pack["id"], role="sequence pack failed to compile", program=job["src"],
                                          header=job.get("header"), exc=res["exc"], msg=res["msg"][:300])))
            continue
        d, f, i = seq_pack_cases(pack["id"], pack["ci"], pack["order"], res)
        add_cases(f, i)
    for (ci, p, job), res in zip(err_jobs, err_results):
        failed = (not res["ok"]) and res.get("exc") == "JMCValueError"
        echecks.append((f"err_ok {model_term(p, ci, 0)} {'true' if failed else 'false'}",
                        dict(role="error probe", probe=job["src"], header=job.get("header"), result=("ok" if res["ok"] else res.get("exc")))))
    raw_cases += len(echecks)

    nm_defs = [f"Definition nm{ci} := {names_term(ci)}." for ci in range(len(CERTS))]
    per = 300
    nshards = max(1, -(-len(fcases) // per))
    iper = max(1, -(-len(icases) // nshards))
    shards = []
    for k in range(nshards):
        fs = list(range(k * per, min(len(fcases), (k + 1) * per)))
        is_ = list(range(k * iper, min(len(icases), (k + 1) * iper)))
        es = list(range(len(echecks))) if k == 0 else []
        terms = ("Definition files : list fcase := [\n" + ";\n".join(fcases[j][0] for j in fs) + "\n].\n"
                 "Eval vm_compute in file_mismatches files.\n"
                 "Definition intchecks : list bool := [\n" + ";\n".join(icases[j][0] for j in is_) + "\n].\n"
                 "Eval vm_compute in bool_mismatches intchecks.\n"
                 "Definition errchecks : list bool := [\n" + ";\n".join(echecks[j][0] for j in es) + "\n].\n"
                 "Eval vm_compute in bool_mismatches errchecks.\n")
        body = COQ_HEADER + "\n".join(nm_defs + DEFS.used_by(terms)) + "\n" + terms
        shards.append((f"MathEmitted_{k}.v", body, fs, is_, es))
    outs = run_coq_files(PROP, [(n, b) for n, b, _, _, _ in shards], timeout=900)
    bad_f, bad_i, bad_e = [], [], []
    coq_failed = None
    for (name, _, fs, is_, es), (ok, out) in zip(shards, outs):
        if not ok:
            coq_failed = coq_failed or f"{name}: {out[-3000:]}"
            continue
        parts = out.split(": list nat")
        bad_f += [fs[j] for j in parse_nat_list(parts[0])]
        bad_i += [is_[j] for j in parse_nat_list(parts[1])]
        bad_e += [es[j] for j in parse_nat_list(parts[2])]

    # ---- search on the real text: every compiled probe, single packs and the combined ones
    sq_vals = sqrt_values(ck.rng, tier)
    sq_small = sq_vals[::max(1, len(sq_vals) // 300)] + [0, 1, 3, 4, INT_MAX, 46340 * 46340 - 1, 1225 * 1225 + 1]
    seeds_all = SEEDS + [ck.rng.randint(INT_MIN, INT_MAX) for _ in range(8 if tier == "quick" else 60)]
    sjobs, smeta = [], []
    first_sqrt = {}
    searched_texts = set()
    for pack, res in zip(packs, results):
        if not res["ok"]:
            continue
        ci = pack["ci"]
        cert, ns = CERTS[ci], NAMESPACES[ci]
        fns = functions_of(res["files"], ns)
        for fname, p, count in pack["probes"]:
            if p["kind"] == "sqrt":
                # full value set on the first plain probe of each names configuration, a sample elsewhere
                full = pack["single"] is not None and not p["wrapped"] and first_sqrt.setdefault(ci, pack["id"]) == pack["id"]
                vals = sq_vals if full else sq_small
                if full and len(vals) > 4000:
                    # split for the process pool
                    step = 4000
                    for i in range(0, len(vals), step):
                        sjobs.append((fns, ns, cert, fname, p, vals[i:i + step]))
                        smeta.append((pack, fname, p))
                    continue
                sjobs.append((fns, ns, cert, fname, p, vals))
            else:
                if p.get("matrix") and pack["single"] is not None:
                    # spellings of one call that gave exactly the same files: one search (a spelling with other text gets its own)
                    key = (ci, p["target"], eff_lo(p), eff_hi(p), p["wrapped"], tuple(sorted(fns.items())))
                    if key in searched_texts:
                        continue
                    searched_texts.add(key)
                n_extra = 1 if (tier == "quick" or pack["single"] is None) else 6
                pairs = operand_values(p, ck.rng, n_extra)
                seeds = seeds_all if pack["single"] is not None else seeds_all[:6]
                if p.get("matrix") and pack["single"] is None:
                    pairs, seeds = pairs[:4], seeds_all[:3]
                sjobs.append((fns, ns, cert, fname, p, pairs, seeds))
            smeta.append((pack, fname, p))
    n_single_jobs = len(sjobs)
    seq_seeds = SEEDS[:10] + [ck.rng.randint(INT_MIN, INT_MAX) for _ in range(4 if tier == "quick" else 20)]
    n_seq_calls = 0
    for pack, res, job in zip(seq_packs, seq_results, seq_jobs):
        if not res["ok"]:
            continue
        ci = pack["ci"]
        cert, ns = CERTS[ci], NAMESPACES[ci]
        fns = functions_of(res["files"], ns)
        for fname, items in pack["order"]:
            opsets = [(ck.rng.choice(SEQ_LO), ck.rng.choice(SEQ_HI), ck.rng.choice(SEQ_N), ck.rng.choice(SEQ_N), ck.rng.choice(SEQ_N))
                      for _ in range(2 if tier == "quick" else 5)] + [(5, 10, 0, INT_MAX, 1)]
            if fname == SEQ_TOP:
                fname = cert["LOAD"]
            sjobs.append(("seq", fns, ns, cert, fname, items, seq_seeds, opsets))
            smeta.append((pack, fname, dict(kind="sequence", items=items, src=job["src"], header=job.get("header"))))
            n_seq_calls += sum(1 for e in seq_events(items) if e[0] == "call")
    with ProcessPoolExecutor(max_workers=max(1, min(NCPU, 8))) as ex:
        sres = list(ex.map(_search, sjobs, chunksize=4))
    n_runs = sum(r for _, r in sres)
    reported = set()
    sem_failed_packs = set()
    for (pack, fname, p), (fail, _) in zip(smeta, sres):
        if not fail:
            continue
        sem_failed_packs.add(pack["id"])
        cert = CERTS[pack["ci"]]
        if p["kind"] == "sequence":
            key = ("sequence", fail["kind"].split(":")[0], fail.get("statement"))
            if key in reported or sum(1 for k in reported if k[0] == "sequence") >= 4:
                continue
            reported.add(key)
            ck.violation(dict(kind="sequence-semantic-failure", program=p["src"], header=p.get("header"), jmc_txt=cert,
                              namespace=NAMESPACES[pack["ci"]],
                              function=fname, items=p["items"], failure=fail, expected=fail.get("expected"), actual=fail.get("actual"),
                              note="the whole function (real emitted text) run in mcvm after __load__ from the given initial scores; "
                                   "the named call's target breaks its contract"))
            continue
        key = (p["kind"], p["lo"][0] if p["kind"] == "random" else "", p["hi"][0] if p["kind"] == "random" else "",
               fail["kind"].split(":")[0], p["wrapped"])
        if key in reported:
            continue
        reported.add(key)
        job = jobs[packs.index(pack)]
        ck.violation(dict(kind="semantic-failure", program=job["src"], header=job.get("header"), jmc_txt=cert, namespace=NAMESPACES[pack["ci"]],
                          function=fname, statement=probe_stmt(p, cert), probe=p, failure=fail,
                          expected=fail.get("expected"), actual=fail.get("actual"),
                          note="real emitted functions run in mcvm after __load__ from the given initial scores"))

    # ---- metamorphic: all spellings of one call emit the same text
    n_groups, n_members, diffs = spelling_groups(packs, results, jobs)
    seen_styles = set()
    for ref, m in diffs:
        sk = (m["probe"].get("style"), ref["probe"].get("style"))
        if sk in seen_styles or len(seen_styles) >= 3:
            continue
        seen_styles.add(sk)
        cert = CERTS[m["pack"]["ci"]]
        ck.violation(dict(kind="spelling-differs", jmc_txt=cert, namespace=NAMESPACES[m["pack"]["ci"]],
                          program=m["job"]["src"], header=m["job"].get("header"), style=m["probe"].get("style"),
                          reference_program=ref["job"]["src"], reference_header=ref["job"].get("header"),
                          reference_style=ref["probe"].get("style"),
                          expected=ref["text"], actual=m["text"],
                          model_arguments=dict(target=m["probe"]["target"], min=list(eff_lo(m["probe"])), max=list(eff_hi(m["probe"])),
                                               wrapped=m["probe"]["wrapped"]),
                          note="two spellings of the same Math.random call (same target, effective min and max, same execute context) "
                               "must emit the same functions: the model's text `random_code nm ex target lo hi` does not depend on the "
                               "spelling; `expected` is what the reference spelling (the one most spellings agree with) emits, `actual` what this one "
                               "emits — at least one of the two is not the model's text"))

    # ---- correspondence failures without a failing input
    if coq_failed is not None:
        ck.violation(dict(kind="correspondence-file-failed", file="coq/Gen/C20/MathEmitted_*.v", log=coq_failed), no_input=True)
    silent, seen, silent_terms = [], set(), []
    for i in bad_f:
        d = fcases[i][1]
        if d["pack"] in sem_failed_packs or (d["role"], d.get("real")) in seen:
            continue
        seen.add((d["role"], d.get("real")))
        silent.append(d)
        silent_terms.append(fcases[i][0])
    if silent_terms:
        try:   # what the model says for the first differing files
            exprs = [f"model_text ({t})" for t in silent_terms[:4]]
            texts = eval_strings(PROP, COQ_HEADER + "\n".join(nm_defs + DEFS.used_by("\n".join(exprs))), exprs)
            for d, m in zip(silent, texts):
                d["model"] = m
        except Exception as e:  # noqa
            for d in silent[:1]:
                d["model"] = "<could not evaluate the model: %s>" % str(e)[:300]
    silent += [icases[i][1] for i in bad_i if icases[i][1]["pack"] not in sem_failed_packs]
    silent_e = [echecks[i][1] for i in bad_e]
    if (silent or silent_e) and not ck.violations:
        ck.violation(dict(kind="correspondence-differs",
                          theorem="C20_sqrt / C20_random_range / C20_random_correct no longer speak about the emitted code",
                          n_differing=len(bad_f) + len(bad_i) + len(bad_e), cases=(silent + silent_e)[:6],
                          searched=f"{n_runs} mcvm runs of the real emitted functions found no failing input"), no_input=True)
    elif (bad_f or bad_i or bad_e) and ck.violations:
        ck.cov["correspondence_differing_cases"] = len(bad_f) + len(bad_i) + len(bad_e)

    shapes = {(p["kind"], p["target"], str(p.get("arg")), str(p.get("lo")), str(p.get("hi")), p["wrapped"], p.get("style"))
              for p in probes}
    hist, style_hist, layout_hist, literal_hist = {}, {}, {}, {}
    for p in probes:
        k = p["kind"] if p["kind"] == "sqrt" else f"random {eff_lo(p)[0]}/{eff_hi(p)[0]}" + (" aliased" if p["target"] in (p["lo"][1], p["hi"][1]) else "")
        k += " in-execute" if p["wrapped"] else ""
        hist[k] = hist.get(k, 0) + 1
        if p["kind"] == "random":
            st = p.get("style", "pos")
            if st == "pos" and p["hi"][0] == "default":
                st = "empty" if p["lo"][0] == "default" else "pos1"
            elif st == "kw" and "default" in (p["lo"][0], p["hi"][0]):
                st = "minonly" if p["hi"][0] == "default" else "maxonly"
            style_hist[st] = style_hist.get(st, 0) + 1
            layout_hist[STYLES[st][0]] = layout_hist.get(STYLES[st][0], 0) + 1
            literal_hist[STYLES[st][1]] = literal_hist.get(STYLES[st][1], 0) + 1
    n_matrix = sum(1 for p in probes if p.get("matrix"))
    ck.cov.update(dict(
        evaluations=len(fcases) + len(icases) + len(echecks),
        evaluations_before_dedup=raw_cases,
        distinct_nontrivial=sum(1 for _, d in fcases if not d["role"].startswith(("shared private function", "__load__", "unexpected"))),
        distinct_inputs=len(shapes) * len(CERTS) + len({(pk["ci"], name, repr(items)) for pk in seq_packs for name, items in pk["order"]}),
        rule="a case = one emitted function file (call site, execute wrapper, shared private function, __load__ lines), one "
             "integer-constant set or one expected compile error; identical (model term, emitted text) pairs are evaluated and counted once "
             "(evaluations_before_dedup = with repetitions); per names configuration (2) every probe call alone and (all base probes, "
             "a third of the spelling matrix in the quick tier) together; distinct_nontrivial = the evaluated cases that hold a call (call "
             "site, execute wrapper, sequence function or block; pairwise distinct (model term, file name, emitted text) by construction; the "
             "shared private functions and __load__ lines are not counted); distinct_inputs = distinct (probe shape incl. spelling, names "
             "configuration) pairs + distinct (sequence function, names configuration) pairs; every probe exercises a branch "
             "of the model (operand-kind combination, literal sign/INT_MIN, default/keyword form, aliasing, execute) or a spelling of one",
        samples=[dict(statement=probe_stmt(p, CERTS[0]), header=jobs[i].get("header"), emitted=functions_of(results[i]["files"], NAMESPACES[0]).get("p"))
                 for i, p in list(enumerate(probes))[:2] + list(enumerate(probes))[18:20] +
                 [(i, p) for i, p in enumerate(probes) if p.get("matrix") and p.get("style") in ("kwblank", "macrokw", "minonly")][:3]
                 if results[i]["ok"]],
        programs=len(jobs) + len(err_jobs) + len(seq_jobs) + len(oq_jobs), disagreements_checked=len(bad_f) + len(bad_i) + len(bad_e),
        semantic_runs=n_runs, sqrt_values_checked=len(sq_vals), branch_histogram=hist,
        spelling_histogram=style_hist, spelling_layouts=layout_hist, spelling_literal_forms=literal_hist,
        spelling_matrix=dict(operand_combinations=len(matrix_combos(tier)), probes=n_matrix, groups_compared=n_groups,
                             members_compared=n_members, differing=len(diffs), error_probe_spellings=len(ERROR_PROBES),
                             rule="all spellings of one call (same names configuration, target, effective min/max, execute context) must emit "
                                  "identical functions (compared in python, replay kind spelling-differs) and each the model's text (Coq)"),
        coq_case_files=len(shards),
        sequence_packs=len(seq_packs), sequence_functions=sum(len(pk["order"]) for pk in seq_packs), sequence_calls=n_seq_calls,
        sequence_rule="functions holding 2-4 Math.random/Math.sqrt calls (same/different ranges, operands, targets; repeated calls; various spellings) with function "
                      "calls, assignments, execute-wrapped calls, if/while blocks in between; expected text of every function and block = concatenation "
                      "of the model's text of each item; every function run in mcvm, every observable target checked",
        correspondence="parsed emitted terms = model terms (decided equality) and pr_cmds(parsed) = emitted text, for every file",
    ))
    # ---- the statements in a position that takes ONE command (strengthening round 4; placement proved under C02)
    ck.cov.update(c20_ctx.probe(ck, CERTS, NAMESPACES, score_of, tier))
    return ck.finish()


# ------------------------------------------------------------------ replay

def _replay_job(src, header, cert, ns):
    job = dict(src=src, cert=cert_text(cert), namespace=ns, timeout=60)
    if header:
        job["header"] = header
    return job


def replay_spelling(r) -> int:
    cert, ns = r["jmc_txt"], r["namespace"]
    a, b = compile_batch([_replay_job(r["reference_program"], r.get("reference_header"), cert, ns),
                          _replay_job(r["program"], r.get("header"), cert, ns)])
    def texts(res):
        if not res["ok"]:
            return {"<compile error>": str(res.get("exc"))}
        fns = functions_of(res["files"], ns)
        return {k: fns.get(k, "<missing function>") for k in r["expected"] if not k.startswith("<")} or {"p": fns.get("p")}
    ta, tb = texts(a), texts(b)
    print(f"repo: {REPO}\nreference spelling ({r.get('reference_style')}): {r['reference_program']}  header: {r.get('reference_header')!r}")
    print(f"this spelling      ({r.get('style')}): {r['program']}  header: {r.get('header')!r}")
    print("expected (what the reference spelling emits now):\n" + json.dumps(ta, indent=1))
    print("actual (what this spelling emits now):\n" + json.dumps(tb, indent=1))
    if ta != tb:
        print("FAILS: two spellings of the same call emit different functions")
        return 1
    print("holds: both spellings emit the same functions")
    return 0


def replay(path) -> int:
    r = json.loads(open(path).read())
    if r.get("mode") == "context":
        return c20_ctx.replay(r, score_of)
    if r.get("kind") == "sequence-semantic-failure":
        return replay_sequence(r)
    if r.get("kind") == "spelling-differs":
        return replay_spelling(r)
    if r.get("kind") == "probe-does-not-compile":
        res, = compile_batch([_replay_job(r["program"], r.get("header"), r["jmc_txt"], r["namespace"])])
        print(f"program: {r['program']}\nheader: {r.get('header')!r}  repo: {REPO}\nexpected: {r['expected']}")
        print("actual: compiles" if res["ok"] else f"actual: {res.get('exc')}: {res.get('msg', '')[:300]}")
        return 0 if res["ok"] else 1
    if r.get("kind") != "semantic-failure":
        print(f"replay file {path} holds no concrete input (kind={r.get('kind')}); re-run ./check C20")
        print(json.dumps(r, indent=1)[:3000])
        return 1
    cert, ns, p, fail = r["jmc_txt"], r["namespace"], r["probe"], r["failure"]
    p["lo"] = tuple(p["lo"]) if p.get("lo") else None
    p["hi"] = tuple(p["hi"]) if p.get("hi") else None
    res, = compile_batch([_replay_job(r["program"], r.get("header"), cert, ns)])
    print(f"program: {r['program'][:400]}\nheader: {r.get('header')!r}\nfunction: {r['function']}  init: {fail['init']}  repo: {REPO}")
    if not res["ok"]:
        print(f"expected: compiles; actual: {res['exc']}: {res['msg'][:300]}")
        return 1
    fns = functions_of(res["files"], ns)
    init = {(h, o): v for h, o, v in fail["init"]}
    vm, before, err = run_case(fns, ns, cert, r["function"], init, guard=fail["kind"] != "guard-ignored")
    t = score_of(p["target"], cert)
    got = vm.s.get(t)
    if fail["kind"] == "guard-ignored":
        print(f"expected: target unchanged ({before.get(t)}) when the execute condition is false; actual: {got} err={err}")
        return 1 if (err or got != before.get(t)) else 0
    if p["kind"] == "sqrt":
        n = init[score_of(p["arg"], cert)]
        exp = isqrt(n)
        print(f"expected: {p['target']} = floor(sqrt({n})) = {exp}, no other user score changed; actual: {got} err={err}")
        bad = err or got != exp or frame_failure(vm, before, cert, {t})
    else:
        a, b = fail["lo"], fail["hi"]
        print(f"expected: {a} <= {p['target']} <= {b}, no other user score changed; actual: {got} err={err}")
        bad = err or got is None or not (a <= got <= b) or frame_failure(vm, before, cert, {t, (str(INT_MIN), cert["INT"])})
    print("emitted:\n" + (fns.get(r["function"]) or "<missing>"))
    return 1 if bad else 0


def _tuplify(items):
    out = []
    for it in items:
        it = list(it)
        if it[0] == "call":
            p = dict(it[1])
            for k in ("lo", "hi"):
                if p.get(k) is not None:
                    p[k] = tuple(p[k])
            out.append(("call", p))
        elif it[0] in ("if", "while"):
            out.append((it[0], it[1], it[2], _tuplify(it[3])))
        else:
            out.append(tuple(it))
    return out


def replay_sequence(r) -> int:
    cert, ns, fail = r["jmc_txt"], r["namespace"], r["failure"]
    items = _tuplify(r["items"])
    res, = compile_batch([_replay_job(r["program"], r.get("header"), cert, ns)])
    print(f"function {r['function']}: {' '.join(item_src(x, cert) for x in items)}\ninit: {fail['init']}  repo: {REPO}")
    if not res["ok"]:
        print(f"expected: compiles; actual: {res['exc']}: {res['msg'][:300]}")
        return 1
    fns = functions_of(res["files"], ns)
    init = {(h, o): v for h, o, v in fail["init"]}
    f = seq_check_run(fns, ns, cert, r["function"], items, init, fail.get("blocks_taken", True))
    print("emitted:\n" + (fns.get(r["function"]) or "<missing>"))
    if f:
        print(f"FAILS: {f['kind']} at `{f.get('statement')}`: expected {f.get('expected')}; actual {f.get('actual')}")
        return 1
    print(f"holds: every call's target meets its contract (recorded failure: {fail['kind']} at `{fail.get('statement')}`, "
          f"expected {fail.get('expected')}, actual {fail.get('actual')})")
    return 0
