"""Runs the real JMC compiler on a batch of (possibly malformed) inputs and classifies the outcome.

Executed with /venv/bin/python and PYTHONPATH=<repo>/src (harness/lib.py: run_py).
stdin : JSON {"jobs": [{"src", "header"?, "pack_format"?}...], "timeout": seconds (default 5), "cert": str}
stdout: JSON list, one entry per job:
   ["ok"]                                        compiled
   ["diag", exception class]                     one of JMC's own diagnostics (jmc.compile.exception.EXCEPTIONS —
                                                 the family terminal_commands.py prints as an error report)
   ["internal", exception class, file, function, lineno, message[:200], expr]
                                                 any other exception; (file, function) = innermost frame inside jmc/;
                                                 expr = source text (whitespace removed) of the very sub-expression /
                                                 that was executing in that frame (code.co_positions -> ast node), local
                                                 names anonymised, prefixed by the kind of statement it belongs to, e.g.
                                                 `Delete:_[3]` for `del tokens[3]`: the crash SITE, stable under renaming
                                                 locals / moving / re-indenting / re-wrapping code
   ["timeout"]                                   signal.alarm fired
"""
import ast
import builtins
import copy
import itertools
import json
import linecache
import os
import signal
import sys
import traceback


class _Timeout(BaseException):
    pass


def _alarm(signum, frame):
    raise _Timeout()


_TREES = {}


class _Anon(ast.NodeTransformer):
    """local names -> `_` (attribute names, constants and the shape stay)"""

    def visit_Name(self, node):
        if hasattr(builtins, node.id) or node.id[:1].isupper():
            return node          # builtins, classes and constants are not local names
        return ast.copy_location(ast.Name(id="_", ctx=node.ctx), node)


def _site_of(filename, l0, l1, c0, c1):
    """`<kind of the enclosing simple statement / compound header>:<failing sub-expression, local names anonymised>`"""
    if filename not in _TREES:
        with open(filename, "rb") as fh:
            tree = ast.parse(fh.read())
        parents = {}
        for node in ast.walk(tree):
            for ch in ast.iter_child_nodes(node):
                parents[ch] = node
        _TREES[filename] = (tree, parents)
    tree, parents = _TREES[filename]
    best = None
    for node in ast.walk(tree):
        if getattr(node, "lineno", None) == l0 and getattr(node, "end_lineno", None) == l1 \
                and node.col_offset == c0 and node.end_col_offset == c1:
            best = node
            break
    if best is None:
        return None
    st = best
    while not isinstance(st, ast.stmt) and st in parents:
        st = parents[st]
    text = ast.unparse(_Anon().visit(copy.deepcopy(best)))
    return (type(st).__name__ + ":" + "".join(text.split()))[:200]


def failing_expr(tb) -> str:
    """the crash SITE inside the frame of `tb`: kind of statement + the sub-expression that was executing
    (code.co_positions -> ast node), local variable names anonymised: stable under renaming locals, re-indenting,
    re-wrapping and moving code; fallback: the raw source text of the line"""
    code = tb.tb_frame.f_code
    try:
        l0, l1, c0, c1 = next(itertools.islice(code.co_positions(), tb.tb_lasti // 2, None))
        if None not in (l0, l1, c0, c1):
            site = _site_of(code.co_filename, l0, l1, c0, c1)
            if site is not None:
                return site
    except Exception:  # noqa
        pass
    try:
        return "line:" + "".join(linecache.getline(code.co_filename, tb.tb_lineno).split())[:160]
    except Exception:  # noqa
        return "?"


def innermost_jmc_frame(tb):
    """[file, qualified function name, line, failing expression] of the innermost frame that belongs to jmc"""
    best = None
    while tb is not None:
        code = tb.tb_frame.f_code
        if "/jmc/" in code.co_filename.replace("\\", "/"):
            best = [os.path.basename(code.co_filename), getattr(code, "co_qualname", code.co_name), tb.tb_lineno,
                    failing_expr(tb)]
        tb = tb.tb_next
    return best or ["?", "?", 0, "?"]


def main():
    import logging
    logging.disable(logging.CRITICAL)
    import warnings
    warnings.simplefilter("ignore")
    from jmc.compile.test_compile import JMCTestPack
    from jmc.compile.exception import EXCEPTIONS
    signal.signal(signal.SIGALRM, _alarm)
    req = json.load(sys.stdin)
    timeout = int(req.get("timeout", 5))
    cert = req.get("cert")
    real_stdout = sys.stdout
    sys.stdout = open(os.devnull, "w")
    sys.stderr = open(os.devnull, "w")
    out = []
    for job in req["jobs"]:
        signal.alarm(timeout)
        try:
            p = JMCTestPack()
            p.set_jmc_file(job["src"])
            if job.get("header") is not None:
                p.set_header_file(job["header"])
            if cert is not None:
                p.set_cert(cert)
            if job.get("pack_format") is not None:
                p.set_pack_format(job["pack_format"])
            p.build()
            signal.alarm(0)
            out.append(["ok"])
        except _Timeout:
            out.append(["timeout"])
        except EXCEPTIONS as e:
            signal.alarm(0)
            out.append(["diag", type(e).__name__])
        except BaseException as e:  # noqa
            signal.alarm(0)
            fr = innermost_jmc_frame(e.__traceback__)
            out.append(["internal", type(e).__name__, fr[0], fr[1], fr[2], str(e)[:200], fr[3]])
        finally:
            signal.alarm(0)
    sys.stdout = real_stdout
    json.dump(out, sys.stdout)


if __name__ == "__main__":
    main()
