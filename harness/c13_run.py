"""Runs the real JMC compiler on a batch of (possibly malformed) inputs and classifies the outcome.

Executed with /venv/bin/python and PYTHONPATH=<repo>/src (harness/lib.py: run_py).
stdin : JSON {"jobs": [{"src", "header"?, "pack_format"?}...], "timeout": seconds (default 5), "cert": str}
stdout: JSON list, one entry per job:
   ["ok"]                                        compiled
   ["diag", exception class]                     one of JMC's own diagnostics (jmc.compile.exception.EXCEPTIONS —
                                                 the family terminal_commands.py prints as an error report)
   ["internal", exception class, file, function, lineno, message[:200], expr]
                                                 any other exception; (file, function) = innermost frame inside jmc/;
                                                 expr = source text (whitespace removed) of the very sub-expression /
                                                 statement of that frame that was executing (code.co_positions) + " @ " +
                                                 the text of its source line, e.g. `tokens[3] @ deltokens[3]`: the
                                                 crash SITE, stable under moving / re-indenting code
   ["timeout"]                                   signal.alarm fired
"""
import itertools
import json
import linecache
import os
import signal
import sys
import traceback


class _Timeout(BaseException):
    pass


def _alarm(signum, frame):
    raise _Timeout()


def failing_expr(tb) -> str:
    """source text of the instruction that was executing in the frame of `tb`, all whitespace removed"""
    try:
        code = tb.tb_frame.f_code
        l0, l1, c0, c1 = next(itertools.islice(code.co_positions(), tb.tb_lasti // 2, None))
        if None in (l0, l1, c0, c1):
            return "".join(linecache.getline(code.co_filename, tb.tb_lineno).split())[:160]
        lines = [linecache.getline(code.co_filename, n).encode("utf-8") for n in range(l0, l1 + 1)]
        if l0 == l1:
            lines[0] = lines[0][c0:c1]
        else:
            lines[0] = lines[0][c0:]
            lines[-1] = lines[-1][:c1]
        expr = "".join(b"".join(lines).decode("utf-8", "replace").split())[:160]
        # + the (whitespace-free) text of the source line it starts on: `tokens[1]` alone does not tell
        # `del tokens[1]` from `tokens[1] = merge(...)` in another branch of the same function
        return expr + " @ " + "".join(linecache.getline(code.co_filename, l0).split())[:100]
    except Exception:  # noqa
        return "?"


def innermost_jmc_frame(tb):
    """[file, qualified function name, line, failing expression] of the innermost frame that belongs to jmc"""
    best = None
    while tb is not None:
        code = tb.tb_frame.f_code
        if "/jmc/" in code.co_filename.replace("\\", "/"):
            best = [os.path.basename(code.co_filename), getattr(code, "co_qualname", code.co_name), tb.tb_lineno,
                    failing_expr(tb)]
        tb = tb.tb_next
    return best or ["?", "?", 0, "?"]


def main():
    import logging
    logging.disable(logging.CRITICAL)
    import warnings
    warnings.simplefilter("ignore")
    from jmc.compile.test_compile import JMCTestPack
    from jmc.compile.exception import EXCEPTIONS
    signal.signal(signal.SIGALRM, _alarm)
    req = json.load(sys.stdin)
    timeout = int(req.get("timeout", 5))
    cert = req.get("cert")
    real_stdout = sys.stdout
    sys.stdout = open(os.devnull, "w")
    sys.stderr = open(os.devnull, "w")
    out = []
    for job in req["jobs"]:
        signal.alarm(timeout)
        try:
            p = JMCTestPack()
            p.set_jmc_file(job["src"])
            if job.get("header") is not None:
                p.set_header_file(job["header"])
            if cert is not None:
                p.set_cert(cert)
            if job.get("pack_format") is not None:
                p.set_pack_format(job["pack_format"])
            p.build()
            signal.alarm(0)
            out.append(["ok"])
        except _Timeout:
            out.append(["timeout"])
        except EXCEPTIONS as e:
            signal.alarm(0)
            out.append(["diag", type(e).__name__])
        except BaseException as e:  # noqa
            signal.alarm(0)
            fr = innermost_jmc_frame(e.__traceback__)
            out.append(["internal", type(e).__name__, fr[0], fr[1], fr[2], str(e)[:200], fr[3]])
        finally:
            signal.alarm(0)
    sys.stdout = real_stdout
    json.dump(out, sys.stdout)


if __name__ == "__main__":
    main()
