"""Runs the real JMC compiler on a batch of (possibly malformed) inputs and classifies the outcome.

Executed with /venv/bin/python and PYTHONPATH=<repo>/src (harness/lib.py: run_py).
stdin : JSON {"jobs": [{"src", "header"?, "pack_format"?, "alarm"? (seconds, overrides timeout)}...], "timeout": seconds
              (default 5), "cert": str, "times"? (true: the wall time of the job in seconds is appended to its entry)}
stdout: JSON list, one entry per job:
   ["ok"]                                        compiled
   ["diag", exception class]                     one of JMC's own diagnostics (jmc.compile.exception.EXCEPTIONS —
                                                 the family terminal_commands.py prints as an error report)
   ["internal", exception class, file, function, lineno, message[:200], expr, frames]
                                                 any other exception; (file, function) = innermost frame inside jmc/;
                                                 frames = the distinct [file, function] pairs of the jmc frames of the
                                                 traceback, outermost first (which cycle a RecursionError went through);
                                                 expr = source text (whitespace removed) of the very sub-expression /
                                                 that was executing in that frame (code.co_positions -> ast node), local
                                                 names anonymised, prefixed by the kind of statement it belongs to, e.g.
                                                 `Delete:_[3]` for `del tokens[3]`: the crash SITE, stable under renaming
                                                 locals / moving / re-indenting / re-wrapping code
   ["timeout", file, function, lineno, expr, stack]
                                                 signal.alarm fired; the innermost jmc frame that was executing then
                                                 (same site notation as for "internal") and [file, function] of the
                                                 (at most 40 innermost) jmc frames on the stack, outermost first
 a job {"canary": seconds} does not call the compiler: it spins for that long inside the same alarm bracket and must
 come back as ["timeout", ...] - the self-test of the hang detector (c13.py runs one in every batch).
stdin {"op": "macro", "programs": [src...], "texts": [condition text...], "cert": str}: the observations the round-4 model of
   Tokenizer.merge_vanilla_macro (coq/Model/TokMacro.v) is compared with (see macro_op below)
stdin {"op": "builtins"}: stdout = the registry of built-in functions of the tree under test
   [{"name", "type" (FuncType), "args": {parameter: ArgType name}, "defaults": {parameter: text}}...]
"""
import ast
import builtins
import copy
import itertools
import json
import linecache
import os
import signal
import sys
import traceback


class _Timeout(BaseException):
    pass


def _alarm(signum, frame):
    raise _Timeout()


_TREES = {}


class _Anon(ast.NodeTransformer):
    """local names -> `_` (attribute names, constants and the shape stay)"""

    def visit_Name(self, node):
        if hasattr(builtins, node.id) or node.id[:1].isupper():
            return node          # builtins, classes and constants are not local names
        return ast.copy_location(ast.Name(id="_", ctx=node.ctx), node)


def _site_of(filename, l0, l1, c0, c1):
    """`<kind of the enclosing simple statement / compound header>:<failing sub-expression, local names anonymised>`"""
    if filename not in _TREES:
        with open(filename, "rb") as fh:
            tree = ast.parse(fh.read())
        parents = {}
        for node in ast.walk(tree):
            for ch in ast.iter_child_nodes(node):
                parents[ch] = node
        _TREES[filename] = (tree, parents)
    tree, parents = _TREES[filename]
    best = None
    for node in ast.walk(tree):
        if getattr(node, "lineno", None) == l0 and getattr(node, "end_lineno", None) == l1 \
                and node.col_offset == c0 and node.end_col_offset == c1:
            best = node
            break
    if best is None:
        return None
    st = best
    while not isinstance(st, ast.stmt) and st in parents:
        st = parents[st]
    text = ast.unparse(_Anon().visit(copy.deepcopy(best)))
    return (type(st).__name__ + ":" + "".join(text.split()))[:200]


def failing_expr(code, lasti, lineno) -> str:
    """the crash SITE inside a frame (its code object, instruction offset, line): kind of statement + the sub-expression
    that was executing (code.co_positions -> ast node), local variable names anonymised: stable under renaming locals,
    re-indenting, re-wrapping and moving code; fallback: the raw source text of the line"""
    try:
        l0, l1, c0, c1 = next(itertools.islice(code.co_positions(), lasti // 2, None))
        if None not in (l0, l1, c0, c1):
            site = _site_of(code.co_filename, l0, l1, c0, c1)
            if site is not None:
                return site
    except Exception:  # noqa
        pass
    try:
        return "line:" + "".join(linecache.getline(code.co_filename, lineno).split())[:160]
    except Exception:  # noqa
        return "?"


def innermost_jmc_frame(tb, stack=None):
    """[file, qualified function name, line, failing expression] of the innermost frame that belongs to jmc.
    The frames of the traceback are cleared (their locals may hold gigabytes when the job ran into the memory limit)
    BEFORE the source of the frame is parsed.  `stack` (a list) receives [file, function] of every jmc frame, outermost first."""
    best = None
    top = tb
    while tb is not None:
        code = tb.tb_frame.f_code
        if "/jmc/" in code.co_filename.replace("\\", "/"):
            best = (code, tb.tb_lasti, tb.tb_lineno)
            if stack is not None:
                fr = [os.path.basename(code.co_filename), getattr(code, "co_qualname", code.co_name)]
                if not stack or stack[-1] != fr:
                    stack.append(fr)
        tb = tb.tb_next
    try:
        traceback.clear_frames(top)
    except Exception:  # noqa
        pass
    if best is None:
        return ["?", "?", 0, "?"]
    code, lasti, lineno = best
    return [os.path.basename(code.co_filename), getattr(code, "co_qualname", code.co_name), lineno,
            failing_expr(code, lasti, lineno)]


# ------------------------------------------------------------------------------------------------------------------
# round 4: observations of Tokenizer.merge_vanilla_macro for the comparison with coq/Model/TokMacro.v
def _tok(t):
    return [t.token_type.name, t.line, t.col, t.string, t.quote]


def macro_op(req):
    """-> {"calls": [...], "programs_run": n}.  One entry per observation:
         {"fn": 0, "toks": [...], "kp": k, "out": ..., "clean": {...}, "repr": {...}, "src": <program or text>, "caller": name}
             one call of merge_vanilla_macro(tokens, k): traced while a program compiled, or made directly on the tokens of a text
         {"fn": 1 | 2, "toks": [...], "out": ...}   the whole loop of condition_to_ast (1) / Lexer._is_vanilla_func (2) on one list:
             first list handed over -> list after the last call
       out = ["ok", tokens] | ["diag"] | ["exc", class name];  tokens = [type, line, col, string, quote];
       clean = {bracket token string: cleaned text | None (JMC diagnostic)} as clean_up_paren_token answers for the bracket
       tokens of the list;  repr = {STRING token string: len(repr(string))}.
       Lists that contain a token made by a header macro (`_macro_end`) are skipped (outside the model)."""
    import logging
    logging.disable(logging.CRITICAL)
    from jmc.compile.test_compile import JMCTestPack
    from jmc.compile.exception import EXCEPTIONS
    from jmc.compile.tokenizer import Tokenizer, Token, TokenType
    from jmc.compile import utils as jutils
    import jmc.compile.command.condition as cond
    from jmc.compile.lexer import Lexer
    signal.signal(signal.SIGALRM, _alarm)
    real = getattr(Tokenizer, "merge_vanilla_macro", None)
    if real is None:        # the method the model speaks about is gone: nothing to observe (the check reports the tie as ineffective)
        json.dump(dict(calls=[], programs_run=0, traced=0, error="Tokenizer.merge_vanilla_macro not found"), sys.stdout)
        return
    calls = []
    state = dict(src=None)
    brackets = (TokenType.PAREN_ROUND, TokenType.PAREN_SQUARE, TokenType.PAREN_CURLY)

    def tables(tokens, tokenizer):
        clean, rp = {}, {}
        for t in tokens:
            if t.token_type in brackets and t.string not in clean:
                try:
                    clean[t.string] = jutils.clean_up_paren_token(t, tokenizer)
                except EXCEPTIONS:
                    clean[t.string] = None
                except Exception:  # noqa   (an internal exception of the helper: the case is not comparable)
                    return None, None
            if t.token_type == TokenType.STRING:
                rp[t.string] = len(repr(t.string))
        return clean, rp

    def outcome(e, tokens):
        if e is None:
            return ["ok", [_tok(t) for t in tokens]]
        if isinstance(e, EXCEPTIONS):
            return ["diag"]
        return ["exc", type(e).__name__]

    def wrapper(self, tokens, key_pos):
        caller = sys._getframe(1).f_code.co_name
        before = list(tokens)
        plain = all(getattr(t, "_macro_end", None) is None for t in before)
        clean, rp = tables(before, self) if plain else (None, None)
        err = None
        try:
            return real(self, tokens, key_pos)
        except BaseException as e:  # noqa
            err = e
            raise
        finally:
            if clean is not None and not isinstance(err, _Timeout):
                calls.append(dict(fn=0, toks=[_tok(t) for t in before], kp=key_pos, out=outcome(err, tokens), clean=clean, repr=rp,
                                  src=state["src"], caller=caller, lid=id(tokens)))

    Tokenizer.merge_vanilla_macro = wrapper
    cert = req.get("cert")
    sys_stdout, sys_stderr = sys.stdout, sys.stderr
    sys.stdout = open(os.devnull, "w")
    sys.stderr = open(os.devnull, "w")
    n_run = 0
    for src in req.get("programs", []):
        state["src"] = src
        n_run += 1
        try:
            signal.alarm(5)
            p = JMCTestPack()
            p.set_jmc_file(src)
            if cert is not None:
                p.set_cert(cert)
            p.build()
        except BaseException:  # noqa
            pass
        finally:
            signal.alarm(0)
    traced = len(calls)

    # ---- direct calls on the tokens of condition texts (and on damaged copies of them)
    class _Captured(Exception):
        pass

    def stop(tokens, *a, **k):
        raise _Captured()

    for text in req.get("texts", []):
        state["src"] = text
        try:
            tk = Tokenizer(text, "main.jmc", expect_semicolon=False)
            progs = tk.programs
        except BaseException:  # noqa
            continue
        if not progs:
            continue
        base = list(progs[0])
        variants = [base]
        if len(base) >= 2:
            variants.append(base[1:])                       # without its first token
            variants.append(base[:1] + base[2:])            # a hole after the first token (connectedness broken)
            variants.append([base[1], base[0]] + base[2:])  # first two swapped
        for vn, toks in enumerate(variants):
            for kp in range(-3, len(toks) + 3):
                lst = list(toks)
                try:
                    tk.merge_vanilla_macro(lst, kp)
                except BaseException:  # noqa
                    pass
            if vn == 0 and not (len(toks) == 1 and toks[0].token_type == TokenType.PAREN_ROUND):
                # the loop of condition_to_ast, observed up to its first call of find_operator
                lst = list(toks)
                saved = cond.find_operator
                cond.find_operator = stop
                first = len(calls)
                err, seen = None, False
                try:
                    cond.condition_to_ast(lst, tk, None, "")
                except _Captured:
                    seen = True
                except BaseException as e:  # noqa
                    err = e
                finally:
                    cond.find_operator = saved
                mine = [c for c in calls[first:] if c["caller"] == "condition_to_ast"]
                clean, rp = tables(toks, tk)
                if clean is not None and (seen or err is not None) and len(calls) > first:
                    calls.append(dict(fn=1, toks=[_tok(t) for t in toks], kp=0, out=outcome(err, lst), clean=clean, repr=rp, src=text,
                                      caller="condition_to_ast", lid=0, direct=True))
                # the loop of Lexer._is_vanilla_func (works on a copy: the list after the last traced call)
                lx = object.__new__(Lexer)
                lx.load_tokenizer = tk
                first = len(calls)
                err = None
                try:
                    Lexer._is_vanilla_func(lx, list(toks))
                except BaseException as e:  # noqa
                    err = e
                mine = [c for c in calls[first:] if c["caller"] == "_is_vanilla_func"]
                if clean is not None and (mine or err is not None):
                    last = mine[-1]["out"] if mine else None
                    out = outcome(err, []) if err is not None else last
                    calls.append(dict(fn=2, toks=[_tok(t) for t in toks], kp=0, out=out, clean=clean, repr=rp, src=text,
                                      caller="_is_vanilla_func", lid=0, direct=True))
    Tokenizer.merge_vanilla_macro = real
    sys.stdout, sys.stderr = sys_stdout, sys_stderr

    # ---- traced loops of condition_to_ast: a run of calls on the same list object with positions 0, 1, 2, ...
    loops = []
    i = 0
    tr = calls[:traced]
    while i < len(tr):
        c = tr[i]
        if c["caller"] == "condition_to_ast" and c["kp"] == 0:
            j = i
            while j + 1 < len(tr) and tr[j + 1]["caller"] == "condition_to_ast" and tr[j + 1]["lid"] == c["lid"] \
                    and tr[j + 1]["kp"] == tr[j]["kp"] + 1 and tr[j]["out"][0] == "ok":
                j += 1
            clean, rp = dict(c["clean"]), dict(c["repr"])
            loops.append(dict(fn=1, toks=c["toks"], kp=0, out=tr[j]["out"], clean=clean, repr=rp, src=c["src"], caller="condition_to_ast",
                              lid=0, calls=j - i + 1))
            i = j + 1
        else:
            i += 1
    json.dump(dict(calls=calls + loops, programs_run=n_run, traced=traced), sys.stdout)


def main():
    import logging
    logging.disable(logging.CRITICAL)
    import warnings
    warnings.simplefilter("ignore")
    from jmc.compile.test_compile import JMCTestPack
    from jmc.compile.exception import EXCEPTIONS
    signal.signal(signal.SIGALRM, _alarm)
    try:        # an input that makes the compiler allocate tens of gigabytes AT ONCE (`[x] * 10**9`) ends in MemoryError instead of
        #         taking the machine down; gradual growth does not get this far within the alarm (it is reported as a timeout)
        import resource
        resource.setrlimit(resource.RLIMIT_AS, (7 << 30, 7 << 30))
    except Exception:  # noqa
        pass
    req = json.load(sys.stdin)
    if req.get("op") == "macro":
        macro_op(req)
        return
    if req.get("op") == "builtins":
        from jmc.compile.command.jmc_function import JMCFunction, FuncType
        import jmc.compile.command.builtin_function  # noqa: F401  (registers the built-ins)
        reg = []
        for ft in FuncType:
            for name, cls in JMCFunction.get_subclasses(ft).items():
                reg.append(dict(name=name, type=ft.name, args={k: v.name for k, v in cls.arg_type.items()},
                                defaults={k: str(v) for k, v in cls.defaults.items()}))
        json.dump(reg, sys.stdout)
        return
    timeout = int(req.get("timeout", 5))
    cert = req.get("cert")
    real_stdout = sys.stdout
    sys.stdout = open(os.devnull, "w")
    sys.stderr = open(os.devnull, "w")
    out = []
    want_times = bool(req.get("times"))
    import time as _time
    import gc
    reserve = [bytearray(64 << 20)]      # given back when a job runs into the memory limit, so that the handler itself can run
    for job in req["jobs"]:
        if not reserve:
            gc.collect()
            try:
                reserve.append(bytearray(64 << 20))
            except MemoryError:
                pass
        t0 = _time.time()

        def classify(e):
            if isinstance(e, _Timeout):
                reserve.clear()
                stack = []
                fr = innermost_jmc_frame(e.__traceback__, stack)
                return ["timeout", fr[0], fr[1], fr[2], fr[3], stack[-40:]]
            if isinstance(e, EXCEPTIONS):
                return ["diag", type(e).__name__]
            if isinstance(e, MemoryError):
                reserve.clear()
            stack = []
            fr = innermost_jmc_frame(e.__traceback__, stack)
            distinct = []        # the DISTINCT jmc frames of the traceback, outermost first (a recursion repeats a few of them)
            for f_ in stack:
                if f_ not in distinct:
                    distinct.append(f_)
            return ["internal", type(e).__name__, fr[0], fr[1], fr[2], str(e)[:200], fr[3], distinct[:60]]

        try:
            try:
                signal.alarm(int(job.get("alarm", timeout)))
                if "canary" in job:
                    t_end = _time.time() + job["canary"]
                    while _time.time() < t_end:
                        pass
                else:
                    p = JMCTestPack()
                    p.set_jmc_file(job["src"])
                    if job.get("header") is not None:
                        p.set_header_file(job["header"])
                    if cert is not None:
                        p.set_cert(cert)
                    if job.get("pack_format") is not None:
                        p.set_pack_format(job["pack_format"])
                    p.build()
                signal.alarm(0)
                entry = ["ok"]
            except BaseException as e:  # noqa
                signal.alarm(0)
                entry = classify(e)
        except _Timeout as t:
            # the alarm fired while the exception of the job was being handled (before `signal.alarm(0)`): the job's
            # outcome is that exception
            signal.alarm(0)
            entry = classify(t.__context__ if t.__context__ is not None else t)
        finally:
            signal.alarm(0)
        out.append(entry)
        if want_times:
            out[-1] = out[-1] + [round(_time.time() - t0, 3)]
    sys.stdout = real_stdout
    json.dump(out, sys.stdout)


if __name__ == "__main__":
    main()
