"""Runs the real JMC compiler on a batch of (possibly malformed) inputs and classifies the outcome.

Executed with /venv/bin/python and PYTHONPATH=<repo>/src (harness/lib.py: run_py).
stdin : JSON {"jobs": [{"src", "header"?, "pack_format"?, "alarm"? (seconds, overrides timeout)}...], "timeout": seconds
              (default 5), "cert": str, "times"? (true: the wall time of the job in seconds is appended to its entry)}
stdout: JSON list, one entry per job:
   ["ok"]                                        compiled
   ["diag", exception class]                     one of JMC's own diagnostics (jmc.compile.exception.EXCEPTIONS —
                                                 the family terminal_commands.py prints as an error report)
   ["internal", exception class, file, function, lineno, message[:200], expr]
                                                 any other exception; (file, function) = innermost frame inside jmc/;
                                                 expr = source text (whitespace removed) of the very sub-expression /
                                                 that was executing in that frame (code.co_positions -> ast node), local
                                                 names anonymised, prefixed by the kind of statement it belongs to, e.g.
                                                 `Delete:_[3]` for `del tokens[3]`: the crash SITE, stable under renaming
                                                 locals / moving / re-indenting / re-wrapping code
   ["timeout", file, function, lineno, expr, stack]
                                                 signal.alarm fired; the innermost jmc frame that was executing then
                                                 (same site notation as for "internal") and [file, function] of the
                                                 (at most 40 innermost) jmc frames on the stack, outermost first
 a job {"canary": seconds} does not call the compiler: it spins for that long inside the same alarm bracket and must
 come back as ["timeout", ...] - the self-test of the hang detector (c13.py runs one in every batch).
stdin {"op": "builtins"}: stdout = the registry of built-in functions of the tree under test
   [{"name", "type" (FuncType), "args": {parameter: ArgType name}, "defaults": {parameter: text}}...]
"""
import ast
import builtins
import copy
import itertools
import json
import linecache
import os
import signal
import sys
import traceback


class _Timeout(BaseException):
    pass


def _alarm(signum, frame):
    raise _Timeout()


_TREES = {}


class _Anon(ast.NodeTransformer):
    """local names -> `_` (attribute names, constants and the shape stay)"""

    def visit_Name(self, node):
        if hasattr(builtins, node.id) or node.id[:1].isupper():
            return node          # builtins, classes and constants are not local names
        return ast.copy_location(ast.Name(id="_", ctx=node.ctx), node)


def _site_of(filename, l0, l1, c0, c1):
    """`<kind of the enclosing simple statement / compound header>:<failing sub-expression, local names anonymised>`"""
    if filename not in _TREES:
        with open(filename, "rb") as fh:
            tree = ast.parse(fh.read())
        parents = {}
        for node in ast.walk(tree):
            for ch in ast.iter_child_nodes(node):
                parents[ch] = node
        _TREES[filename] = (tree, parents)
    tree, parents = _TREES[filename]
    best = None
    for node in ast.walk(tree):
        if getattr(node, "lineno", None) == l0 and getattr(node, "end_lineno", None) == l1 \
                and node.col_offset == c0 and node.end_col_offset == c1:
            best = node
            break
    if best is None:
        return None
    st = best
    while not isinstance(st, ast.stmt) and st in parents:
        st = parents[st]
    text = ast.unparse(_Anon().visit(copy.deepcopy(best)))
    return (type(st).__name__ + ":" + "".join(text.split()))[:200]


def failing_expr(code, lasti, lineno) -> str:
    """the crash SITE inside a frame (its code object, instruction offset, line): kind of statement + the sub-expression
    that was executing (code.co_positions -> ast node), local variable names anonymised: stable under renaming locals,
    re-indenting, re-wrapping and moving code; fallback: the raw source text of the line"""
    try:
        l0, l1, c0, c1 = next(itertools.islice(code.co_positions(), lasti // 2, None))
        if None not in (l0, l1, c0, c1):
            site = _site_of(code.co_filename, l0, l1, c0, c1)
            if site is not None:
                return site
    except Exception:  # noqa
        pass
    try:
        return "line:" + "".join(linecache.getline(code.co_filename, lineno).split())[:160]
    except Exception:  # noqa
        return "?"


def innermost_jmc_frame(tb, stack=None):
    """[file, qualified function name, line, failing expression] of the innermost frame that belongs to jmc.
    The frames of the traceback are cleared (their locals may hold gigabytes when the job ran into the memory limit)
    BEFORE the source of the frame is parsed.  `stack` (a list) receives [file, function] of every jmc frame, outermost first."""
    best = None
    top = tb
    while tb is not None:
        code = tb.tb_frame.f_code
        if "/jmc/" in code.co_filename.replace("\\", "/"):
            best = (code, tb.tb_lasti, tb.tb_lineno)
            if stack is not None:
                fr = [os.path.basename(code.co_filename), getattr(code, "co_qualname", code.co_name)]
                if not stack or stack[-1] != fr:
                    stack.append(fr)
        tb = tb.tb_next
    try:
        traceback.clear_frames(top)
    except Exception:  # noqa
        pass
    if best is None:
        return ["?", "?", 0, "?"]
    code, lasti, lineno = best
    return [os.path.basename(code.co_filename), getattr(code, "co_qualname", code.co_name), lineno,
            failing_expr(code, lasti, lineno)]


def main():
    import logging
    logging.disable(logging.CRITICAL)
    import warnings
    warnings.simplefilter("ignore")
    from jmc.compile.test_compile import JMCTestPack
    from jmc.compile.exception import EXCEPTIONS
    signal.signal(signal.SIGALRM, _alarm)
    try:        # an input that makes the compiler allocate tens of gigabytes AT ONCE (`[x] * 10**9`) ends in MemoryError instead of
        #         taking the machine down; gradual growth does not get this far within the alarm (it is reported as a timeout)
        import resource
        resource.setrlimit(resource.RLIMIT_AS, (7 << 30, 7 << 30))
    except Exception:  # noqa
        pass
    req = json.load(sys.stdin)
    if req.get("op") == "builtins":
        from jmc.compile.command.jmc_function import JMCFunction, FuncType
        import jmc.compile.command.builtin_function  # noqa: F401  (registers the built-ins)
        reg = []
        for ft in FuncType:
            for name, cls in JMCFunction.get_subclasses(ft).items():
                reg.append(dict(name=name, type=ft.name, args={k: v.name for k, v in cls.arg_type.items()},
                                defaults={k: str(v) for k, v in cls.defaults.items()}))
        json.dump(reg, sys.stdout)
        return
    timeout = int(req.get("timeout", 5))
    cert = req.get("cert")
    real_stdout = sys.stdout
    sys.stdout = open(os.devnull, "w")
    sys.stderr = open(os.devnull, "w")
    out = []
    want_times = bool(req.get("times"))
    import time as _time
    import gc
    reserve = [bytearray(64 << 20)]      # given back when a job runs into the memory limit, so that the handler itself can run
    for job in req["jobs"]:
        if not reserve:
            gc.collect()
            try:
                reserve.append(bytearray(64 << 20))
            except MemoryError:
                pass
        t0 = _time.time()

        def classify(e):
            if isinstance(e, _Timeout):
                reserve.clear()
                stack = []
                fr = innermost_jmc_frame(e.__traceback__, stack)
                return ["timeout", fr[0], fr[1], fr[2], fr[3], stack[-40:]]
            if isinstance(e, EXCEPTIONS):
                return ["diag", type(e).__name__]
            if isinstance(e, MemoryError):
                reserve.clear()
            fr = innermost_jmc_frame(e.__traceback__)
            return ["internal", type(e).__name__, fr[0], fr[1], fr[2], str(e)[:200], fr[3]]

        try:
            try:
                signal.alarm(int(job.get("alarm", timeout)))
                if "canary" in job:
                    t_end = _time.time() + job["canary"]
                    while _time.time() < t_end:
                        pass
                else:
                    p = JMCTestPack()
                    p.set_jmc_file(job["src"])
                    if job.get("header") is not None:
                        p.set_header_file(job["header"])
                    if cert is not None:
                        p.set_cert(cert)
                    if job.get("pack_format") is not None:
                        p.set_pack_format(job["pack_format"])
                    p.build()
                signal.alarm(0)
                entry = ["ok"]
            except BaseException as e:  # noqa
                signal.alarm(0)
                entry = classify(e)
        except _Timeout as t:
            # the alarm fired while the exception of the job was being handled (before `signal.alarm(0)`): the job's
            # outcome is that exception
            signal.alarm(0)
            entry = classify(t.__context__ if t.__context__ is not None else t)
        finally:
            signal.alarm(0)
        out.append(entry)
        if want_times:
            out[-1] = out[-1] + [round(_time.time() - t0, 3)]
    sys.stdout = real_stdout
    json.dump(out, sys.stdout)


if __name__ == "__main__":
    main()
