(* Property C15 — the emitted datapack does not depend on layout (whitespace, line breaks,
   // comments).  Model: Model/Layout.v (the repaired tokenizer, Token.end / is_connected,
   CustomOrder).  Only statements, closed by `exact`, each followed by Print Assumptions. *)
From Coq Require Import ZArith String List Bool Ascii.
From JMCV Require Import Model.Layout Proofs.LayoutBasic Proofs.LayoutAdj Proofs.LayoutAdj2.
Import ListNotations.
Open Scope Z_scope.

(* C15_adjacency_is_lexical.  For every input, every start position and every tokenizer mode:
   in the token stream that `Tokenizer.parse` produces, `is_connected(b, a)` for consecutive tokens
   of a statement equals the flag t_glued b, which the state machine computes WITHOUT reading line or
   column ("no character that belongs to no token was consumed between a and b").  Adjacency is
   therefore a function of the lexical structure only: newlines inside a bracket, tabs, the column
   a token happens to sit in cannot change it.  (`s_ev st = false`: no `#` line comment, every
   string literal is written on one line with a repr() as long as its source text.)
   `mt_ok mt` holds for the empty macro table; for non-empty tables see C16. *)
Theorem C15_adjacency_is_lexical :
  forall mt cf es allow_last allow_sc line col s st sts,
    mt_ok mt ->
    parse_st mt cf es allow_sc line col s = Ok st -> s_ev st = false ->
    finish mt es allow_last st = Ok sts ->
    Forall adjacent_as_glued sts.
Proof. exact parse_adjacent. Qed.
Print Assumptions C15_adjacency_is_lexical.

(* The pinned is_connected (start line and col + len) is refuted by a bracket that spans lines:
   the same tokens, glued in the source, are connected on one line and not connected when the
   bracket contains a newline. *)
Theorem C15_pinned_refuted_multiline_bracket :
  exists s s' toks toks',
    relayout MCode s s' /\
    parse [] false true false false 1 1 s = Ok [toks] /\ parse [] false true false false 1 1 s' = Ok [toks'] /\
    map t_glued toks = map t_glued toks' /\
    conn_flags_with is_connected_pinned toks <> conn_flags_with is_connected_pinned toks' /\
    conn_flags_with is_connected toks = conn_flags_with is_connected toks'.
Proof. exact pinned_multiline_refuted. Qed.
Print Assumptions C15_pinned_refuted_multiline_bracket.

(* Precedence ties: the pinned comparison depends only on the ORDER of the two positions, and
   on position-faithful tokens (the later operator has the larger position) it equals the
   repaired comparison, which reads no position at all. *)
Theorem C15_order_invariant :
  forall a b a' b',
    o_order a = o_order a' -> o_order b = o_order b' -> o_left a = o_left a' ->
    (plt (opos a) (opos b) <-> plt (opos a') (opos b')) ->
    (plt (opos b) (opos a) <-> plt (opos b') (opos a')) ->
    custom_lt_pinned a b = custom_lt_pinned a' b'.
Proof. exact custom_lt_pinned_order_invariant. Qed.
Print Assumptions C15_order_invariant.

Theorem C15_order_repaired_is_conservative :
  forall a b, plt (opos b) (opos a) -> (o_order a = o_order b -> o_left a = o_left b) ->
              custom_lt_pinned a b = custom_lt a b.
Proof. exact custom_lt_pinned_later. Qed.
Print Assumptions C15_order_repaired_is_conservative.

(* Non-vacuity: a bracket spanning two lines followed by a glued keyword. *)
Example C15_nonvacuous :
  exists st toks,
    parse_st [] false true false 1 1 (s2l "a[{
b}].c;") = Ok st /\ s_ev st = false /\ finish [] true false st = Ok [toks] /\
    map t_glued toks = [false; true; true] /\ conn_flags_with is_connected toks = [false; true; true].
Proof. eexists. eexists. vm_compute. repeat split. Qed.
