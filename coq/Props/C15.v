(* Property C15 — the emitted datapack does not depend on layout (whitespace, line breaks,
   // comments).  Model: Model/Layout.v (the repaired tokenizer, Token.end / is_connected,
   CustomOrder).  Only statements, closed by `exact`, each followed by Print Assumptions. *)
From Coq Require Import ZArith String List Bool Ascii.
From JMCV Require Import Model.Layout Model.LayoutArg Proofs.LayoutBasic Proofs.LayoutAdj Proofs.LayoutAdj2 Proofs.LayoutSim Proofs.LayoutSim2 Proofs.LayoutDeep Proofs.LayoutGlue Proofs.LayoutArg Proofs.LayoutGap.
Import ListNotations.
Open Scope Z_scope.

(* C15_adjacency_is_lexical.  For every input, every start position and every tokenizer mode:
   in the token stream that `Tokenizer.parse` produces, `is_connected(b, a)` for consecutive tokens
   of a statement equals the flag t_glued b, which the state machine computes WITHOUT reading line or
   column ("no character that belongs to no token was consumed between a and b").  Adjacency is
   therefore a function of the lexical structure only: newlines inside a bracket, tabs, the column
   a token happens to sit in cannot change it.  (`s_ev st = false`: no `#` line comment, every
   string literal is written on one line with a repr() as long as its source text.)
   `mt_ok mt` holds for the empty macro table; for non-empty tables see C16. *)
Theorem C15_adjacency_is_lexical :
  forall mt cf es allow_last allow_sc line col s st sts,
    mt_ok mt ->
    parse_st mt cf es allow_sc line col s = Ok st -> s_ev st = false ->
    finish mt es allow_last st = Ok sts ->
    Forall adjacent_as_glued sts.
Proof. exact parse_adjacent. Qed.
Print Assumptions C15_adjacency_is_lexical.

(* C15_flat — THE relayout theorem for one run of the tokenizer (any mode, any start position, with
   brackets): if s' is s with every layout run outside string literals replaced by an arbitrary layout
   run (`relayout`, Model/Layout.v: runs of space/tab/newline with optional `// ...` comments before a
   newline), and s is accepted without leaving the scope (s_ev), then s' is accepted from ANY other start
   position, and the two token streams agree statement by statement and token by token in type, text,
   _macro_length and ideal adjacency (`tok_sim`; the text of a bracket token is again related by
   `relayout`, so the statement applies to its content when that is re-tokenised), and every
   `is_connected` decision between consecutive tokens is the same. *)
Theorem C15_flat :
  forall cf es allow_last allow_sc line col line' col' s s' f sts,
    relayout MCode s s' ->
    parse_st [] cf es allow_sc line col s = Ok f -> s_ev f = false -> finish [] es allow_last f = Ok sts ->
    exists f' sts',
      parse_st [] cf es allow_sc line' col' s' = Ok f' /\ s_ev f' = false /\ finish [] es allow_last f' = Ok sts' /\
      Forall2 (Forall2 tok_sim) sts sts' /\
      map (conn_flags_with is_connected) sts = map (conn_flags_with is_connected) sts'.
Proof. exact relayout_flat. Qed.
Print Assumptions C15_flat.

(* C15_layout — the same at EVERY nesting depth.  `shape_of fuel` is what the rest of the compiler can
   observe of a token stream besides positions: type and text of every token, the is_connected flag
   with its predecessor, and for every bracket the shape (recursively, `fuel` levels) of its content
   re-tokenised the way the lexer does it (`string[1:-1]`, at line, col+1) in both modes
   (arguments / statements); a content that is rejected in a mode, or that leaves the scope, is `None`.
   For all programs, re-layouts, depths, modes and start positions the shapes are EQUAL. *)
Theorem C15_layout :
  forall cf fuel es allow_last allow_sc line col line' col' s s' f sts,
    relayout MCode s s' ->
    parse_st [] cf es allow_sc line col s = Ok f -> s_ev f = false -> finish [] es allow_last f = Ok sts ->
    exists f' sts',
      parse_st [] cf es allow_sc line' col' s' = Ok f' /\ s_ev f' = false /\ finish [] es allow_last f' = Ok sts' /\
      map (shape_of [] cf fuel) sts = map (shape_of [] cf fuel) sts'.
Proof. exact relayout_deep. Qed.
Print Assumptions C15_layout.

(* C15_glued_comment (strengthening round 1).  `relayout` asks for a whitespace character in front of every `//`.
   A comment written DIRECTLY behind a token (`tp @s ~ ~1// up`, `$a +// c`, `execute as @a// everyone`) is covered
   by this theorem: at any place p of any tokenizer run (any macro table, mode, start position) where the state is
   "between tokens or inside a bare word / operator" (no string literal, bracket or comment open) and the last
   character was not `/`, the glued comment `// body NL` gives EXACTLY the result - the same token streams with the
   same positions, or the same diagnostic - as the comment written after one blank or tab, which `relayout` covers.
   It applies to every run of the tokenizer, hence also to the content of a bracket when that is re-tokenised. *)
Theorem C15_glued_comment :
  forall mt cf es allow_last allow_sc line col p c body rest st,
    parse_st mt cf es allow_sc line col p = Ok st ->
    (s_kind st = SNone \/ s_kind st = SKeyword \/ s_kind st = SOperator) -> s_slash st = false ->
    (c = SP \/ c = TAB) -> Forall (fun x => x <> NL) body ->
    parse mt cf es allow_last allow_sc line col (p ++ c :: SLASH :: SLASH :: body ++ NL :: rest) =
    parse mt cf es allow_last allow_sc line col (p ++ SLASH :: SLASH :: body ++ NL :: rest).
Proof. exact glued_comment. Qed.
Print Assumptions C15_glued_comment.

(* Non-vacuity: the witness of the defect this theorem is about - `~1` is a pending bare word, the last character
   is not `/`; the glued and the spaced comment give the same three-token statement `tp @s ~ ~1 ~`. *)
Example C15_glued_comment_nonvacuous :
  match parse_st [] false true false 1 1 (s2l "tp @s ~ ~1") with
  | Ok st => match s_kind st with SKeyword => negb (s_slash st) | _ => false end
  | Err _ => false
  end = true /\
  match parse [] false true false false 1 1 (s2l "tp @s ~ ~1// up
~;") with
  | Ok [toks] => if list_eq_dec string_dec (map (fun t => l2s (t_str t)) toks) ["tp"; "@s"; "~"; "~1"; "~"]%string then true else false
  | _ => false
  end = true.
Proof. split; vm_compute; reflexivity. Qed.

(* relayout is symmetric, so C15_flat also gives: s' accepted (in scope) -> s accepted. *)
Theorem C15_relayout_sym : forall m s s', relayout m s s' -> relayout m s' s.
Proof. exact relayout_sym. Qed.
Print Assumptions C15_relayout_sym.

(* The pinned is_connected (start line and col + len) is refuted by a bracket that spans lines:
   the same tokens, glued in the source, are connected on one line and not connected when the
   bracket contains a newline. *)
Theorem C15_pinned_refuted_multiline_bracket :
  exists s s' toks toks',
    relayout MCode s s' /\
    parse [] false true false false 1 1 s = Ok [toks] /\ parse [] false true false false 1 1 s' = Ok [toks'] /\
    map t_glued toks = map t_glued toks' /\
    conn_flags_with is_connected_pinned toks <> conn_flags_with is_connected_pinned toks' /\
    conn_flags_with is_connected toks = conn_flags_with is_connected toks'.
Proof. exact pinned_multiline_refuted. Qed.
Print Assumptions C15_pinned_refuted_multiline_bracket.

(* Precedence ties: the pinned comparison depends only on the ORDER of the two positions, and
   on position-faithful tokens (the later operator has the larger position) it equals the
   repaired comparison, which reads no position at all. *)
Theorem C15_order_invariant :
  forall a b a' b',
    o_order a = o_order a' -> o_order b = o_order b' -> o_left a = o_left a' ->
    (plt (opos a) (opos b) <-> plt (opos a') (opos b')) ->
    (plt (opos b) (opos a) <-> plt (opos b') (opos a')) ->
    custom_lt_pinned a b = custom_lt_pinned a' b'.
Proof. exact custom_lt_pinned_order_invariant. Qed.
Print Assumptions C15_order_invariant.

Theorem C15_order_repaired_is_conservative :
  forall a b, plt (opos b) (opos a) -> (o_order a = o_order b -> o_left a = o_left b) ->
              custom_lt_pinned a b = custom_lt a b.
Proof. exact custom_lt_pinned_later. Qed.
Print Assumptions C15_order_repaired_is_conservative.

(* Non-vacuity: a bracket spanning two lines followed by a glued keyword: accepted, in scope,
   glued flags and is_connected flags are [false; true; true]. *)
Example C15_nonvacuous :
  match parse_st [] false true false 1 1 (s2l "a[{
b}].c;") with
  | Ok st =>
      match finish [] true false st with
      | Ok [toks] =>
          negb (s_ev st) &&
          (if list_eq_dec bool_dec (map t_glued toks) [false; true; true] then true else false) &&
          (if list_eq_dec bool_dec (conn_flags_with is_connected toks) [false; true; true] then true else false)
      | _ => false
      end
  | Err _ => false
  end = true.
Proof. vm_compute. reflexivity. Qed.

(* Non-vacuity of C15_flat: a concrete relayout pair with a comment and a multi-line bracket. *)
Example C15_flat_nonvacuous :
  relayout MCode (s2l "a b;") (s2l "a // c
 b;") /\
  match parse_st [] false true false 1 1 (s2l "a b;") with
  | Ok f => negb (s_ev f) && match finish [] true false f with Ok _ => true | Err _ => false end
  | Err _ => false
  end = true.
Proof.
  split.
  - cbn. apply rl_code; [reflexivity|discriminate|].
    apply (rl_lay [SP] (SP :: SLASH :: SLASH :: [SP; ch "c"] ++ [NL] ++ [SP])).
    + apply lr_one, li_ws. reflexivity.
    + apply (lr_cons (SP :: SLASH :: SLASH :: [SP; ch "c"] ++ [NL]) [SP]).
      * apply li_cmt; [reflexivity|repeat constructor; discriminate].
      * apply lr_one, li_ws. reflexivity.
    + repeat (apply rl_code; [reflexivity|discriminate|]). apply rl_nil.
  - vm_compute. reflexivity.
Qed.

(* ---------------------------------------------------------------------------------------------------------------
   Strengthening round 4: the TEXT of a call argument (Model/LayoutArg.v).  A @lazy call substitutes the text of each
   argument for `$param` in the function body - also where `$param` stands inside a string literal of the body
   (`{CustomName:'$name'}`, `tellraw @a "marked $sel"`), where the text reaches the output verbatim.

   C15_argument_text.  `argument_text` = PreFunction.__argument_text for a plain argument: every bracket token is
   written as its CLEANED text (`clean_paren` = utils.clean_up_paren_token: the canonical re-spelling of the token
   tree of the bracket - content re-tokenised, tokens concatenated without the layout between them, nested
   brackets recursively, strings re-quoted), tokens that were apart in the source are separated by ONE blank
   (is_connected), connected ones by nothing.  For all programs, re-layouts, modes, start positions and depths
   (fuel = depth of the token tree explored): every contiguous run of tokens of every statement - every argument
   of every call is such a run - has the SAME argument text in the program and in its re-layout (or none on both
   sides: the content of some bracket is rejected, out of scope, or deeper than the fuel). *)
Theorem C15_argument_text :
  forall cf fuel es allow_last allow_sc line col line' col' s s' f sts,
    relayout MCode s s' ->
    parse_st [] cf es allow_sc line col s = Ok f -> s_ev f = false -> finish [] es allow_last f = Ok sts ->
    exists f' sts',
      parse_st [] cf es allow_sc line' col' s' = Ok f' /\ s_ev f' = false /\ finish [] es allow_last f' = Ok sts' /\
      Forall2 (fun toks toks' => forall i n,
                 ok_of (argument_text cf true fuel (run_of i n toks)) = ok_of (argument_text cf true fuel (run_of i n toks')))
              sts sts'.
Proof. exact relayout_argument_text. Qed.
Print Assumptions C15_argument_text.

(* C15_clean_up_paren_token.  The same for `clean_up_paren_token` on its own, in either mode (is_nbt), for every
   bracket token of every statement: this is the text that selectors, NBT/JSON payloads, block states, item
   components, vanilla-macro arguments and scoreboard arguments are emitted with. *)
Theorem C15_clean_up_paren_token :
  forall cf fuel nbt es allow_last allow_sc line col line' col' s s' f sts,
    relayout MCode s s' ->
    parse_st [] cf es allow_sc line col s = Ok f -> s_ev f = false -> finish [] es allow_last f = Ok sts ->
    exists f' sts',
      parse_st [] cf es allow_sc line' col' s' = Ok f' /\ s_ev f' = false /\ finish [] es allow_last f' = Ok sts' /\
      Forall2 (Forall2 (fun t t' => t_ty t = t_ty t' /\
                                    (is_paren_ty (t_ty t) = true ->
                                     ok_of (clean_paren cf true fuel nbt t) = ok_of (clean_paren cf true fuel nbt t'))))
              sts sts'.
Proof. exact relayout_clean_paren. Qed.
Print Assumptions C15_clean_up_paren_token.

(* The two theorems are about the functions with strict = true (a bracket content outside the scope - s_ev - gives
   no text).  The correspondence compares the real compiler with strict = false; where the strict function gives a
   text, the faithful one gives the same text. *)
Theorem C15_argument_text_faithful_in_scope :
  forall cf fuel toks x, argument_text cf true fuel toks = Ok x -> argument_text cf false fuel toks = Ok x.
Proof. exact argument_text_strict_ok. Qed.
Print Assumptions C15_argument_text_faithful_in_scope.

(* The re-spelling of a string token in an argument text (`py_repr` = Python's repr() on ASCII text) has exactly the
   length that Token.length / Token.end - hence is_connected - assume for it (`repr_len`, Model/Layout.v): the two
   hand-written models of repr() agree. *)
Theorem C15_repr_length_consistent : forall s, len (py_repr s) = repr_len s.
Proof. exact py_repr_len. Qed.
Print Assumptions C15_repr_length_consistent.

(* C15_arrow_argument_text_refuted.  For an ARROW-FUNCTION argument `(params)=>{body}` the pinned code substitutes
   the raw source text of the parameter bracket and of the body (`arrow_text`): harmless where `$param` is used as
   code (the text is tokenised again: C15_layout), but not where it is spliced into a string literal - the same
   call in two layouts gives two different texts.  (reports/C15.md: finding C15-arrow-function-argument-in-string.) *)
Theorem C15_arrow_argument_text_refuted :
  exists s s' toks toks',
    relayout MCode s s' /\
    parse [] false false false false 1 1 s = Ok [toks] /\ parse [] false false false false 1 1 s' = Ok [toks'] /\
    (exists x x', arrow_of toks = Some x /\ arrow_of toks' = Some x' /\ x <> x').
Proof. exact arrow_text_layout_dependent. Qed.
Print Assumptions C15_arrow_argument_text_refuted.

(* Non-vacuity: the two arguments of `mark( { "text" : "a" } , @e[ type = pig , limit = 1 ] )`, written over three
   lines with a comment, are accepted in scope and have the texts `{"text":"a"}` and `@e[type=pig,limit=1]`. *)
Example C15_argument_text_nonvacuous :
  match parse_st [] false false false 1 1 (s2l "{ ""text"" :
  ""a"" } , @e[ type = pig , // c
 limit = 1 ]") with
  | Ok st =>
      match finish [] false false st with
      | Ok [toks] =>
          negb (s_ev st) &&
          match argument_text false true 4 (run_of 0 1 toks), argument_text false true 4 (run_of 2 2 toks) with
          | Ok x, Ok y => str_eqb x (s2l "{""text"":""a""}") && str_eqb y (s2l "@e[type=pig,limit=1]")
          | _, _ => false
          end
      | _ => false
      end
  | Err _ => false
  end = true.
Proof. vm_compute. reflexivity. Qed.

(* ---- round 5: the end of a string literal is its RECORDED source end, for every character content.
   `lit_tok l c n s g` = a STRING token at (l, c) with ANY text s whose literal occupies n source columns on its line
   and whose `_macro_end` is recorded (Tokenizer.append_token: the position of the closing quote + 1).
   C15_string_end_is_recorded_end: is_connected reads a recorded end and nothing else of the previous token
   (type, text, len(repr(text)) are irrelevant).
   C15_gap_after_string_literal: a token k columns behind the closing quote is glued iff k = 0, and two layouts that
   differ in the width of a non-empty gap (or put the next token on another line) get the same decision - for raw
   TAB / NBSP / soft hyphen / control characters in the literal like for any other text.
   C15_unrecorded_string_end_refuted: WITHOUT the record the decision is `k = len(repr(s)) - n`; for every literal
   written without backslash that holds a raw TAB that is > 0 (repr is strictly longer than the source text), so a token
   that many blanks away is judged glued and a glued one apart; witness "a<TAB>key" followed by `{`. *)
Theorem C15_string_end_is_recorded_end :
  forall cur prev e, t_mend prev = Some e -> is_connected cur prev = pos_eqb e (t_line cur, t_col cur).
Proof. exact recorded_end_decides. Qed.
Print Assumptions C15_string_end_is_recorded_end.

Theorem C15_gap_after_string_literal :
  forall l c n s g cur k,
    after_gap cur l c n k ->
    is_connected cur (lit_tok l c n s g) = (k =? 0) /\
    (forall l' c' g' cur' k', 0 < k -> 0 < k' -> after_gap cur' l' c' n k' ->
       is_connected cur (lit_tok l c n s g) = is_connected cur' (lit_tok l' c' n s g')) /\
    (forall cur', t_line cur' <> l -> is_connected cur' (lit_tok l c n s g) = false).
Proof.
  intros l c n s g cur k H. split; [exact (gap_decides l c n s g cur k H) | split].
  - intros l' c' g' cur' k' Hk Hk' H'. exact (gap_width_irrelevant l c n s g cur k l' c' g' cur' k' Hk Hk' H H').
  - intros cur' Hl. exact (other_line_apart l c n s g cur' Hl).
Qed.
Print Assumptions C15_gap_after_string_literal.

Theorem C15_unrecorded_string_end_refuted :
  (forall l c n s g cur k, after_gap cur l c n k ->
     is_connected cur (lit_tok_norec l c s g) = (k =? repr_len s - n)) /\
  (forall a b, 0 < repr_len (a ++ TAB :: b) - (len (a ++ TAB :: b) + 2)) /\
  (is_connected (mkTok PAREN_CURLY 1 20 [ch "{"; ch "}"] 0 None false) (lit_tok_norec 1 12 tab_lit false) = true /\
   is_connected (mkTok PAREN_CURLY 1 19 [ch "{"; ch "}"] 0 None true) (lit_tok_norec 1 12 tab_lit false) = false).
Proof.
  split; [exact unrecorded_end_decides | split; [| exact unrecorded_end_wrong]].
  intros a b. pose proof (repr_len_tab a b). apply Z.lt_0_sub. assumption.
Qed.
Print Assumptions C15_unrecorded_string_end_refuted.
