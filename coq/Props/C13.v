(* Property C13 — malformed input yields a JMC diagnostic, never an internal crash or hang.
   What is a theorem here: the tokenizer (Model/Tok.v, character-exact port of Tokenizer.parse, every Python
   failure mode explicit as `Crash`) is total and never crashes, on every text; every statement it produces
   is non-empty (the fact the positional parsers rely on); Python's subscript raises exactly when the
   regenerated guard obligations (coq/Gen/C13/Guards.v) fail.  Whole-compiler totality is NOT a theorem: it is
   searched over the property's own quantifier (every single-token edit of every corpus program) by c13.py. *)
From Coq Require Import ZArith NArith List Bool String.
From JMCV Require Import Model.Tok Model.TokPos Model.TokGuards Model.TokMacro Proofs.Tok Proofs.TokGuards Proofs.TokProps Proofs.TokMacro.
Import ListNotations.
Open Scope Z_scope.

(* For every character list, every start position, every mode and every Unicode-name table, Tokenizer.parse
   returns statements or one of JMC's diagnostics — never an internal exception (IndexError on
   self.keywords[..], ValueError from append_token / Token.__post_init__, SyntaxError / ValueError from
   ast.literal_eval, ...).  `parse` is a structural fold over the characters, so it also terminates. *)
Theorem C13_tok_total : forall uni printable alms es asemi s line col,
  (exists progs, parse uni printable alms es asemi s line col = Ok progs) \/
  (exists d l c, parse uni printable alms es asemi s line col = Diag d l c).
Proof. exact p_C13_tok_total. Qed.
Print Assumptions C13_tok_total.

(* Each character is consumed exactly once, left to right: running the loop on a ++ b is running it on a,
   then on b from the state reached. *)
Theorem C13_tok_each_char_once : forall uni fixed es a b st,
  parse_chars uni fixed es (a ++ b) st = bind (parse_chars uni fixed es a st) (parse_chars uni fixed es b).
Proof. exact parse_chars_app. Qed.
Print Assumptions C13_tok_each_char_once.

(* Every element of `programs` has at least one token (append_keywords refuses an empty list): this is the
   only fact the positional parsers may assume about the statement they are handed. *)
Theorem C13_tok_nonempty : forall uni printable alms es asemi s line col progs,
  parse uni printable alms es asemi s line col = Ok progs ->
  Forall (fun stmt => (1 <= List.length stmt)%nat) progs.
Proof. exact parse_statements_nonempty. Qed.
Print Assumptions C13_tok_nonempty.

(* Before fixes/C09-bad-escape.patch (`parse_gen _ false`): ast.literal_eval's rejection escaped. *)
Theorem C13_pinned_literal_refuted : forall uni printable,
  parse_gen uni false printable false true false (of_string "say ""\x"";"%string) 1 1 = Crash PySyntaxError.
Proof. exact p_C13_pinned_literal_refuted. Qed.
Print Assumptions C13_pinned_literal_refuted.

(* What a regenerated guard obligation  `facts -> - len <= idx /\ idx < len`  is worth: Python's l[idx]
   returns an element exactly under that condition and raises IndexError otherwise. *)
Theorem C13_guard_sound : forall (A : Type) (l : list A) idx,
  (- zlen l <= idx /\ idx < zlen l -> exists x, py_index l idx = Ok x /\ In x l) /\
  (~ (- zlen l <= idx /\ idx < zlen l) -> py_index l idx = Crash IndexError).
Proof. exact p_C13_guard_sound. Qed.
Print Assumptions C13_guard_sound.

(* ... and the length facts the translator writes after the list operations it tracks. *)
Theorem C13_guard_facts : forall (A : Type) (l : list A) (x : A) k i,
  (0 <= k -> zlen (py_from l k) = Z.max 0 (zlen l - k)) /\
  (- zlen l <= i /\ i < zlen l -> exists l', py_del l i = Ok l' /\ zlen l' = zlen l - 1) /\
  zlen (py_append l x) = zlen l + 1 /\ zlen (py_insert l i x) = zlen l + 1.
Proof. exact p_C13_guard_facts. Qed.
Print Assumptions C13_guard_facts.

(* ---- round 4: vanilla macros `$(name)`.  Tokenizer.merge_vanilla_macro folds `$` + `(name)` [+ a connected keyword] into one
   token IN PLACE while its callers keep counting positions of the original list (Model/TokMacro.v).  For every token list
   (of well-formed Token objects: what Token.__post_init__ guarantees), every position key_pos >= 0 - also far beyond the end
   of the list - and every behaviour of clean_up_paren_token that raises nothing but JMC diagnostics, the call returns a list
   or a JMC diagnostic: no subscript is evaluated before its length guard, the slice handed to merge_tokens is never empty,
   and the merged token passes Token.__post_init__. *)
Theorem C13_macro_merge_total : forall cleanup repr_len l kp,
  cleanup_total cleanup -> Forall wf_tok l -> 0 <= kp ->
  no_crash (merge_vm cleanup repr_len l kp).
Proof. exact p_C13_macro_merge_total. Qed.
Print Assumptions C13_macro_merge_total.

(* The three kinds of caller: condition_to_ast's `for key_pos in range(len(tokens) - short)` with the range computed ONCE
   (any `short`; the source has 0), Lexer._is_vanilla_func's loop with its own guard, and any sequence of non-negative
   positions (FuncContent merges at command positions while it enumerates the command): none of them can crash, on any list. *)
Theorem C13_macro_loops_total : forall cleanup repr_len l,
  cleanup_total cleanup -> Forall wf_tok l ->
  (forall short, no_crash (cond_merge_gen cleanup repr_len true short l)) /\
  no_crash (vanilla_merge cleanup repr_len l) /\
  (forall ks, Forall (fun k => 0 <= k) ks -> no_crash (merge_seq cleanup repr_len ks l)).
Proof. exact p_C13_macro_loops_total. Qed.
Print Assumptions C13_macro_loops_total.

(* ... and they keep a non-empty condition / command non-empty (and never make it longer): the fact the subscripts
   `tokens[0]` after the loops rely on (the regenerated obligations of condition_to_ast / _is_vanilla_func use it). *)
Theorem C13_macro_nonempty : forall cleanup repr_len l l',
  cleanup_total cleanup -> Forall wf_tok l -> (1 <= List.length l)%nat ->
  (cond_merge cleanup repr_len l = Ok l' \/ vanilla_merge cleanup repr_len l = Ok l') ->
  (1 <= List.length l' <= List.length l)%nat.
Proof. exact p_C13_macro_nonempty. Qed.
Print Assumptions C13_macro_nonempty.

(* Why the ORDER of the conjuncts matters (the class of change round 4 missed): with `tokens[key_pos].string.endswith("$")`
   read before the length guard (guard_first = false) the condition `$(p)_x == 1` and the condition
   `score $(p) $(o) matches 1..` end in IndexError under `range(len(tokens) - 1)`, the first one also under the source's
   `range(len(tokens))`; with the guard first, `range(len(tokens) - 1)` is harmless. *)
Theorem C13_macro_guard_order_refuted :
  cleanup_total id_cleanup /\ Forall wf_tok w_macro_suffix /\ Forall wf_tok w_two_macros /\
  cond_merge_gen id_cleanup str_len false 1 w_macro_suffix = Crash IndexError /\
  cond_merge_gen id_cleanup str_len false 1 w_two_macros = Crash IndexError /\
  cond_merge_gen id_cleanup str_len false 0 w_macro_suffix = Crash IndexError /\
  (exists l', cond_merge_gen id_cleanup str_len true 1 w_macro_suffix = Ok l' /\ List.length l' = 3%nat).
Proof. exact p_C13_macro_guard_order_refuted. Qed.
Print Assumptions C13_macro_guard_order_refuted.

(* The hypothesis 0 <= key_pos of C13_macro_merge_total cannot be dropped: at position -2 of `a $ (p)` the slice
   tokens[-2:0] handed to merge_tokens is empty.  (Every caller passes a loop index: regenerated call-site obligations.) *)
Theorem C13_macro_negative_position_refuted :
  merge_vm id_cleanup str_len
    [mkTok KEYWORD 1 1 (of_string "a"%string) false; mkTok KEYWORD 1 3 (of_string "$"%string) false;
     mkTok PAREN_ROUND 1 4 (of_string "(p)"%string) false] (-2) = Crash IndexError.
Proof. exact p_C13_macro_negative_refuted. Qed.
Print Assumptions C13_macro_negative_position_refuted.

(* Non-vacuity: the tokenizer does report diagnostics and does return statements. *)
Example C13_nonvacuous :
  parse (fun _ => None) (fun _ => true) false true false (of_string "say ""a"" }"%string) 1 1 = Diag DUnexpectedBracket 1 9 /\
  parse (fun _ => None) (fun _ => true) false true false (of_string "say ""\x"";"%string) 1 1 = Diag DBadString 1 8 /\
  (exists p, parse (fun _ => None) (fun _ => true) false true false (of_string "if (a) { b; } c;"%string) 1 1 = Ok p /\ List.length p = 2%nat).
Proof. vm_compute. repeat split. eexists. split; reflexivity. Qed.

(* Non-vacuity (round 4): the model does merge: `$(p)_x == 1` becomes `$(p)_x`, `==`, `1`. *)
Example C13_macro_nonvacuous :
  exists m a b, cond_merge id_cleanup str_len w_macro_suffix = Ok [m; a; b] /\ t_str m = of_string "$(p)_x"%string /\ t_type m = KEYWORD.
Proof. vm_compute. do 3 eexists. repeat split. Qed.
