(* Property C13 — malformed input yields a JMC diagnostic, never an internal crash or hang.
   What is a theorem here: the tokenizer (Model/Tok.v, character-exact port of Tokenizer.parse, every Python
   failure mode explicit as `Crash`) is total and never crashes, on every text; every statement it produces
   is non-empty (the fact the positional parsers rely on); Python's subscript raises exactly when the
   regenerated guard obligations (coq/Gen/C13/Guards.v) fail.  Whole-compiler totality is NOT a theorem: it is
   searched over the property's own quantifier (every single-token edit of every corpus program) by c13.py. *)
From Coq Require Import ZArith NArith List Bool String.
From JMCV Require Import Model.Tok Model.TokPos Model.TokGuards Proofs.Tok Proofs.TokGuards Proofs.TokProps.
Import ListNotations.
Open Scope Z_scope.

(* For every character list, every start position, every mode and every Unicode-name table, Tokenizer.parse
   returns statements or one of JMC's diagnostics — never an internal exception (IndexError on
   self.keywords[..], ValueError from append_token / Token.__post_init__, SyntaxError / ValueError from
   ast.literal_eval, ...).  `parse` is a structural fold over the characters, so it also terminates. *)
Theorem C13_tok_total : forall uni printable alms es asemi s line col,
  (exists progs, parse uni printable alms es asemi s line col = Ok progs) \/
  (exists d l c, parse uni printable alms es asemi s line col = Diag d l c).
Proof. exact p_C13_tok_total. Qed.
Print Assumptions C13_tok_total.

(* Each character is consumed exactly once, left to right: running the loop on a ++ b is running it on a,
   then on b from the state reached. *)
Theorem C13_tok_each_char_once : forall uni fixed es a b st,
  parse_chars uni fixed es (a ++ b) st = bind (parse_chars uni fixed es a st) (parse_chars uni fixed es b).
Proof. exact parse_chars_app. Qed.
Print Assumptions C13_tok_each_char_once.

(* Every element of `programs` has at least one token (append_keywords refuses an empty list): this is the
   only fact the positional parsers may assume about the statement they are handed. *)
Theorem C13_tok_nonempty : forall uni printable alms es asemi s line col progs,
  parse uni printable alms es asemi s line col = Ok progs ->
  Forall (fun stmt => (1 <= List.length stmt)%nat) progs.
Proof. exact parse_statements_nonempty. Qed.
Print Assumptions C13_tok_nonempty.

(* Before fixes/C09-bad-escape.patch (`parse_gen _ false`): ast.literal_eval's rejection escaped. *)
Theorem C13_pinned_literal_refuted : forall uni printable,
  parse_gen uni false printable false true false (of_string "say ""\x"";"%string) 1 1 = Crash PySyntaxError.
Proof. exact p_C13_pinned_literal_refuted. Qed.
Print Assumptions C13_pinned_literal_refuted.

(* What a regenerated guard obligation  `facts -> - len <= idx /\ idx < len`  is worth: Python's l[idx]
   returns an element exactly under that condition and raises IndexError otherwise. *)
Theorem C13_guard_sound : forall (A : Type) (l : list A) idx,
  (- zlen l <= idx /\ idx < zlen l -> exists x, py_index l idx = Ok x /\ In x l) /\
  (~ (- zlen l <= idx /\ idx < zlen l) -> py_index l idx = Crash IndexError).
Proof. exact p_C13_guard_sound. Qed.
Print Assumptions C13_guard_sound.

(* ... and the length facts the translator writes after the list operations it tracks. *)
Theorem C13_guard_facts : forall (A : Type) (l : list A) (x : A) k i,
  (0 <= k -> zlen (py_from l k) = Z.max 0 (zlen l - k)) /\
  (- zlen l <= i /\ i < zlen l -> exists l', py_del l i = Ok l' /\ zlen l' = zlen l - 1) /\
  zlen (py_append l x) = zlen l + 1 /\ zlen (py_insert l i x) = zlen l + 1.
Proof. exact p_C13_guard_facts. Qed.
Print Assumptions C13_guard_facts.

(* Non-vacuity: the tokenizer does report diagnostics and does return statements. *)
Example C13_nonvacuous :
  parse (fun _ => None) (fun _ => true) false true false (of_string "say ""a"" }"%string) 1 1 = Diag DUnexpectedBracket 1 9 /\
  parse (fun _ => None) (fun _ => true) false true false (of_string "say ""\x"";"%string) 1 1 = Diag DBadString 1 8 /\
  (exists p, parse (fun _ => None) (fun _ => true) false true false (of_string "if (a) { b; } c;"%string) 1 1 = Ok p /\ List.length p = 2%nat).
Proof. vm_compute. repeat split. eexists. split; reflexivity. Qed.
