(* Property C18 — generated resources use the folder names of the chosen pack format.
   Only statements, closed by `exact`, each followed by Print Assumptions; Examples of non-vacuity.

   Pack formats are scaled by 10 (48 ↦ 480, 107.1 ↦ 1071, -1 ↦ -10).  The tables the theorems
   quantify over (`sites`, `gates`, the format table, the rule of add_private_json) are
   REGENERATED from the jmc source on every run (harness/translate_sites.py ->
   coq/Gen/C18/JsonSites.v); coq/Gen/C18/Obligations.v instantiates the theorems below with them
   (hypothesis `forallb (site_check R) sites = true` closed by computation). *)
From Coq Require Import ZArith String List Bool.
From JMCV Require Import Model.PackFmt Proofs.PackFmt.
Import ListNotations.
Open Scope Z_scope.

(* Specification: plural folder names below pack format 48, singular from 48 on (also for -1,
   the unversioned format, which JMC treats as the legacy layout). *)
Theorem C18_spec_plural_below_48 :
  forall k pf, pf < RENAME -> mc_folder k pf = (singular k ++ "s")%string.
Proof. exact mc_folder_plural. Qed.
Print Assumptions C18_spec_plural_below_48.

Theorem C18_spec_singular_from_48 :
  forall k pf, RENAME <= pf -> mc_folder k pf = singular k.
Proof. exact mc_folder_singular. Qed.
Print Assumptions C18_spec_singular_from_48.

(* For every table of call sites and every rule of add_private_json on which the decidable
   check holds: for EVERY pack format (not only those of JMC's table), every site, every namespace
   and resource id, the folder JMC chooses is the folder Minecraft reads, and the file JMC writes
   (or looks up) is the file the resource location ns:id denotes — so a reference `ns:id`
   emitted for the resource finds it. *)
Theorem C18_folders :
  forall (R : rules) (sites : list site),
    forallb (site_check R) sites = true ->
    forall s pf, In s sites -> jmc_folder R s pf = mc_folder (s_kind s) pf.
Proof. exact sites_check_sound. Qed.
Print Assumptions C18_folders.

Theorem C18_paths :
  forall (R : rules) (sites : list site),
    forallb (site_check R) sites = true ->
    forall s pf ns id, In s sites -> jmc_path R s pf ns id = mc_path (s_kind s) pf ns id.
Proof. exact sites_paths. Qed.
Print Assumptions C18_paths.

(* The check is exact: a site that fails it has a pack format with the wrong folder. *)
Theorem C18_check_exact :
  forall R s, site_check R s = false -> exists pf, jmc_folder R s pf <> mc_folder (s_kind s) pf.
Proof. exact site_check_complete. Qed.
Print Assumptions C18_check_exact.

(* PackVersion.require raises iff the format is versioned and too low (resp. too high). *)
Theorem C18_require :
  forall pf f, require_raises pf f false = true <-> pf <> UNVERSIONED /\ pf < f.
Proof. exact require_raises_low. Qed.
Print Assumptions C18_require.

Theorem C18_require_is_lower :
  forall pf f, require_raises pf f true = true <-> pf <> UNVERSIONED /\ f <= pf.
Proof. exact require_raises_high. Qed.
Print Assumptions C18_require_is_lower.

(* Features: on every versioned format of the table, a feature JMC accepts (no gate raises) is one
   the format can express — i.e. a feature the format cannot express is rejected. *)
Theorem C18_features :
  forall tbl gs, gates_check tbl gs = true ->
  forall pf f, In pf tbl -> pf <> UNVERSIONED -> accepts gs f pf = true -> expressible f pf = true.
Proof. exact gates_check_sound. Qed.
Print Assumptions C18_features.

(* … and for every format at all when the gate's threshold is at least Minecraft's. *)
Theorem C18_feature_gate :
  forall gs f g pf,
    In g gs -> g_feature g = f -> g_lower g = false -> mc_lo f <= g_thr g -> mc_hi f = None ->
    pf <> UNVERSIONED -> accepts gs f pf = true -> expressible f pf = true.
Proof. exact gate_low_sound. Qed.
Print Assumptions C18_feature_gate.

(* ---------------------------------------------------------------- non-vacuity / the pinned tree *)

(* add_private_json with the pinned rule is right for the plural literal of every kind *)
Example C18_private_plural : forall lbl k,
  site_check (mkRules OGe RENAME) (mkSite lbl ApiPrivate (SLit (singular k ++ "s")) k) = true.
Proof. exact private_plural_ok. Qed.

(* the shapes found in the source (after the fixes) pass the check … *)
Example C18_shapes_pass :
  forallb (site_check (mkRules OGe 480))
    [ mkSite "RecipeTable#1" ApiPrivate (SLit "recipes") KRecipe;
      mkSite "JMCRequire#0" ApiPrivate (SCat (SLit "tags/function") (SIf OLt 480 (SLit "s") (SLit ""))) KTagFunction;
      mkSite "build#tags" ApiPath (SCat (SLit "tags/") (SIf OGe 480 (SLit "function") (SLit "functions"))) KTagFunction;
      mkSite "PredicateLocations#0 (fixed)" ApiPlain (SIf OGe 480 (SLit "predicate") (SLit "predicates")) KPredicate;
      mkSite "is_function_in_copy (fixed)" ApiPath
             (SCat (SLit "function") (SCat (SIf OLt 480 (SLit "s") (SLit "")) (SLit "/"))) KFunction ]%string = true.
Proof. vm_compute. reflexivity. Qed.

(* … and the two sites of the unpatched tree do not: Predicate.locations writes `predicate/`
   and the #copy lookup reads `function/s/` for pack formats below 48. *)
Example C18_unpatched_predicate_refuted :
  let s := mkSite "PredicateLocations#0" ApiPlain (SLit "predicate") KPredicate in
  site_check (mkRules OGe 480) s = false /\
  jmc_folder (mkRules OGe 480) s 410 = "predicate"%string /\ mc_folder KPredicate 410 = "predicates"%string.
Proof. vm_compute. repeat split. Qed.

Example C18_unpatched_copy_lookup_refuted :
  let s := mkSite "is_function_in_copy" ApiPath
             (SCat (SLit "function/") (SCat (SIf OLt 480 (SLit "s") (SLit "")) (SLit "/"))) KFunction in
  site_check (mkRules OGe 480) s = false /\
  jmc_folder (mkRules OGe 480) s 410 = "function/s"%string /\ mc_folder KFunction 410 = "functions"%string.
Proof. vm_compute. repeat split. Qed.

(* gates: the pinned thresholds on the pinned table; without a gate JMC.require is accepted at format 4 *)
Example C18_gates_nonvacuous :
  let tbl := [40; 150; 180; 260; 410; 480; 1071; -10] in
  gates_check tbl [ mkGate "with" FWith 480 false; mkGate "sparse" FSwitchSparse 160 false;
                    mkGate "default" FSwitchDefault 160 false; mkGate "sign" FSignSides 130 false;
                    mkGate "comp" FItemComponent 330 false; mkGate "nbt" FItemNbt 330 true;
                    mkGate "require" FReturnRun 160 false ]%string = true /\
  gates_check tbl [ mkGate "with" FWith 480 false ]%string = false /\
  accepts [] FReturnRun 40 = true /\ expressible FReturnRun 40 = false.
Proof. vm_compute. repeat split. Qed.
