(* Property C05 — while, do-while and for loops iterate exactly as their source says.
   Only statements of theorems, closed by `exact`, and Print Assumptions. *)
From Coq Require Import ZArith String List Bool.
From JMCV Require Import Base.Int32 Base.Dec MC.Syntax MC.Sem Model.Names Model.PrivAlloc Model.IfElse Model.Loop
     Proofs.IfElseBase Proofs.IfElse Proofs.IfElseTrace Proofs.Loop Proofs.LoopLink.
Import ListNotations.

(* Conventions (as in Props/C04.v).
   - A condition is ANY pair (precommand lines, execute guards); testing it = running the
     precommands, then evaluating the guards in the state they leave.
   - Bodies, initialisers and steps are ANY lists of commands (e.g. the lowered code of nested
     chains, loops; `CExt n` = arbitrary state transformer); ft is ANY function table that
     contains the generated loop function.
   - `runs ft env l st st'` = there is fuel with which the lines l take st to st'.
     Minecraft's maxCommandChainLength / function recursion limits are NOT modelled.
   - `loop_sem c iter st n st'` is the JavaScript unfolding of `while (c) iter` with exactly n
     iterations: test, [iter, test]^n, the last test false.  `dowhile_sem` = body once, then
     loop_sem; `for_sem` = init once, then loop_sem with iteration "body then step".

   Each theorem is an equivalence, i.e. both directions asked for by the property:
   (<-) if the source loop terminates after n iterations in st', then some fuel makes the emitted
        code reach exactly st';
   (->) if the emitted code terminates in st', the source loop terminates in st' after some n
        iterations — no extra and no missing iteration, the condition (with its helper
        commands) re-evaluated before every iteration. *)

Theorem C05_while_iterates :
  forall ft env nm c body k caller fs,
    while_code nm c body k = (caller, fs) -> installed ft fs ->
    forall st st', runs ft env caller st st' <-> exists n, loop_sem ft env c (runs ft env body) st n st'.
Proof. exact while_correct. Qed.
Print Assumptions C05_while_iterates.

Theorem C05_dowhile_iterates :
  forall ft env nm c body k caller fs,
    dowhile_code nm c body k = (caller, fs) -> installed ft fs ->
    forall st st', runs ft env caller st st' <-> exists n, dowhile_sem ft env c body st n st'.
Proof. exact dowhile_correct. Qed.
Print Assumptions C05_dowhile_iterates.

Theorem C05_for_iterates :
  forall ft env nm init c step body k caller fs,
    for_code nm init c step body k = (caller, fs) -> installed ft fs ->
    forall st st', runs ft env caller st st' <-> exists n, for_sem ft env init c step body st n st'.
Proof. exact for_correct. Qed.
Print Assumptions C05_for_iterates.

(* The iteration count is what the trace shows: with a body made of abstract sub-programs and
   condition precommands of the emitted shape, n source iterations put exactly n copies of the
   body's events on the trace (newest first). *)
Theorem C05_iterations_in_trace :
  forall ft env,
    (forall n st, tr (env n st) = tr st) ->
    forall c body,
      forallb quiet_pre (c_pre c) = true -> all_ext body = true ->
      forall st n st', loop_sem ft env c (runs ft env body) st n st' ->
        tr st' = times n (rev (map EExt (ext_ids body))) ++ tr st.
Proof. exact loop_trace. Qed.
Print Assumptions C05_iterations_in_trace.

(* The source meaning is deterministic: a loop has at most one iteration count and result. *)
Theorem C05_loop_sem_deterministic :
  forall ft env c body st n1 st1 n2 st2,
    loop_sem ft env c (runs ft env body) st n1 st1 ->
    loop_sem ft env c (runs ft env body) st n2 st2 -> n1 = n2 /\ st1 = st2.
Proof. exact loop_sem_det. Qed.
Print Assumptions C05_loop_sem_deterministic.

(* Nesting.  For a whole function body (basic commands, chains and loops nested to any depth)
   lowered by Model.Loop.compile_body with DataPack's numbering of private functions: if every
   chain condition has precommands of the emitted shape (simple_stmts), then with any function
   table containing the stored functions the emitted lines terminate in st' iff the source
   meaning `sem_stmts` (Proofs.LoopLink; loops = loop_sem, the JavaScript unfolding) relates st to st'.
   So each loop of a nest iterates as its source says, whatever surrounds it or is inside it. *)
Theorem C05_any_nesting_depth :
  forall nm ft env prog lines fs,
    compile_body nm prog = Some (lines, fs) -> installed ft fs -> simple_stmts nm prog = true ->
    forall st st', runs ft env lines st st' <-> sem_stmts nm ft env prog st st'.
Proof. exact compile_body_correct_simple. Qed.
Print Assumptions C05_any_nesting_depth.

(* Non-vacuity: `while ($i < 3 || $j == 1) { X0; $i += 1 }` from $i = 0, $j unset: the generated
   function is installed, the source loop makes exactly 3 iterations, and the emitted code
   computes the same state (checked by evaluation with fuel 40). *)
Definition ex_v (s : string) : score := (s, "__variable__"%string).
Definition ex_lg := ex_v "__logic__0".
Definition ex_c := mkCond
  [CSet ex_lg 0;
   CExecute (mods_of [(true, Matches (ex_v "$i") (To 2))]) (CSet ex_lg 1);
   CExecute (mods_of [(false, Matches ex_lg (Exact 1)); (true, Matches (ex_v "$j") (Exact 1))]) (CSet ex_lg 1)]
  [(true, Matches ex_lg (Exact 1))].
Definition ex_body := [CExt 0; CAdd (ex_v "$i") 1].
Definition ex_code := while_code default_names ex_c ex_body 0.
Definition ex_ft (f : string) : option (list cmd) := lookup_fn (snd ex_code) f.
Definition ex_env (n : nat) (st : state) : state := st.
Definition ex_st : state :=
  mkState (fun k => if score_eqb k (ex_v "$i") then Some 0%Z else None) (fun _ => None) [].

Example C05_nonvacuous :
  installed ex_ft (snd ex_code) /\
  option_map tr (exec_list ex_ft ex_env 40 (fst ex_code) ex_st) = Some [EExt 0; EExt 0; EExt 0] /\
  option_map (fun st => sc st (ex_v "$i")) (exec_list ex_ft ex_env 40 (fst ex_code) ex_st) = Some (Some 3%Z).
Proof.
  split; [repeat constructor|]. split; vm_compute; reflexivity.
Qed.

(* … and a nest: for (i = 0; i < 2; i += 1) { if (i == 1) { X1 } else if (j == 1 || i == 0) { X2; X3 } }
   is accepted by the lowering, satisfies simple_stmts, and runs X2 X3 (i = 0) then X1 (i = 1). *)
Definition ex_or := mkCond
  [CSet ex_lg 0;
   CExecute (mods_of [(true, Matches (ex_v "$j") (Exact 1))]) (CSet ex_lg 1);
   CExecute (mods_of [(false, Matches ex_lg (Exact 1)); (true, Matches (ex_v "$i") (Exact 0))]) (CSet ex_lg 1)]
  [(true, Matches ex_lg (Exact 1))].
Definition ex_prog : stmts :=
  SCons (SFor [CSet (ex_v "$i") 0] (mkCond [] [(true, Matches (ex_v "$i") (To 1))]) [CAdd (ex_v "$i") 1]
          (SCons (SIf (BCons (mkCond [] [(true, Matches (ex_v "$i") (Exact 1))]) (SCons (SCmd (CExt 1)) SNil)
                      (BCons ex_or (SCons (SCmd (CExt 2)) (SCons (SCmd (CExt 3)) SNil)) BNil)) ENone) SNil))
        SNil.
Example C05_nest_nonvacuous :
  exists lines fs,
    compile_body default_names ex_prog = Some (lines, fs) /\ length fs = 4%nat /\
    simple_stmts default_names ex_prog = true /\
    option_map tr (exec_list (lookup_fn fs) ex_env 60 lines ex_st) = Some [EExt 1; EExt 3; EExt 2].
Proof. eexists. eexists. split; [vm_compute; reflexivity|]. repeat split; vm_compute; reflexivity. Qed.

(* ====================================================================================
   Composition with C03: the loop condition is a boolean FORMULA.

   Above, a condition is any (precommand lines, guards) pair, "true" = what MC.Sem computes when
   they run.  Here (Proofs/ComposeCond.v) the condition is the lowering of a formula f by
   Model.CondLower.cond_of_formula (= Run.C04.lowc, what the correspondence check feeds to the
   loop model), and the test of the JavaScript unfolding is `eval · f` (Model.Cond.eval, C03's
   source-level truth value) on the state BEFORE each iteration:

     lowers nm f c            formula_ok nm f (C03's hypothesis) /\ exists wrapped, cond_of_formula nm wrapped f = Some c
     same_but_logic nm a b    b is a except on `__logic__N` flags
     js_while test T iter st n st'   `while (test) iter` makes exactly n iterations from st and ends
                              in st':  test st = false, st' = T st   |   test st = true, iter (T st) st2,
                              then n-1 more from st2.   T = what evaluating the test does to the state.

   Each theorem: there is T with T st = st except on `__logic__N` flags, for which the emitted
   loop terminates in st' IFF the JavaScript unfolding with test `eval · f` does, after some n
   iterations.  Body, initialiser and step are ARBITRARY commands: they may overwrite `__logic__N`
   (a body containing conditions does) and the variables f reads.  No side condition is needed:
   the precommand lines and the guarded line are consecutive lines of one function (nothing runs in
   between), and every test re-initialises each flag it reads before reading it, whatever the
   flags hold (C03_numbering_invariant; used through C03_guard_iff_partial, which holds for EVERY
   state) — so stale flag values left by the body or by the previous test are harmless. *)
From JMCV Require Import Model.CondLower Proofs.ComposeCond.

Theorem C05_while_with_formula :
  forall ft env nm f c body k caller fs,
    lowers nm f c -> while_code nm c body k = (caller, fs) -> installed ft fs ->
    exists T, (forall st, same_but_logic nm st (T st)) /\
      forall st st', runs ft env caller st st' <->
                     exists n, js_while (fun s => eval s f) T (runs ft env body) st n st'.
Proof. exact while_with_formula. Qed.
Print Assumptions C05_while_with_formula.

(* do body while (f): the body once, then `while (f) body`: n + 1 iterations *)
Theorem C05_dowhile_with_formula :
  forall ft env nm f c body k caller fs,
    lowers nm f c -> dowhile_code nm c body k = (caller, fs) -> installed ft fs ->
    exists T, (forall st, same_but_logic nm st (T st)) /\
      forall st st', runs ft env caller st st' <->
                     exists n st2, runs ft env body st st2 /\
                                   js_while (fun s => eval s f) T (runs ft env body) st2 n st'.
Proof. exact dowhile_with_formula. Qed.
Print Assumptions C05_dowhile_with_formula.

(* for (init; f; step) body: init once, then `while (f) { body; step }` *)
Theorem C05_for_with_formula :
  forall ft env nm f c init step body k caller fs,
    lowers nm f c -> for_code nm init c step body k = (caller, fs) -> installed ft fs ->
    exists T, (forall st, same_but_logic nm st (T st)) /\
      forall st st', runs ft env caller st st' <->
                     exists n st0, runs ft env init st st0 /\
                                   js_while (fun s => eval s f) T
                                            (fun a b => exists m, runs ft env body a m /\ runs ft env step m b) st0 n st'.
Proof. exact for_with_formula. Qed.
Print Assumptions C05_for_with_formula.

(* n is the number of times the body's events appear on the trace (T = after_test, the T of the
   three theorems above) *)
Theorem C05_formula_iterations_in_trace :
  forall ft env nm f c body,
    (forall n st, tr (env n st) = tr st) ->
    lowers nm f c -> all_ext body = true ->
    forall st n st', js_while (fun s => eval s f) (after_test ft env c) (runs ft env body) st n st' ->
      tr st' = times n (rev (map EExt (ext_ids body))) ++ tr st.
Proof. exact formula_iterations_in_trace. Qed.
Print Assumptions C05_formula_iterations_in_trace.

(* A statement tree all of whose conditions are lowerings of formulas (formula_stmts) satisfies
   the hypothesis of C05_any_nesting_depth. *)
Theorem C05_any_nesting_depth_formulas :
  forall nm ft env prog lines fs,
    compile_body nm prog = Some (lines, fs) -> installed ft fs -> formula_stmts nm prog ->
    forall st st', runs ft env lines st st' <-> sem_stmts nm ft env prog st st'.
Proof. exact compile_body_correct_formulas. Qed.
Print Assumptions C05_any_nesting_depth_formulas.

(* Non-vacuity:  while (!($i >= 2 && $j) || $c) { X0; $i += 1 }  with X0 overwriting `__logic__0`
   and `__logic__1` (the two flags the condition uses) with garbage, from i = 0, j = 1, c unset and
   stale flags: the condition is computed by cond_of_formula, the hypotheses hold, the emitted code
   makes 2 iterations, and so does the JavaScript loop `while (eval · f) body` run as a program
   (js_iter), ending with the same $i. *)
Definition fw_t (s : string) : Model.Cond.formula := Model.Cond.Leaf (Model.Cond.ATruthy (ex_v s)).
Definition fw_f : Model.Cond.formula :=
  Model.Cond.Or [Model.Cond.Not (Model.Cond.And
                   [Model.Cond.Leaf (Model.Cond.ACmp (ex_v "$i") Model.Cond.SGe (Model.Cond.RLit 2)); fw_t "$j"]);
                 fw_t "$c"].
Definition fw_c : cond :=
  match cond_of_formula default_names true fw_f with Some c => c | None => mkCond [] [] end.
Definition fw_body := [CExt 0; CAdd (ex_v "$i") 1].
Definition fw_code := while_code default_names fw_c fw_body 0.
Definition fw_ft (f : string) : option (list cmd) := lookup_fn (snd fw_code) f.
Definition fw_env (n : nat) (st : state) : state :=
  set_sc (set_sc st (ex_v "__logic__0") 1) (ex_v "__logic__1") 7.
Definition fw_st : state :=
  mkState (fun k => if score_eqb k (ex_v "$i") then Some 0%Z
                    else if score_eqb k (ex_v "$j") then Some 1%Z
                    else if score_eqb k (ex_v "__logic__0") then Some 1%Z
                    else if score_eqb k (ex_v "__logic__1") then Some 1%Z
                    else None) (fun _ => None) [].

Example C05_formula_nonvacuous :
  lowers default_names fw_f fw_c /\ installed fw_ft (snd fw_code) /\ length (c_pre fw_c) = 5%nat /\
  option_map tr (exec_list fw_ft fw_env 40 (fst fw_code) fw_st) = Some [EExt 0; EExt 0] /\
  option_map (fun st => sc st (ex_v "$i")) (exec_list fw_ft fw_env 40 (fst fw_code) fw_st) = Some (Some 2%Z) /\
  option_map (fun r => (fst r, sc (snd r) (ex_v "$i"), tr (snd r)))
             (js_iter 10 (fun s => eval s fw_f) (exec_list fw_ft fw_env 5 fw_body) fw_st)
    = Some (2%nat, Some 2%Z, [EExt 0; EExt 0]).
Proof.
  split.
  { split; [|exists true; vm_compute; reflexivity]. split; [reflexivity|]. cbn.
    repeat constructor; try (intros k E; discriminate E); vm_compute; discriminate. }
  split; [repeat constructor|]. repeat split; vm_compute; reflexivity.
Qed.

(* ================================================================== strengthening round 4
   Loops nested in — and around — the constructs Model.Loop left outside: `switch` (both lowerings: binary
   search tree and macro dispatch) and `execute … run { … }` blocks (Model.LoopSwitch).

   - `xcompile_stmts` is the statement-by-statement lowering of Model.Loop extended by XSwitch / XRun; the case
     bodies and blocks are lowered like function bodies, before the construct takes its own number.
   - Case bodies are ANY command lists, in particular the lowered code of loops, which need not terminate from
     every state: the switch theorems below are therefore EQUIVALENCES between relations (property C06's
     theorems are about total, functional bodies and give one direction only).
   - `bst_rel` / `macro_rel`: the source-level reading of the two lowerings (the copy `__switch__N` / the found
     flag and the storage key, then the lines of the selected case — the one labelled with the switched value,
     else `default`, else nothing). *)
From JMCV Require Import Model.LoopSwitch Proofs.LoopSwitch.
From JMCV Require Model.Switch Proofs.Switch.

(* On the statement trees of Model.Loop the extended lowering is Model.Loop's lowering: every theorem above
   speaks about xcompile_stmts as well. *)
Theorem C05_switch_model_conservative :
  forall nm cf l,
    (forall a, xcompile_stmts nm cf (embed_stmts l) a =
               match compile_stmts nm l (xa a) with Some (lines, r) => Some (lines, set_a a r) | None => None end) /\
    xcompile_body nm cf (embed_stmts l) = compile_body nm l.
Proof. exact (fun nm cf l => conj (xcompile_embed nm cf l) (xcompile_body_embed nm cf l)). Qed.
Print Assumptions C05_switch_model_conservative.

(* Binary search tree (pack_format < 16, #forcebst): for every start label (negative, zero, positive), every
   number of cases, ANY case bodies that leave the private copy `__switch__N` alone, every function table
   holding the tree and every state: the emitted lines terminate in st' iff the lines of case v - start do
   (from the state after the copy) when start <= v < start + n, and nothing else runs. *)
Theorem C05_loop_in_bst_case :
  forall nm ft env group x bodies start guard1 pc sid cmds fs pc' sid',
    Switch.parse_switch_bst nm group x bodies start guard1 pc sid = Switch.Ok (cmds, fs, pc', sid') ->
    guard1 = true \/ (2 <= length bodies)%nat ->
    (forall f b, In (f, b) fs -> ft f = Some b) ->
    (forall k st st', runs ft env (nth k bodies []) st st' ->
                      sc st' (Switch.tmp_score nm sid) = sc st (Switch.tmp_score nm sid)) ->
    forall st st', runs ft env cmds st st' <-> bst_rel ft env (Switch.tmp_score nm sid) x bodies start st st'.
Proof. exact parse_switch_bst_iff. Qed.
Print Assumptions C05_loop_in_bst_case.

(* Macro dispatch (pack_format >= 16): any labels (unsorted, sparse, negative, repeated, `default` anywhere),
   ANY case bodies, no side condition. *)
Theorem C05_loop_in_macro_case :
  forall nm ft env group x cases pc cmds fs pc',
    Switch.parse_switch_macro nm group x cases pc = (cmds, fs, pc') ->
    Proofs.Switch.ft_agrees_macro nm group pc ft fs ->
    forall st st', runs ft env cmds st st' <-> macro_rel nm ft env x cases st st'.
Proof. exact parse_switch_macro_iff. Qed.
Print Assumptions C05_loop_in_macro_case.

(* The switch statement as Model.LoopSwitch lowers it (switch(): label rule, strategy choice, numbering). *)
Theorem C05_switch_statement_relational :
  forall nm cf ft env x bodies a cmds a',
    switch_code nm cf x bodies a = Some (cmds, a') ->
    exists fs,
      a' = mkX (xa a) (x_anon a) (x_afns a) (x_pc a') (x_sid a') (x_sw a ++ [(x_pc a, fs)]) /\
      x_sid a' = (if Switch.is_macro cf then x_sid a else (x_sid a + 1)%Z) /\
      (Switch.is_macro cf = false ->
       map fst bodies = map Switch.LNum (Proofs.Switch.consec (start_of bodies) (length bodies))) /\
      (sw_ok nm cf ft (x_pc a, fs) ->
       (Switch.is_macro cf = false ->
        forall k st st', runs ft env (nth k (map snd bodies) []) st st' ->
                         sc st' (Switch.tmp_score nm (x_sid a)) = sc st (Switch.tmp_score nm (x_sid a))) ->
       forall st st', runs ft env cmds st st' <-> switch_lines_rel nm cf ft env x bodies (x_sid a) st st').
Proof. exact switch_code_iff. Qed.
Print Assumptions C05_switch_statement_relational.

(* "The loop is followed by the rest": in ANY lines that contain the caller of a lowered loop — a function
   body, a branch, a case body, a block, another loop's body — what stands before the loop runs once, the loop
   iterates exactly as the JavaScript unfolding says, and what FOLLOWS it runs exactly once, from the state the
   loop ended in. *)
Theorem C05_while_followed_by_rest :
  forall nm ft env pre post c body k caller fs,
    while_code nm c body k = (caller, fs) -> installed ft fs ->
    forall st st', runs ft env (pre ++ caller ++ post) st st' <->
      exists s1 s2 n, runs ft env pre st s1 /\ loop_sem ft env c (runs ft env body) s1 n s2 /\ runs ft env post s2 st'.
Proof. exact while_followed. Qed.
Print Assumptions C05_while_followed_by_rest.

Theorem C05_dowhile_followed_by_rest :
  forall nm ft env pre post c body k caller fs,
    dowhile_code nm c body k = (caller, fs) -> installed ft fs ->
    forall st st', runs ft env (pre ++ caller ++ post) st st' <->
      exists s1 s2 n, runs ft env pre st s1 /\ dowhile_sem ft env c body s1 n s2 /\ runs ft env post s2 st'.
Proof. exact dowhile_followed. Qed.
Print Assumptions C05_dowhile_followed_by_rest.

Theorem C05_for_followed_by_rest :
  forall nm ft env pre post init c step body k caller fs,
    for_code nm init c step body k = (caller, fs) -> installed ft fs ->
    forall st st', runs ft env (pre ++ caller ++ post) st st' <->
      exists s1 s2 n, runs ft env pre st s1 /\ for_sem ft env init c step body s1 n s2 /\ runs ft env post s2 st'.
Proof. exact for_followed. Qed.
Print Assumptions C05_for_followed_by_rest.

(* execute if score e matches 1.. run { lines }: the block's lines (a loop and what follows it, …) run iff
   the guard holds, inlined after `run` or through an anonymous function *)
Theorem C05_block_runs_its_lines :
  forall nm ft env e lines a caller a',
    run_code nm e lines a = Some (caller, a') ->
    (exists new, x_afns a' = x_afns a ++ new /\ xa a' = xa a /\ x_sw a' = x_sw a /\ x_sid a' = x_sid a /\ x_pc a' = x_pc a) /\
    (installed ft (x_afns a') ->
     forall st st', runs ft env caller st st' <->
                    if tests_hold st (run_guard_tests e) then runs ft env lines st st' else st' = st).
Proof. exact run_code_iff. Qed.
Print Assumptions C05_block_runs_its_lines.

(* ------------------------------------------------------------------ whole statement trees with switch and blocks

   `xsem_stmts prog sid` is the source meaning of a statement tree (sid = the number the next binary search
   tree takes; 0 for a whole function body compiled first):
     - basic commands mean what Minecraft does; chains and loops mean what they mean in C05_any_nesting_depth
       (first true condition in source order; the JavaScript unfolding with exactly n iterations);
     - XSwitch x cases means `switch_sem`: the scratch writes of the dispatcher (binary search tree: the copy
       `__switch__N = x`; macro dispatch: the found flag when there is a `default`, the key in storage), then
       the meaning of the case selected at source level (Proofs.Switch.select_entry: the last case labelled with
       the value of x — negative, zero or positive —, else `default`, else nothing), from the state after those
       writes; in macro mode with a `default`, the found flag is set after a labelled case;
     - XRun e body means: body if e >= 1, nothing otherwise;
     - a statement list means its statements one after the other: what FOLLOWS a loop, a switch or a block
       starts in the state that statement ended in and runs exactly once.
   Hypotheses: ft holds the functions the lowering stored (`tables_ok`: for a macro switch also "nothing else
   under the dispatcher's prefix", as in C06); chain conditions leave the if/else flag alone when tested; and,
   under the binary search tree only, the leaves (basic commands, condition helpers, for-initialisers / steps)
   do not write a `__switch__N` score, nor is one switched on (`xkeeps_stmts`; `xsimple_stmts` is a computable
   sufficient condition). *)
Theorem C05_any_nesting_with_switch :
  forall nm cf ft env prog lines a',
    xcompile_stmts nm cf prog xalloc0 = Some (lines, a') ->
    NoDup (map fst (fns (xa a'))) /\
    (tables_ok nm cf ft a' -> xkeeps_stmts nm cf ft env prog ->
     forall st st', runs ft env lines st st' <-> xsem_stmts nm cf ft env prog 0 st st').
Proof. exact xcompile_body_correct. Qed.
Print Assumptions C05_any_nesting_with_switch.

Theorem C05_any_nesting_with_switch_simple :
  forall nm cf ft env prog lines a',
    xcompile_stmts nm cf prog xalloc0 = Some (lines, a') ->
    tables_ok nm cf ft a' -> xsimple_stmts nm prog = true ->
    forall st st', runs ft env lines st st' <-> xsem_stmts nm cf ft env prog 0 st st'.
Proof. exact xcompile_body_correct_simple. Qed.
Print Assumptions C05_any_nesting_with_switch_simple.

(* what a switch statement means (the definition the theorem uses), spelled out *)
Theorem C05_switch_meaning :
  forall nm cf x labels (R : list rel) sid st st',
    switch_sem nm cf x labels R sid st st' <->
    let hd := existsb Switch.is_default labels in
    match Proofs.Switch.select_entry labels (sw_value nm cf x hd st) with
    | Some k => exists s, nth k R norel (sw_enter nm cf x hd sid st) s /\
                          st' = sw_leave nm cf hd (nth k labels Switch.LDefault) s
    | None => st' = sw_enter nm cf x hd sid st
    end.
Proof. exact (fun nm cf x labels R sid st st' => iff_refl _). Qed.
Print Assumptions C05_switch_meaning.

(* a statement only writes the `__switch__N` copies of its own switch statements: this is why a loop body or
   a case body holding inner switches cannot disturb the binary search of an enclosing one *)
Theorem C05_switch_copies_are_private :
  forall nm cf ft env, Switch.is_macro cf = false ->
    forall l sid, xkeeps_stmts nm cf ft env l ->
      forall k, ~ (sid <= k < sid_stmts cf l sid)%Z ->
        forall st st', xsem_stmts nm cf ft env l sid st st' ->
                       sc st' (Switch.tmp_score nm k) = sc st (Switch.tmp_score nm k).
Proof. exact (fun nm cf ft env H => proj1 (proj2 (xsem_frame nm cf ft env H))). Qed.
Print Assumptions C05_switch_copies_are_private.

(* ---- non-vacuity: the shape the fourth bug-seeding round hid a defect behind ----
   switch ($x) { case -1: while ($L < 2) { say "b"; $L += 1; } say "after"; break;  case 0: say "z"; }  say "end";
   under both lowerings: the model lowers it, the emitted table satisfies the hypotheses, and running the
   emitted lines says b b after end for $x = -1 ("after" exactly once, after the loop), z end for 0, end for 5. *)
Definition r4_x := ex_v "$x".
Definition r4_L := ex_v "$L".
Definition r4_c : cond := mkCond [] [(true, Matches r4_L (To 1))].
Definition r4_prog : xstmts :=
  XCons (XSwitch r4_x
           (XKCons (Switch.LNum (-1))
                   (XCons (XWhile r4_c (XCons (XCmd (CSay "b")) (XCons (XCmd (CAdd r4_L 1)) XNil)))
                          (XCons (XCmd (CSay "after")) XNil)) true
           (XKCons (Switch.LNum 0) (XCons (XCmd (CSay "z")) XNil) false XKNil)))
        (XCons (XCmd (CSay "end")) XNil).
Definition r4_cfg (macro : bool) : Switch.cfg := Switch.mkCfg (if macro then 48 else (-1))%Z false.
Definition r4_alloc (macro : bool) : xalloc :=
  match xcompile_stmts default_names (r4_cfg macro) r4_prog xalloc0 with Some (_, a) => a | None => xalloc0 end.
Definition r4_lines (macro : bool) : list cmd :=
  match xcompile_stmts default_names (r4_cfg macro) r4_prog xalloc0 with Some (l, _) => l | None => [] end.
Definition r4_ft (macro : bool) (f : string) : option (list cmd) :=
  match flat_map (fun g => match Switch.fget_last (snd g) f with Some b => [b] | None => [] end) (x_sw (r4_alloc macro)) with
  | b :: _ => Some b
  | [] => lookup_fn (fns (xa (r4_alloc macro)) ++ x_afns (r4_alloc macro)) f
  end.
Definition r4_st (v : Z) : state :=
  mkState (fun k => if score_eqb k r4_x then Some v else if score_eqb k r4_L then Some 0%Z else None) (fun _ => None) [].
Definition r4_trace (macro : bool) (v : Z) : option (list event) :=
  option_map (@tr) (exec_list (r4_ft macro) (fun _ s => s) 12 (r4_lines macro) (r4_st v)).

Example C05_switch_nonvacuous_bst :
  xcompile_stmts default_names (r4_cfg false) r4_prog xalloc0 = Some (r4_lines false, r4_alloc false) /\
  length (r4_lines false) = 3%nat /\
  tables_ok default_names (r4_cfg false) (r4_ft false) (r4_alloc false) /\
  xsimple_stmts default_names r4_prog = true /\
  r4_trace false (-1) = Some [ESay "end"; ESay "after"; ESay "b"; ESay "b"] /\
  r4_trace false 0 = Some [ESay "end"; ESay "z"] /\
  r4_trace false 5 = Some [ESay "end"].
Proof.
  split; [vm_compute; reflexivity|]. split; [vm_compute; reflexivity|]. split.
  - unfold tables_ok. split; [|split].
    + vm_compute. repeat constructor.
    + vm_compute. repeat constructor.
    + vm_compute. constructor; [|constructor]. intros f b H.
      repeat (destruct H as [H|H]; [inversion H; subst; reflexivity|]). contradiction.
  - repeat split; vm_compute; reflexivity.
Qed.

Example C05_switch_nonvacuous_macro :
  xcompile_stmts default_names (r4_cfg true) r4_prog xalloc0 = Some (r4_lines true, r4_alloc true) /\
  length (r4_lines true) = 3%nat /\
  tables_ok default_names (r4_cfg true) (r4_ft true) (r4_alloc true) /\
  xsimple_stmts default_names r4_prog = true /\
  r4_trace true (-1) = Some [ESay "end"; ESay "after"; ESay "b"; ESay "b"] /\
  r4_trace true 0 = Some [ESay "end"; ESay "z"] /\
  r4_trace true 5 = Some [ESay "end"].
Proof.
  split; [vm_compute; reflexivity|]. split; [vm_compute; reflexivity|]. split.
  - unfold tables_ok. split; [vm_compute; repeat constructor|]. split; [vm_compute; repeat constructor|].
    set (a := r4_alloc true). vm_compute in a. subst a. cbn [x_sw]. constructor; [|constructor].
    unfold sw_ok. cbn [fst snd r4_cfg]. change (Switch.is_macro (Switch.mkCfg 48 false)) with true. cbv iota.
    split.
    + intros f b H. unfold r4_ft. set (a := r4_alloc true). vm_compute in a. subst a. cbn [x_sw flat_map snd app].
      rewrite H. reflexivity.
    + intros w H. unfold r4_ft. set (a := r4_alloc true). vm_compute in a. subst a. cbn [x_sw flat_map snd app].
      rewrite H. cbn. reflexivity.
  - repeat split; vm_compute; reflexivity.
Qed.
