(* Property C05 — while, do-while and for loops iterate exactly as their source says.
   Only statements of theorems, closed by `exact`, and Print Assumptions. *)
From Coq Require Import ZArith String List Bool.
From JMCV Require Import Base.Int32 Base.Dec MC.Syntax MC.Sem Model.Names Model.PrivAlloc Model.IfElse Model.Loop
     Proofs.IfElseBase Proofs.IfElse Proofs.IfElseTrace Proofs.Loop Proofs.LoopLink.
Import ListNotations.

(* Conventions (as in Props/C04.v).
   - A condition is ANY pair (precommand lines, execute guards); testing it = running the
     precommands, then evaluating the guards in the state they leave.
   - Bodies, initialisers and steps are ANY lists of commands (e.g. the lowered code of nested
     chains, loops; `CExt n` = arbitrary state transformer); ft is ANY function table that
     contains the generated loop function.
   - `runs ft env l st st'` = there is fuel with which the lines l take st to st'.
     Minecraft's maxCommandChainLength / function recursion limits are NOT modelled.
   - `loop_sem c iter st n st'` is the JavaScript unfolding of `while (c) iter` with exactly n
     iterations: test, [iter, test]^n, the last test false.  `dowhile_sem` = body once, then
     loop_sem; `for_sem` = init once, then loop_sem with iteration "body then step".

   Each theorem is an equivalence, i.e. both directions asked for by the property:
   (<-) if the source loop terminates after n iterations in st', then some fuel makes the emitted
        code reach exactly st';
   (->) if the emitted code terminates in st', the source loop terminates in st' after some n
        iterations — no extra and no missing iteration, the condition (with its helper
        commands) re-evaluated before every iteration. *)

Theorem C05_while_iterates :
  forall ft env nm c body k caller fs,
    while_code nm c body k = (caller, fs) -> installed ft fs ->
    forall st st', runs ft env caller st st' <-> exists n, loop_sem ft env c (runs ft env body) st n st'.
Proof. exact while_correct. Qed.
Print Assumptions C05_while_iterates.

Theorem C05_dowhile_iterates :
  forall ft env nm c body k caller fs,
    dowhile_code nm c body k = (caller, fs) -> installed ft fs ->
    forall st st', runs ft env caller st st' <-> exists n, dowhile_sem ft env c body st n st'.
Proof. exact dowhile_correct. Qed.
Print Assumptions C05_dowhile_iterates.

Theorem C05_for_iterates :
  forall ft env nm init c step body k caller fs,
    for_code nm init c step body k = (caller, fs) -> installed ft fs ->
    forall st st', runs ft env caller st st' <-> exists n, for_sem ft env init c step body st n st'.
Proof. exact for_correct. Qed.
Print Assumptions C05_for_iterates.

(* The iteration count is what the trace shows: with a body made of abstract sub-programs and
   condition precommands of the emitted shape, n source iterations put exactly n copies of the
   body's events on the trace (newest first). *)
Theorem C05_iterations_in_trace :
  forall ft env,
    (forall n st, tr (env n st) = tr st) ->
    forall c body,
      forallb quiet_pre (c_pre c) = true -> all_ext body = true ->
      forall st n st', loop_sem ft env c (runs ft env body) st n st' ->
        tr st' = times n (rev (map EExt (ext_ids body))) ++ tr st.
Proof. exact loop_trace. Qed.
Print Assumptions C05_iterations_in_trace.

(* The source meaning is deterministic: a loop has at most one iteration count and result. *)
Theorem C05_loop_sem_deterministic :
  forall ft env c body st n1 st1 n2 st2,
    loop_sem ft env c (runs ft env body) st n1 st1 ->
    loop_sem ft env c (runs ft env body) st n2 st2 -> n1 = n2 /\ st1 = st2.
Proof. exact loop_sem_det. Qed.
Print Assumptions C05_loop_sem_deterministic.

(* Nesting.  For a whole function body (basic commands, chains and loops nested to any depth)
   lowered by Model.Loop.compile_body with DataPack's numbering of private functions: if every
   chain condition has precommands of the emitted shape (simple_stmts), then with any function
   table containing the stored functions the emitted lines terminate in st' iff the source
   meaning `sem_stmts` (Proofs.LoopLink; loops = loop_sem, the JavaScript unfolding) relates st to st'.
   So each loop of a nest iterates as its source says, whatever surrounds it or is inside it. *)
Theorem C05_any_nesting_depth :
  forall nm ft env prog lines fs,
    compile_body nm prog = Some (lines, fs) -> installed ft fs -> simple_stmts nm prog = true ->
    forall st st', runs ft env lines st st' <-> sem_stmts nm ft env prog st st'.
Proof. exact compile_body_correct_simple. Qed.
Print Assumptions C05_any_nesting_depth.

(* Non-vacuity: `while ($i < 3 || $j == 1) { X0; $i += 1 }` from $i = 0, $j unset: the generated
   function is installed, the source loop makes exactly 3 iterations, and the emitted code
   computes the same state (checked by evaluation with fuel 40). *)
Definition ex_v (s : string) : score := (s, "__variable__"%string).
Definition ex_lg := ex_v "__logic__0".
Definition ex_c := mkCond
  [CSet ex_lg 0;
   CExecute (mods_of [(true, Matches (ex_v "$i") (To 2))]) (CSet ex_lg 1);
   CExecute (mods_of [(false, Matches ex_lg (Exact 1)); (true, Matches (ex_v "$j") (Exact 1))]) (CSet ex_lg 1)]
  [(true, Matches ex_lg (Exact 1))].
Definition ex_body := [CExt 0; CAdd (ex_v "$i") 1].
Definition ex_code := while_code default_names ex_c ex_body 0.
Definition ex_ft (f : string) : option (list cmd) := lookup_fn (snd ex_code) f.
Definition ex_env (n : nat) (st : state) : state := st.
Definition ex_st : state :=
  mkState (fun k => if score_eqb k (ex_v "$i") then Some 0%Z else None) (fun _ => None) [].

Example C05_nonvacuous :
  installed ex_ft (snd ex_code) /\
  option_map tr (exec_list ex_ft ex_env 40 (fst ex_code) ex_st) = Some [EExt 0; EExt 0; EExt 0] /\
  option_map (fun st => sc st (ex_v "$i")) (exec_list ex_ft ex_env 40 (fst ex_code) ex_st) = Some (Some 3%Z).
Proof.
  split; [repeat constructor|]. split; vm_compute; reflexivity.
Qed.

(* … and a nest: for (i = 0; i < 2; i += 1) { if (i == 1) { X1 } else if (j == 1 || i == 0) { X2; X3 } }
   is accepted by the lowering, satisfies simple_stmts, and runs X2 X3 (i = 0) then X1 (i = 1). *)
Definition ex_or := mkCond
  [CSet ex_lg 0;
   CExecute (mods_of [(true, Matches (ex_v "$j") (Exact 1))]) (CSet ex_lg 1);
   CExecute (mods_of [(false, Matches ex_lg (Exact 1)); (true, Matches (ex_v "$i") (Exact 0))]) (CSet ex_lg 1)]
  [(true, Matches ex_lg (Exact 1))].
Definition ex_prog : stmts :=
  SCons (SFor [CSet (ex_v "$i") 0] (mkCond [] [(true, Matches (ex_v "$i") (To 1))]) [CAdd (ex_v "$i") 1]
          (SCons (SIf (BCons (mkCond [] [(true, Matches (ex_v "$i") (Exact 1))]) (SCons (SCmd (CExt 1)) SNil)
                      (BCons ex_or (SCons (SCmd (CExt 2)) (SCons (SCmd (CExt 3)) SNil)) BNil)) ENone) SNil))
        SNil.
Example C05_nest_nonvacuous :
  exists lines fs,
    compile_body default_names ex_prog = Some (lines, fs) /\ length fs = 4%nat /\
    simple_stmts default_names ex_prog = true /\
    option_map tr (exec_list (lookup_fn fs) ex_env 60 lines ex_st) = Some [EExt 1; EExt 3; EExt 2].
Proof. eexists. eexists. split; [vm_compute; reflexivity|]. repeat split; vm_compute; reflexivity. Qed.
