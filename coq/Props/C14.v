(* Property C14 — diagnostics cite the true line and column of the offending text, at every nesting
   depth and whether or not the enclosing brace is on the same line.
   Only statements (closed by `exact`), Print Assumptions, and examples.
   Model: Model/Tok.v (Tokenizer.parse, character-exact), Model/TokPos.v (positions, hand-overs, reach). *)
From Coq Require Import ZArith NArith List Bool String.
From JMCV Require Import Model.Tok Model.TokPos Model.TokDerived Model.TokCite
  Proofs.Tok Proofs.TokPos Proofs.TokProps Proofs.TokDerived Proofs.TokCite.
Import ListNotations.
Open Scope Z_scope.

(* A position determines the character: two prefixes of the same text that end at the same (line, col)
   are equal.  (So "cited at the position of its own text" below pins the offset, not just some offset.) *)
Theorem C14_position_determines_offset : forall a b ra rb p,
  a ++ ra = b ++ rb -> pos_after p a = pos_after p b -> a = b.
Proof. exact pos_after_inj. Qed.
Print Assumptions C14_position_determines_offset.

(* One tokenizer run.  For every text `sub`, every start position, every mode (expect_semicolon,
   allow_last_missing_semicolon, allow_semicolon) and every Unicode name table: each token produced has
   (line, col) = the position of the first character of its own source text — `sub = d ++ r`, the token is
   cited at the position reached after `d`, and `r` begins with the token's text (with the opening quote for
   a string literal).  Proved from the loop invariant "after k characters (line, col+1) is the position of
   character k" (Proofs/Tok.v: Inv, step_ok). *)
Theorem C14_tok_pos : forall uni printable alms es asemi sub line col progs stmt t,
  parse uni printable alms es asemi sub line col = Ok progs -> In stmt progs -> In t stmt ->
  exists d r, sub = d ++ r /\ (t_line t, t_col t) = pos_after (line, col) d /\ token_src t r.
Proof. exact p_C14_tok_pos. Qed.
Print Assumptions C14_tok_pos.

(* ... and in the file: if the tokenizer is started on a piece `sub` of `file` with the position of the
   first character of `sub`, every token is cited at the position in `file` of its own text. *)
Theorem C14_tok_pos_in_file : forall uni printable alms es asemi file pre sub post progs stmt t,
  file = pre ++ sub ++ post ->
  parse uni printable alms es asemi sub (fst (pos_of file (List.length pre))) (snd (pos_of file (List.length pre))) = Ok progs ->
  In stmt progs -> In t stmt -> faithful file t.
Proof. exact p_C14_tok_pos_in_file. Qed.
Print Assumptions C14_tok_pos_in_file.

(* Nesting.  `reach h file t`: t is a token of the top-level tokenisation of `file`, or of the
   re-tokenisation (any mode) of the text between the brackets of a reachable bracket token, started at
   (line of the bracket, column of the bracket + the offset h prescribes for that kind of hand-over).
   Every token at every depth is cited at its true position  IF AND ONLY IF  every kind of hand-over
   passes the position of the first character of the content (offset 1). *)
Theorem C14_nested : forall uni printable h,
  (d_body h = 1 /\ d_arrow h = 1 /\ d_args h = 1) <->
  (forall file t, reach uni printable h file t -> faithful file t).
Proof. exact p_C14_nested. Qed.
Print Assumptions C14_nested.

(* The tree with fixes/C14-body-handover-col.patch: all three hand-overs add 1. *)
Theorem C14_repaired_tree : forall uni printable file t,
  reach uni printable repaired file t -> faithful file t.
Proof. exact p_C14_repaired_tree. Qed.
Print Assumptions C14_repaired_tree.

(* The tree before the patch (bodies started at the brace's own column): `function f() { bogus x; }`
   cites `bogus` at line 1 col 15; its text is at col 16. *)
Theorem C14_pinned_handover_refuted : forall uni printable,
  exists file t, reach uni printable pinned file t /\ ~ faithful file t.
Proof. exact p_C14_pinned_handover_refuted. Qed.
Print Assumptions C14_pinned_handover_refuted.

(* Diagnostics of the tokenizer itself.  Whatever `Tokenizer.parse` reports is cited
   - at the position of a character of the text (the offending character; for "Bracket was never closed",
     an opening bracket), or
   - for an unterminated string at end of input, at the last character of the text, or
   - for "Expected semicolon(;)", at error_msg's `col_length` position of a token that is itself cited at
     its true position (C14_error_end: that is the position just after the token). *)
Theorem C14_diag_pos : forall uni printable alms es asemi sub line col d l c,
  parse uni printable alms es asemi sub line col = Diag d l c ->
  (exists d1 c1 r1, sub = d1 ++ c1 :: r1 /\ (l, c) = pos_after (line, col) d1) \/
  (d = DStringLineBreakEOF /\ (l, c + 1) = pos_after (line, col) sub) \/
  (d = DBracketNeverClosed /\ exists d0 p r, sub = d0 ++ p :: r /\ is_lparen p = true /\ (l, c) = pos_after (line, col) d0) \/
  (d = DExpectedSemicolon /\ exists t, faithful_from (line, col) sub t /\ (l, c) = cite_end printable t).
Proof. exact p_C14_diag_pos. Qed.
Print Assumptions C14_diag_pos.

(* error_msg(col_length=True) on a token that is not a string literal and is cited at its true position:
   the cited (line, col) is the position of the character that follows the token's last character —
   also when the token spans several lines (line += count("\n"), col = length - rfind("\n")). *)
Theorem C14_error_end : forall printable p0 s t,
  faithful_from p0 s t -> t_type t <> STRING ->
  exists d r, s = d ++ t_str t ++ r /\ (t_line t, t_col t) = pos_after p0 d /\
              cite_end printable t = pos_after p0 (d ++ t_str t).
Proof. exact cite_end_is_end. Qed.
Print Assumptions C14_error_end.

(* error_msg without col_length (strengthening round 3; Model.TokCite.cite = what the header `In file:L:C` and the
   sentence `at line L col C` say): for a token cited at its true position the diagnostic cites the position of the FIRST
   character of the token's own text - for every token, however many lines it spans ... *)
Theorem C14_error_start : forall printable p0 s t,
  faithful_from p0 s t ->
  exists d r, s = d ++ r /\ token_src t r /\ cite printable false t = pos_after p0 d.
Proof. exact cite_start_is_start. Qed.
Print Assumptions C14_error_start.

(* ... for a bracket token that spans several lines: the text at the cited position is the whole bracket, which ends
   count("\n") lines further down - the line error_msg uses for the source excerpt (display_line), not for the citation. *)
Theorem C14_error_start_multiline : forall printable p0 s t,
  faithful_from p0 s t -> t_type t <> STRING ->
  exists d r, s = d ++ t_str t ++ r /\ cite printable false t = pos_after p0 d /\
              fst (pos_after p0 (d ++ t_str t)) = fst (cite printable false t) + count_nl (t_str t).
Proof. exact cite_start_spans. Qed.
Print Assumptions C14_error_start_multiline.

Theorem C14_error_display_line : forall p0 s t,
  faithful_from p0 s t -> t_type t <> STRING ->
  exists d r, s = d ++ t_str t ++ r /\ (t_line t, t_col t) = pos_after p0 d /\
              display_line true t = fst (pos_after p0 (d ++ t_str t)).
Proof. exact display_line_is_last. Qed.
Print Assumptions C14_error_display_line.

(* Header and sentence built from display_line (the bug the third seeding round planted) never cite the first character
   of a token that spans several lines - the cited line is strictly below - and are indistinguishable from the tree's
   citation on every token whose text holds no newline (which is why single-keyword plants cannot see it). *)
Theorem C14_error_display_line_unfaithful : forall printable t,
  t_type t <> STRING -> mem_char c_nl (t_str t) = true ->
  fst (cite_display printable true false t) > fst (cite printable false t) /\
  cite_display printable true false t <> (t_line t, t_col t).
Proof. exact cite_display_unfaithful. Qed.
Print Assumptions C14_error_display_line_unfaithful.

Theorem C14_error_display_line_same_on_one_line : forall printable dcl cl t,
  full_string_has_nl t = false -> cite_display printable dcl cl t = cite printable cl t.
Proof. exact cite_display_same_single_line. Qed.
Print Assumptions C14_error_display_line_same_on_one_line.

(* hypotheses satisfiable: the argument list of `f(⏎  1,⏎  2⏎)` re-tokenised from (3, 5): cited at (3, 5), shown at line 6 *)
Example C14_error_start_nonvacuous :
  let t := mkTok PAREN_ROUND 3 5 (of_string "(
  1,
  2
)"%string) false in
  cite (fun _ => true) false t = (3, 5) /\ display_line true t = 6 /\
  cite_display (fun _ => true) true false t = (6, 5) /\ cite (fun _ => true) true t = (6, 2).
Proof. vm_compute. repeat split. Qed.

(* Derived tokens (strengthening round 1).  `parse_func_args` splits the sign off the operator token of a glued
   keyword argument `key=-N` / `key=+N` and cites it `d` columns right of that operator token.  If the operator token
   is cited at the position of its own text (C14_tok_pos / C14_nested), the sign token is cited at the position of the
   sign with d = 1 (the tree: Model.TokDerived.d_sign), for every text and start position ... *)
Theorem C14_sign_split : forall p0 s t,
  faithful_from p0 s t -> is_signed_eq t = true -> faithful_from p0 s (split_sign d_sign t).
Proof. exact split_sign_faithful. Qed.
Print Assumptions C14_sign_split.

(* ... and never with d = 0 (the sign cited at the column of the `=`): diagnostics on such a value would cite one
   column too far left. *)
Theorem C14_sign_split_needs_offset : forall p0 s t,
  faithful_from p0 s t -> is_signed_eq t = true -> ~ faithful_from p0 s (split_sign 0 t).
Proof. exact split_sign_zero_unfaithful. Qed.
Print Assumptions C14_sign_split_needs_offset.

(* hypotheses satisfiable: `(count=-2)` re-tokenised at (1, 2): the operator token `=-` is at col 7, the sign at col 8 *)
Example C14_sign_split_nonvacuous :
  match parse (fun _ => None) (fun _ => true) false false false (of_string "count=-2"%string) 1 2 with
  | Ok [[_; op; _]] => (is_signed_eq op = true) /\ ((t_line op, t_col op) = (1, 7)) /\
                       (split_sign d_sign op = mkTok OPERATOR 1 8 [45%N] false)
  | _ => False
  end.
Proof. vm_compute. repeat split. Qed.

(* Non-vacuity: a three-level program; the planted keyword is reachable with the repaired hand-overs and
   is cited at (2, 27), which is where its text is. *)
Example C14_nonvacuous :
  let file := of_string "class a {
  function f() { if (x) { zz 1; } }
}"%string in
  deep_find (fun _ => None) (fun _ => true) repaired 10 file 1 1 true (of_string "zz"%string) = [(2, 27)] /\
  pos_of file 36 = (2, 27) /\ nth_error file 36 = Some 122%N.
Proof. vm_compute. repeat split. Qed.
