(* Property C14 — diagnostics cite the true line and column of the offending text, at every nesting
   depth and whether or not the enclosing brace is on the same line.
   Only statements (closed by `exact`), Print Assumptions, and examples.
   Model: Model/Tok.v (Tokenizer.parse, character-exact), Model/TokPos.v (positions, hand-overs, reach). *)
From Coq Require Import ZArith NArith List Bool String.
From JMCV Require Model.TokJson Proofs.TokJson.
From JMCV Require Import Model.Tok Model.TokPos Model.TokDerived Model.TokCite Model.TokArgs Model.TokEnd
  Proofs.Tok Proofs.TokPos Proofs.TokProps Proofs.TokDerived Proofs.TokCite Proofs.TokArgs Proofs.TokEnd Proofs.TokRound4.
Import ListNotations.
Open Scope Z_scope.

(* A position determines the character: two prefixes of the same text that end at the same (line, col)
   are equal.  (So "cited at the position of its own text" below pins the offset, not just some offset.) *)
Theorem C14_position_determines_offset : forall a b ra rb p,
  a ++ ra = b ++ rb -> pos_after p a = pos_after p b -> a = b.
Proof. exact pos_after_inj. Qed.
Print Assumptions C14_position_determines_offset.

(* One tokenizer run.  For every text `sub`, every start position, every mode (expect_semicolon,
   allow_last_missing_semicolon, allow_semicolon) and every Unicode name table: each token produced has
   (line, col) = the position of the first character of its own source text — `sub = d ++ r`, the token is
   cited at the position reached after `d`, and `r` begins with the token's text (with the opening quote for
   a string literal).  Proved from the loop invariant "after k characters (line, col+1) is the position of
   character k" (Proofs/Tok.v: Inv, step_ok). *)
Theorem C14_tok_pos : forall uni printable alms es asemi sub line col progs stmt t,
  parse uni printable alms es asemi sub line col = Ok progs -> In stmt progs -> In t stmt ->
  exists d r, sub = d ++ r /\ (t_line t, t_col t) = pos_after (line, col) d /\ token_src t r.
Proof. exact p_C14_tok_pos. Qed.
Print Assumptions C14_tok_pos.

(* ... and in the file: if the tokenizer is started on a piece `sub` of `file` with the position of the
   first character of `sub`, every token is cited at the position in `file` of its own text. *)
Theorem C14_tok_pos_in_file : forall uni printable alms es asemi file pre sub post progs stmt t,
  file = pre ++ sub ++ post ->
  parse uni printable alms es asemi sub (fst (pos_of file (List.length pre))) (snd (pos_of file (List.length pre))) = Ok progs ->
  In stmt progs -> In t stmt -> faithful file t.
Proof. exact p_C14_tok_pos_in_file. Qed.
Print Assumptions C14_tok_pos_in_file.

(* Nesting.  `reach h file t`: t is a token of the top-level tokenisation of `file`, or of the
   re-tokenisation (any mode) of the text between the brackets of a reachable bracket token, started at
   (line of the bracket, column of the bracket + the offset h prescribes for that kind of hand-over).
   Every token at every depth is cited at its true position  IF AND ONLY IF  every kind of hand-over
   passes the position of the first character of the content (offset 1). *)
Theorem C14_nested : forall uni printable h,
  (d_body h = 1 /\ d_arrow h = 1 /\ d_args h = 1) <->
  (forall file t, reach uni printable h file t -> faithful file t).
Proof. exact p_C14_nested. Qed.
Print Assumptions C14_nested.

(* The tree with fixes/C14-body-handover-col.patch: all three hand-overs add 1. *)
Theorem C14_repaired_tree : forall uni printable file t,
  reach uni printable repaired file t -> faithful file t.
Proof. exact p_C14_repaired_tree. Qed.
Print Assumptions C14_repaired_tree.

(* The tree before the patch (bodies started at the brace's own column): `function f() { bogus x; }`
   cites `bogus` at line 1 col 15; its text is at col 16. *)
Theorem C14_pinned_handover_refuted : forall uni printable,
  exists file t, reach uni printable pinned file t /\ ~ faithful file t.
Proof. exact p_C14_pinned_handover_refuted. Qed.
Print Assumptions C14_pinned_handover_refuted.

(* Diagnostics of the tokenizer itself.  Whatever `Tokenizer.parse` reports is cited
   - at the position of a character of the text (the offending character; for "Bracket was never closed",
     an opening bracket), or
   - for an unterminated string at end of input, at the last character of the text, or
   - for "Expected semicolon(;)", at error_msg's `col_length` position of a token that is itself cited at
     its true position (C14_error_end: that is the position just after the token). *)
Theorem C14_diag_pos : forall uni printable alms es asemi sub line col d l c,
  parse uni printable alms es asemi sub line col = Diag d l c ->
  (exists d1 c1 r1, sub = d1 ++ c1 :: r1 /\ (l, c) = pos_after (line, col) d1) \/
  (d = DStringLineBreakEOF /\ (l, c + 1) = pos_after (line, col) sub) \/
  (d = DBracketNeverClosed /\ exists d0 p r, sub = d0 ++ p :: r /\ is_lparen p = true /\ (l, c) = pos_after (line, col) d0) \/
  (d = DExpectedSemicolon /\ exists t, faithful_from (line, col) sub t /\ (l, c) = cite_end printable t).
Proof. exact p_C14_diag_pos. Qed.
Print Assumptions C14_diag_pos.

(* error_msg(col_length=True) on a token that is not a string literal and is cited at its true position:
   the cited (line, col) is the position of the character that follows the token's last character —
   also when the token spans several lines (line += count("\n"), col = length - rfind("\n")). *)
Theorem C14_error_end : forall printable p0 s t,
  faithful_from p0 s t -> t_type t <> STRING ->
  exists d r, s = d ++ t_str t ++ r /\ (t_line t, t_col t) = pos_after p0 d /\
              cite_end printable t = pos_after p0 (d ++ t_str t).
Proof. exact cite_end_is_end. Qed.
Print Assumptions C14_error_end.

(* error_msg without col_length (strengthening round 3; Model.TokCite.cite = what the header `In file:L:C` and the
   sentence `at line L col C` say): for a token cited at its true position the diagnostic cites the position of the FIRST
   character of the token's own text - for every token, however many lines it spans ... *)
Theorem C14_error_start : forall printable p0 s t,
  faithful_from p0 s t ->
  exists d r, s = d ++ r /\ token_src t r /\ cite printable false t = pos_after p0 d.
Proof. exact cite_start_is_start. Qed.
Print Assumptions C14_error_start.

(* ... for a bracket token that spans several lines: the text at the cited position is the whole bracket, which ends
   count("\n") lines further down - the line error_msg uses for the source excerpt (display_line), not for the citation. *)
Theorem C14_error_start_multiline : forall printable p0 s t,
  faithful_from p0 s t -> t_type t <> STRING ->
  exists d r, s = d ++ t_str t ++ r /\ cite printable false t = pos_after p0 d /\
              fst (pos_after p0 (d ++ t_str t)) = fst (cite printable false t) + count_nl (t_str t).
Proof. exact cite_start_spans. Qed.
Print Assumptions C14_error_start_multiline.

Theorem C14_error_display_line : forall p0 s t,
  faithful_from p0 s t -> t_type t <> STRING ->
  exists d r, s = d ++ t_str t ++ r /\ (t_line t, t_col t) = pos_after p0 d /\
              display_line true t = fst (pos_after p0 (d ++ t_str t)).
Proof. exact display_line_is_last. Qed.
Print Assumptions C14_error_display_line.

(* Header and sentence built from display_line (the bug the third seeding round planted) never cite the first character
   of a token that spans several lines - the cited line is strictly below - and are indistinguishable from the tree's
   citation on every token whose text holds no newline (which is why single-keyword plants cannot see it). *)
Theorem C14_error_display_line_unfaithful : forall printable t,
  t_type t <> STRING -> mem_char c_nl (t_str t) = true ->
  fst (cite_display printable true false t) > fst (cite printable false t) /\
  cite_display printable true false t <> (t_line t, t_col t).
Proof. exact cite_display_unfaithful. Qed.
Print Assumptions C14_error_display_line_unfaithful.

Theorem C14_error_display_line_same_on_one_line : forall printable dcl cl t,
  full_string_has_nl t = false -> cite_display printable dcl cl t = cite printable cl t.
Proof. exact cite_display_same_single_line. Qed.
Print Assumptions C14_error_display_line_same_on_one_line.

(* hypotheses satisfiable: the argument list of `f(⏎  1,⏎  2⏎)` re-tokenised from (3, 5): cited at (3, 5), shown at line 6 *)
Example C14_error_start_nonvacuous :
  let t := mkTok PAREN_ROUND 3 5 (of_string "(
  1,
  2
)"%string) false in
  cite (fun _ => true) false t = (3, 5) /\ display_line true t = 6 /\
  cite_display (fun _ => true) true false t = (6, 5) /\ cite (fun _ => true) true t = (6, 2).
Proof. vm_compute. repeat split. Qed.

(* Derived tokens (strengthening round 1).  `parse_func_args` splits the sign off the operator token of a glued
   keyword argument `key=-N` / `key=+N` and cites it `d` columns right of that operator token.  If the operator token
   is cited at the position of its own text (C14_tok_pos / C14_nested), the sign token is cited at the position of the
   sign with d = 1 (the tree: Model.TokDerived.d_sign), for every text and start position ... *)
Theorem C14_sign_split : forall p0 s t,
  faithful_from p0 s t -> is_signed_eq t = true -> faithful_from p0 s (split_sign d_sign t).
Proof. exact split_sign_faithful. Qed.
Print Assumptions C14_sign_split.

(* ... and never with d = 0 (the sign cited at the column of the `=`): diagnostics on such a value would cite one
   column too far left. *)
Theorem C14_sign_split_needs_offset : forall p0 s t,
  faithful_from p0 s t -> is_signed_eq t = true -> ~ faithful_from p0 s (split_sign 0 t).
Proof. exact split_sign_zero_unfaithful. Qed.
Print Assumptions C14_sign_split_needs_offset.

(* hypotheses satisfiable: `(count=-2)` re-tokenised at (1, 2): the operator token `=-` is at col 7, the sign at col 8 *)
Example C14_sign_split_nonvacuous :
  match parse (fun _ => None) (fun _ => true) false false false (of_string "count=-2"%string) 1 2 with
  | Ok [[_; op; _]] => (is_signed_eq op = true) /\ ((t_line op, t_col op) = (1, 7)) /\
                       (split_sign d_sign op = mkTok OPERATOR 1 8 [45%N] false)
  | _ => False
  end.
Proof. vm_compute. repeat split. Qed.

(* Non-vacuity: a three-level program; the planted keyword is reachable with the repaired hand-overs and
   is cited at (2, 27), which is where its text is. *)
Example C14_nonvacuous :
  let file := of_string "class a {
  function f() { if (x) { zz 1; } }
}"%string in
  deep_find (fun _ => None) (fun _ => true) repaired 10 file 1 1 true (of_string "zz"%string) = [(2, 27)] /\
  pos_of file 36 = (2, 27) /\ nth_error file 36 = Some 122%N.
Proof. vm_compute. repeat split. Qed.

(* ====================================================================================================================
   Strengthening round 4.

   (g) WHICH token the argument-list parsers cite (Model.TokArgs: parse_func_args / parse_js_obj / parse_component /
       parse_list / parse_param walk `kws`, the first statement of the inner tokenizer run of the bracket's content).
   Every diagnostic they raise cites an ELEMENT of kws - a token of a tokenizer run, which C14_tok_pos / C14_nested place
   at its own text at every depth ... *)
Theorem C14_args_cite_given_token : forall kws d t, func_args false kws = ADiag d t -> In t kws.
Proof. exact (func_args_cites_given false). Qed.
Print Assumptions C14_args_cite_given_token.

Theorem C14_pairs_cite_given_token : forall op kws d t, pairs false op kws = ADiag d t -> In t kws.
Proof. exact (pairs_cites_given false). Qed.
Print Assumptions C14_pairs_cite_given_token.

Theorem C14_list_cites_given_token : forall kws d t, list_items kws = ADiag d t -> In t kws.
Proof. exact list_items_cites_given. Qed.
Print Assumptions C14_list_cites_given_token.

Theorem C14_params_cite_given_token : forall kws d t, params kws = ADiag d t -> In t kws.
Proof. exact params_cites_given. Qed.
Print Assumptions C14_params_cite_given_token.

(* ... so the cited (line, col) is the position of the first character of the cited token's own text *)
Theorem C14_args_diag_faithful : forall uni printable alms es asemi sub line col progs kws d t,
  parse uni printable alms es asemi sub line col = Ok progs -> In kws progs ->
  (func_args false kws = ADiag d t \/ (exists op, pairs false op kws = ADiag d t) \/
   list_items kws = ADiag d t \/ params kws = ADiag d t) ->
  exists d0 r, sub = d0 ++ r /\ (t_line t, t_col t) = pos_after (line, col) d0 /\ token_src t r.
Proof. exact p_args_diag_faithful. Qed.
Print Assumptions C14_args_diag_faithful.

(* "Unexpected comma in function arguments" cites `keywords[comma_token_index]`, a RUNNING INDEX the loop keeps.  For every
   token list: the cited token is the FIRST OFFENDING COMMA - a separator with nothing between it and the previous separator
   (or the start of the list), and no such separator stands in front of it.  (Loop invariant Proofs.TokArgs.walk: the index is
   the number of tokens walked, which end in a separator.) *)
Theorem C14_args_comma_first_offending : forall kws t,
  func_args false kws = ADiag AComma t ->
  exists i, nth_error kws i = Some t /\ offending_comma kws i /\ (forall j, (j < i)%nat -> ~ offending_comma kws j).
Proof. exact func_args_comma_is_first_offending. Qed.
Print Assumptions C14_args_comma_first_offending.

(* the same for "Unexpected comma in JSObject/NBT" (op = ":") and "... in component" (op = "=") *)
Theorem C14_pairs_comma_first_offending : forall op kws t,
  pairs false op kws = ADiag AComma t ->
  exists i, nth_error kws i = Some t /\ offending_comma kws i /\ (forall j, (j < i)%nat -> ~ offending_comma kws j).
Proof. exact pairs_comma_is_first_offending. Qed.
Print Assumptions C14_pairs_comma_first_offending.

(* The variant the fourth round of bug seeding planted (`late`: the index is advanced at the END of the loop body, which the
   `continue` of the keyword-argument branch skips) never cites a token behind the first offending comma ... *)
Theorem C14_args_comma_late_in_front : forall kws t,
  func_args true kws = ADiag AComma t ->
  exists i i0, nth_error kws i = Some t /\ (i <= i0)%nat /\ first_offending kws i0.
Proof. exact func_args_late_cites_in_front. Qed.
Print Assumptions C14_args_comma_late_in_front.

(* ... and behind a leading keyword argument `key = value` it cites a token STRICTLY in front of it, which is not an
   offending comma: positional-only argument lists cannot tell the variant from the tree (why the plants of the earlier
   rounds did not see it), a doubled comma anywhere behind a keyword argument does. *)
Theorem C14_args_comma_late_after_keyword : forall k e v s rest t,
  is_sep k = false -> is_sep e = false -> is_sep v = false -> is_sep s = true ->
  mem_str (t_str e) [s_eq; s_eq_plus; s_eq_minus] = true ->
  func_args true (k :: e :: v :: s :: rest) = ADiag AComma t ->
  exists i i0, nth_error (k :: e :: v :: s :: rest) i = Some t /\ (i < i0)%nat /\
               first_offending (k :: e :: v :: s :: rest) i0 /\ ~ offending_comma (k :: e :: v :: s :: rest) i.
Proof. exact func_args_late_after_keyword. Qed.
Print Assumptions C14_args_comma_late_after_keyword.

(* the FUNC token parse_func_args makes of the body of an arrow-function argument (col + 1): the position of the first
   character behind the brace *)
Theorem C14_func_token_pos : forall p0 s t body,
  faithful_from p0 s t -> t_type t = PAREN_CURLY -> t_str t = c_lcurly :: body ->
  exists d r, s = d ++ c_lcurly :: r /\ (t_line t, t_col t) = pos_after p0 d /\
              (t_line t, t_col t + 1) = pos_after p0 (d ++ [c_lcurly]).
Proof. exact p_func_token_pos. Qed.
Print Assumptions C14_func_token_pos.

(* hypotheses satisfiable: the argument list `selector=@a,, message="x"` re-tokenised at (1, 14): the tree cites the second
   comma (col 26), the variant the keyword `selector` (col 14) *)
Example C14_args_comma_nonvacuous :
  match parse (fun _ => None) (fun _ => true) false false false (of_string "selector=@a,, message=""x"""%string) 1 14 with
  | Ok [kws] =>
    match func_args false kws, func_args true kws with
    | ADiag AComma t, ADiag AComma t' =>
      (t_type t, t_line t, t_col t) = (COMMA, 1, 26) /\ (t_type t', t_line t', t_col t') = (KEYWORD, 1, 14)
    | _, _ => False
    end
  | _ => False
  end.
Proof. vm_compute. repeat split. Qed.

(* (h) where a token ENDS (Model.TokEnd).  `col_length` diagnostics cite Token.end.  The repaired tokenizer records, in the
   iteration that reads the closing quote, the end (self.line, self.col + 1) of every string literal (parse_ends: Model.Tok.step
   unchanged + that record).  For every text, start position and mode: parse_ends has the tokens of Model.Tok.parse, every
   STRING token has a recorded end, and every recorded (start, end) delimits a string literal of the text:
   text = d ++ (q :: body ++ [cl]) ++ r, start = position after d, end = position after d ++ q :: body ++ [cl]. *)
Theorem C14_string_end_recorded : forall uni printable alms es asemi s line col progs ends,
  parse_ends uni printable alms es asemi s line col = Ok (progs, ends) ->
  parse uni printable alms es asemi s line col = Ok progs /\
  (forall a e, In (a, e) ends -> lit_span (line, col) s a e) /\
  forall stmt t, In stmt progs -> In t stmt -> t_type t = STRING ->
    exists e, lookup_end (t_line t, t_col t) ends = Some e.
Proof. exact parse_ends_spec. Qed.
Print Assumptions C14_string_end_recorded.

(* Token.end of EVERY token of a run, whatever its kind (keyword, operator, comma, bracket spanning any number of lines,
   string literal written with any escape sequences, quotes, continuation lines, backtick string): the position right after the
   last character of the token's source spelling `src` (the token's own text; for a string literal the text from its opening
   quote to the closing quote). *)
Theorem C14_token_end : forall uni printable alms es asemi s line col progs ends stmt t,
  parse_ends uni printable alms es asemi s line col = Ok (progs, ends) -> In stmt progs -> In t stmt ->
  exists d src r, s = d ++ src ++ r /\ (t_line t, t_col t) = pos_after (line, col) d /\ spelled t src /\
                  tok_end printable ends t = pos_after (line, col) (d ++ src).
Proof. exact token_end_spec. Qed.
Print Assumptions C14_token_end.

(* "Expected semicolon(;)" of the repaired tokenizer (parse_r) cites the position right after the last token, of any kind
   (C14_diag_pos / C14_error_end had to exclude string literals) ... *)
Theorem C14_expected_semicolon_end : forall uni printable alms es asemi s line col l c,
  parse_r uni printable alms es asemi s line col = Diag DExpectedSemicolon l c ->
  exists t d src r, s = d ++ src ++ r /\ (t_line t, t_col t) = pos_after (line, col) d /\ spelled t src /\
                    (l, c) = pos_after (line, col) (d ++ src).
Proof. exact parse_r_semicolon. Qed.
Print Assumptions C14_expected_semicolon_end.

(* ... and parse_r is Model.Tok.parse in everything else: same tokens, same diagnostic, same position unless the diagnostic
   is "Expected semicolon(;)"; never a crash where the other has none (the theorems about Model.Tok.parse carry over). *)
Theorem C14_parse_r_same_outcome : forall uni printable alms es asemi s line col,
  match parse uni printable alms es asemi s line col, parse_r uni printable alms es asemi s line col with
  | Ok a, Ok b => a = b
  | Diag d l c, Diag d' l' c' => d = d' /\ (d <> DExpectedSemicolon -> l = l' /\ c = c')
  | Crash e, Crash e' => e = e'
  | _, _ => False
  end.
Proof. exact parse_r_vs_parse. Qed.
Print Assumptions C14_parse_r_same_outcome.

(* Token.length.  For a token whose source spelling lies on one line the end column is start + |src|: a `col + L` end is
   right IF AND ONLY IF L is the length of the spelling AS WRITTEN ... *)
Theorem C14_end_col_is_source_length : forall p0 d src (t : token) L,
  (t_line t, t_col t) = pos_after p0 d -> has_nl src = false ->
  ((t_line t, t_col t + L) = pos_after p0 (d ++ src) <-> L = Z.of_nat (List.length src)).
Proof. exact end_col_is_source_length. Qed.
Print Assumptions C14_end_col_is_source_length.

(* ... so the variant the fourth round of bug seeding planted, len(string) + 2, is right exactly for literals that are two
   characters longer than their decoded text - never for a literal written with an escape sequence. *)
Theorem C14_plain_length_right_iff : forall p0 d src (t : token),
  (t_line t, t_col t) = pos_after p0 d -> has_nl src = false ->
  ((t_line t, t_col t + plain_len t) = pos_after p0 (d ++ src) <-> List.length src = (List.length (t_str t) + 2)%nat).
Proof. exact plain_len_right_iff. Qed.
Print Assumptions C14_plain_length_right_iff.

(* The tree before fixes/C14-string-literal-end.patch (col + len(repr(string)); Model.Tok.parse keeps that arithmetic):
   `say` + the literal a-backslash-quote-b without a semicolon cites column 10, inside the literal, which ends at 11. *)
Theorem C14_repr_length_refuted : forall uni printable,
  exists s l c l' c', parse uni printable false true false s 1 1 = Diag DExpectedSemicolon l c /\
                      parse_r uni printable false true false s 1 1 = Diag DExpectedSemicolon l' c' /\
                      (l', c') = pos_after (1, 1) s /\ c < c'.
Proof. exact p_repr_length_refuted. Qed.
Print Assumptions C14_repr_length_refuted.

(* hypotheses satisfiable: two literals written with escapes and a continuation line; recorded ends computed *)
Example C14_token_end_nonvacuous :
  match parse_ends (fun _ => None) (fun _ => true) false true false (of_string "say ""a\x41b"" 'c\
d';"%string) 1 1 with
  | Ok ([[_; a; b]], ends) =>
    tok_end (fun _ => true) ends a = (1, 13) /\ tok_end (fun _ => true) ends b = (2, 3) /\
    tok_length (fun _ => true) a = 5 /\ tok_len_r (fun _ => true) a (lookup_end (1, 5) ends) = 8
  | _ => False
  end.
Proof. vm_compute. repeat split. Qed.

(* ---------------------------------------------------------------- strengthening round 5: JSON syntax errors
   JMCDecodeJSONError maps json's (lineno, colno) - the position of the offset where json.loads stopped, counted inside the
   bracket token's text - back into the file.  For EVERY token position, every text (one line or many) and every offset in
   it, the cited (line, col) is the file position of that offset. *)
Theorem C14_json_error_position : forall pre doc post tl tc off,
  (tl, tc) = pos_after (1, 1) pre -> (off <= List.length doc)%nat ->
  Model.TokJson.json_cite tl tc (Model.TokJson.json_err_pos doc off) = pos_of (pre ++ doc ++ post) (List.length pre + off).
Proof. exact Proofs.TokJson.json_cite_file_position. Qed.
Print Assumptions C14_json_error_position.

(* The variant of the fifth round of bug seeding (column rule decided by "the token's text contains a newline" instead of
   "the error is on the token's first line"): on the FIRST line of a multi-line text it is right iff the token starts in
   column 1; everywhere else (later lines, one-line texts) it coincides with the real rule - which is why plants need a JSON
   error on the line of an opening brace that is not in column 1. *)
Theorem C14_json_shape_rule_first_line : forall tl tc d, Proofs.TokPos.has_nl d = false ->
  (Model.TokJson.json_cite_shape true tl tc (pos_after (1, 1) d) = pos_after (tl, tc) d <-> tc = 1).
Proof. exact Proofs.TokJson.json_cite_shape_first_line. Qed.
Print Assumptions C14_json_shape_rule_first_line.
Theorem C14_json_shape_rule_same_on_later_lines : forall tl tc d, Proofs.TokPos.has_nl d = true ->
  Model.TokJson.json_cite_shape true tl tc (pos_after (1, 1) d) = Model.TokJson.json_cite tl tc (pos_after (1, 1) d).
Proof. exact Proofs.TokJson.json_cite_shape_same_elsewhere. Qed.
Print Assumptions C14_json_shape_rule_same_on_later_lines.
Theorem C14_json_shape_rule_same_on_one_line : forall tl tc e, fst e = 1 ->
  Model.TokJson.json_cite_shape false tl tc e = Model.TokJson.json_cite tl tc e.
Proof. exact Proofs.TokJson.json_cite_shape_single_line. Qed.
Print Assumptions C14_json_shape_rule_same_on_one_line.
