(* Property C16 — header macros are equivalent to their hand-written expansion.
   Model: Model/Layout.v (append_token / expand_macro / end_macro, is_connected, custom_lt — the
   repaired code) and Model/Macro.v (header directives, number_macros).
   Only statements, closed by `exact`, each followed by Print Assumptions. *)
From Coq Require Import ZArith String List Bool Ascii.
From JMCV Require Import Base.Dec Model.Layout Model.Macro Model.MacroSubst Model.MacroEnum Model.MacroScope Proofs.LayoutBasic Proofs.LayoutAdj Proofs.LayoutAdj2 Proofs.MacroFacts Proofs.MacroSubst Proofs.MacroEnum Proofs.MacroScope Proofs.MacroNest.
Import ListNotations.
Open Scope Z_scope.

(* C16_adjacent.  For every macro table whose object-like bodies are non-empty (and, as header lines
   are, free of newlines), every input and tokenizer mode: consecutive tokens of a statement are
   `is_connected` exactly when the ghost flag t_glued says so, where t_glued of
     - the FIRST token of an expansion is what it was for the macro's name (glued to what precedes it),
     - an INNER token is "written without a gap in the #define line" (expand_body / tt_adjacent),
     - the token AFTER an expansion is "starts right after the macro's name" -
   i.e. exactly the adjacency the hand-written expansion has.  Synthetic positions never leak. *)
Theorem C16_adjacent :
  forall mt cf es allow_last allow_sc line col s st sts,
    mt_ok mt ->
    parse_st mt cf es allow_sc line col s = Ok st -> s_ev st = false ->
    finish mt es allow_last st = Ok sts ->
    Forall adjacent_as_glued sts.
Proof. exact parse_adjacent. Qed.
Print Assumptions C16_adjacent.

(* what t_glued is for the tokens of an expansion (the specification used above) *)
Theorem C16_glued_of_expansion :
  forall m line col g,
    map t_glued (expand_macro m line col g) =
    match m_body m with
    | [] => []
    | t :: r => g :: map (fun p => tt_adjacent (fst p) (snd p)) (combine (t :: r) r)
    end /\
    map (fun t => (t_ty t, t_str t)) (expand_macro m line col g) = map (fun t => (tt_ty t, tt_str t)) (m_body m).
Proof. exact expand_macro_spec. Qed.
Print Assumptions C16_glued_of_expansion.

(* Only whole KEYWORD tokens whose text is exactly a macro name are replaced: string literals,
   other token types and longer words (which are single KEYWORD tokens) are left alone. *)
Theorem C16_left_alone :
  forall mt ty st,
    (ty <> KEYWORD \/ lookup_macro mt (rev (s_tstr st)) = None) ->
    append_token mt ty st =
    Ok (push_tokens st [mkTok ty (fst (s_tpos st)) (snd (s_tpos st)) (rev (s_tstr st)) 0 None (s_pglued st)]).
Proof. exact append_token_left_alone. Qed.
Print Assumptions C16_left_alone.

(* The pinned adjacency test (col + len(text) or col + len(key), on every token of an expansion)
   is refuted: `#define N 100`, `N  ~` (two spaces) is glued; the repaired test is not. *)
Theorem C16_pinned_refuted_adjacent :
  exists mt s toks,
    mt_ok mt /\ parse mt false true false false 1 1 s = Ok [toks] /\
    conn_flags_with is_connected_pinned toks <> map t_glued toks /\
    conn_flags_with is_connected toks = map t_glued toks.
Proof. exact pinned_macro_adjacent_refuted. Qed.
Print Assumptions C16_pinned_refuted_adjacent.

(* #enum: for every class name, start value and member list, every member (the last one wins when a
   name is repeated) is a macro whose body is the single keyword `start + index`, and (repaired)
   Header.number_macros maps it to the same text - so Hardcode.calc and `matches` ranges see the
   value the tokenizer substitutes. *)
Theorem C16_enum_number_macros :
  forall cls items start first h k it,
    nth_error items k = Some it ->
    (forall j it', (k < j)%nat -> nth_error items j = Some it' -> t_str it' <> t_str it) ->
    let h' := enum_items false cls items start first h in
    let key := enum_key cls it in
    let v := s2l (z_dec (start + Z.of_nat k)) in
    lookup_macro (h_mt h') key = Some (mkMacro key 0 [mkTT KEYWORD 0 v]) /\ lookup_num (h_num h') key = Some v.
Proof. exact enum_items_spec. Qed.
Print Assumptions C16_enum_number_macros.

(* The pinned rule (number_macros[key] = arg_tokens[1].string if that is a number) never enters a
   member: `#enum Color RED GREEN`, Color.GREEN. *)
Theorem C16_enum_pinned_refuted :
  exists cls items first h k it,
    nth_error items k = Some it /\
    lookup_num (h_num (enum_items true cls items 0 first h)) (enum_key cls it) = None /\
    lookup_num (h_num (enum_items false cls items 0 first h)) (enum_key cls it) = Some (s2l "1").
Proof. exact enum_pinned_refuted. Qed.
Print Assumptions C16_enum_pinned_refuted.

Theorem C16_order_position_free :
  forall a b a' b', o_order a = o_order a' -> o_order b = o_order b' -> o_left a = o_left a' ->
                    custom_lt a b = custom_lt a' b'.
Proof. exact custom_lt_position_free. Qed.
Print Assumptions C16_order_position_free.

Theorem C16_order_pinned_refuted :
  exists a b, o_order a = o_order b /\ o_left a = true /\ custom_lt_pinned a b = false /\ custom_lt a b = true.
Proof. exact custom_lt_pinned_synthetic_refuted. Qed.
Print Assumptions C16_order_pinned_refuted.

(* ---------------------------------------------------------------- strengthening round 1
   Parameterised `#define KEY(p1, .., pn) body` (Model/MacroSubst.v: param_expand = the template + factory of
   header_parse.__create_macro_factory at the level of (token type, text); tied to the real tokenizer's output for
   `KEY(args)` on every run).  For ALL parameter lists, argument lists and bodies:                                  *)

(* a body token that is not a KEYWORD - a string literal of either quote kind whose text equals / contains a
   parameter name, a bracket (selector arguments, NBT, JSON) mentioning it, an operator - is copied unchanged *)
Theorem C16_param_non_keyword_left_alone :
  forall params args body i t,
    nth_error body i = Some t -> fst t <> KEYWORD ->
    nth_error (param_expand params args body) i = Some t.
Proof. exact param_non_keyword_alone. Qed.
Print Assumptions C16_param_non_keyword_left_alone.

(* a KEYWORD whose text is not EQUAL to a parameter (a longer word of which a parameter is a prefix, suffix or
   infix, a dotted or `$`-prefixed form, another letter case) is copied unchanged *)
Theorem C16_param_other_word_left_alone :
  forall params args body i t,
    nth_error body i = Some t -> ~ In (snd t) params ->
    nth_error (param_expand params args body) i = Some t.
Proof. exact param_other_word_alone. Qed.
Print Assumptions C16_param_other_word_left_alone.

(* a slot receives the argument of the first parameter of that name, as it is: the substitution is simultaneous
   (an argument whose text is another parameter's name is not substituted again), token by token, length kept *)
Theorem C16_param_slot_simultaneous :
  forall params args body,
    List.length (param_expand params args body) = List.length body /\
    forall i s k a,
      nth_error body i = Some (KEYWORD, s) -> index_of s params 0%nat = Some k -> nth_error args k = Some a ->
      nth_error (param_expand params args body) i = Some a.
Proof. exact (fun params args body => conj (param_expand_length params args body) (param_slot params args body)). Qed.
Print Assumptions C16_param_slot_simultaneous.

(* Hardcode.calc (Model/MacroSubst.v: calc_subst = the str.replace loop of command/utils.py:hardcode_parse_calc over
   Header.number_macros sorted by name length, longest first; tied to the real function on every run).
   For EVERY set of integer macros - distinct, non-empty names free of the characters + - * / \ % ( ) blank tab
   newline and not purely numeric, numeric values - and EVERY expression whose words are numbers or names of the
   set: the result is the whole-word hand expansion.  A shorter name inside a longer one (prefix, suffix, infix,
   `Lvl.HIGH` vs `HIGH`) is never captured. *)
Theorem C16_calc_longest_first_is_hand_expansion :
  forall nm e,
    keys_ok nm -> Forall (known_word nm) (words_of (split_words e)) ->
    calc_subst nm e = hand_calc nm e.
Proof. exact calc_longest_first. Qed.
Print Assumptions C16_calc_longest_first_is_hand_expansion.

(* the ORDER is what makes it so: with descending alphabetical order (the sort without its length key) `AB` in
   `7*AB+A` is rewritten through `B` - refuted by a witness on which the longest-first order is right *)
Theorem C16_calc_other_order_refuted :
  exists nm e, keys_ok nm /\ Forall (known_word nm) (words_of (split_words e)) /\
               subst_in_order (sort_alpha_desc nm) e <> hand_calc nm e /\ calc_subst nm e = hand_calc nm e.
Proof. exact calc_alphabetical_refuted. Qed.
Print Assumptions C16_calc_other_order_refuted.

(* PARTIAL: the hypothesis on the words cannot be dropped.  `#define AB 1`, `#define C 2`, Hardcode.calc(ABC):
   the unknown word ABC is rewritten to 12 and accepted, while its hand expansion (ABC, left alone) is rejected. *)
Theorem C16_calc_unknown_word_refuted :
  exists nm e, keys_ok nm /\ calc_text nm e = Some (s2l "12") /\ hand_calc nm e = e.
Proof. exact calc_unknown_word_refuted. Qed.
Print Assumptions C16_calc_unknown_word_refuted.

(* ---------------------------------------------------------------- strengthening round 4
   (g) `#enum Class [start] m0 .. mn`.  Model.MacroEnum.enum_value is the SPECIFICATION, computed from the member
   names alone: `Class.m` stands for start + (index of the LAST member named m).  For EVERY class name, start,
   member list (repeated names, names that look like numbers or contain dots included), earlier table and key:
   the macro table and Header.number_macros built by the directive answer exactly that - by induction over the
   member list.                                                                                                    *)
Theorem C16_enum_table :
  forall cls items start first h key,
    let h' := enum_items false cls items start first h in
    lookup_macro (h_mt h') key =
      match enum_value cls start (map t_str items) key with
      | Some v => Some (enum_macro key v)
      | None => lookup_macro (h_mt h) key
      end /\
    lookup_num (h_num h') key =
      match enum_value cls start (map t_str items) key with
      | Some v => Some (s2l (z_dec v))
      | None => lookup_num (h_num h) key
      end.
Proof. exact enum_items_lookup. Qed.
Print Assumptions C16_enum_table.

(* the optional start is decided by its PRESENCE: a digit string after the class name is the start whatever its
   value (`#enum Slot 0 HEAD CHEST` numbers HEAD from 0 and has no member `Slot.0`); anything else is the first
   member and numbering starts at 0 *)
Theorem C16_enum_start_by_presence :
  forall nf ns h d cls a1 f rest,
    t_ty d = KEYWORD -> t_str d = s2l "enum" ->
    (all_digits (t_str a1) = true ->
       directive false nf ns h (d :: cls :: a1 :: f :: rest) =
       Ok (enum_items false (t_str cls) (f :: rest) (digits_val (t_str a1) 0) (t_str f) h)) /\
    (digitish (t_str a1) = false ->
       directive false nf ns h (d :: cls :: a1 :: f :: rest) =
       Ok (enum_items false (t_str cls) (a1 :: f :: rest) 0 (t_str a1) h)).
Proof. exact enum_directive_spec. Qed.
Print Assumptions C16_enum_start_by_presence.

(* both together: whatever the directive accepts, every key has the value the names give it *)
Theorem C16_enum_directive_table :
  forall nf ns h d cls a1 f rest h' key,
    t_ty d = KEYWORD -> t_str d = s2l "enum" ->
    directive false nf ns h (d :: cls :: a1 :: f :: rest) = Ok h' ->
    let start := if all_digits (t_str a1) then digits_val (t_str a1) 0 else 0 in
    let names := if all_digits (t_str a1) then map t_str (f :: rest) else map t_str (a1 :: f :: rest) in
    lookup_macro (h_mt h') key =
      match enum_value (t_str cls) start names key with
      | Some v => Some (enum_macro key v) | None => lookup_macro (h_mt h) key end /\
    lookup_num (h_num h') key =
      match enum_value (t_str cls) start names key with
      | Some v => Some (s2l (z_dec v)) | None => lookup_num (h_num h) key end.
Proof. exact enum_directive_table. Qed.
Print Assumptions C16_enum_directive_table.

(* the PROGRAM: expanding any token list under the table of one enum = replacing every whole KEYWORD `Class.m` by the
   number the names give it, and nothing else (strings, brackets, operators, other words: copied) *)
Theorem C16_enum_program_expansion :
  forall cls items start first nm envs ws,
    expand_words (h_mt (enum_items false cls items start first (mkH [] nm envs))) ws =
    hand_enum cls start (map t_str items) ws.
Proof. exact enum_program_expansion. Qed.
Print Assumptions C16_enum_program_expansion.

(* expand_word is what the tokenizer's append_token does to (type, text), for every macro table *)
Theorem C16_append_token_is_expand_word :
  forall mt ty st st',
    append_token mt ty st = Ok st' ->
    exists toks, st' = push_tokens st toks /\
                 map (fun t => (t_ty t, t_str t)) toks = expand_word mt (ty, rev (s_tstr st)).
Proof. exact append_token_words. Qed.
Print Assumptions C16_append_token_is_expand_word.

(* deciding "a start was given" by the VALUE of the start is refuted by `#enum Slot 0 HEAD CHEST LEGS` (HEAD becomes 1),
   and is the same rule for every other header *)
Theorem C16_enum_start_by_value_refuted :
  exists cls a1 rest start items,
    all_digits (t_str a1) = true /\
    enum_args_by_value a1 rest = Ok (start, items) /\ items = a1 :: rest /\
    enum_args a1 rest = Ok (0, rest) /\
    let key := enum_key cls (kw (s2l "HEAD")) in
    lookup_num (h_num (enum_items false cls items start (t_str a1) (mkH [] [] []))) key = Some (s2l "1") /\
    lookup_num (h_num (enum_items false cls rest 0 (s2l "HEAD") (mkH [] [] []))) key = Some (s2l "0").
Proof. exact enum_by_value_refuted. Qed.
Print Assumptions C16_enum_start_by_value_refuted.

Theorem C16_enum_start_by_value_elsewhere :
  forall a1 rest,
    (all_digits (t_str a1) = false \/ digits_val (t_str a1) 0 <> 0) ->
    enum_args_by_value a1 rest = enum_args a1 rest.
Proof. exact enum_by_value_agrees. Qed.
Print Assumptions C16_enum_start_by_value_elsewhere.

(* (h) SCOPE of Hardcode.calc's textual substitution (Model/MacroScope.v: calc_step = one call of
   command/utils.py:hardcode_parse_calc on the first occurrence, calc_all = the callers' loop; tied to the real
   function on every run).  For EVERY evaluator, table of number macros and body text: a step rewrites the bracket
   of the FIRST occurrence into the value of its substituted text, and the text before `Hardcode.calc` and after the
   closing bracket is the same, character for character - names of number macros there (in string literals,
   longer words, `$`-variables, anywhere) are out of reach. *)
Theorem C16_calc_scope :
  forall ev nm s s',
    calc_step ev nm s = Step s' ->
    exists pre expr rest r,
      s = pre ++ CALC ++ expr ++ rest /\ s' = pre ++ r ++ rest /\
      find_sub CALC s = Some (pre, CALC ++ expr ++ rest) /\
      scan (expr ++ rest) 0 = Some (expr, rest) /\
      calc_value ev nm expr = Some r.
Proof. exact calc_step_frame. Qed.
Print Assumptions C16_calc_scope.

Theorem C16_calc_no_occurrence :
  forall ev nm s s', calc_step ev nm s = Done s' -> s' = s /\ find_sub CALC s = None.
Proof. exact calc_step_done. Qed.
Print Assumptions C16_calc_no_occurrence.

(* ... and inside the bracket it is the whole-word hand expansion (same hypotheses as
   C16_calc_longest_first_is_hand_expansion) *)
Theorem C16_calc_step_is_hand_expansion :
  forall ev nm s s',
    keys_ok nm -> calc_step ev nm s = Step s' ->
    exists pre expr rest r,
      s = pre ++ CALC ++ expr ++ rest /\ s' = pre ++ r ++ rest /\
      (Forall (known_word nm) (words_of (split_words expr)) -> ev (hand_calc nm expr) = Some r).
Proof. exact calc_step_hand. Qed.
Print Assumptions C16_calc_step_is_hand_expansion.

(* the callers' loop (find the first occurrence again in the REWRITTEN text, until there is none) is one pass from
   left to right over the original text, for every evaluator whose values are decimal numbers (eval_expr): no value
   and no text already passed is ever read again - for every fuel, table and body *)
Theorem C16_calc_loop_is_one_pass :
  forall ev nm,
    (forall t r, ev t = Some r -> numeric r = true) ->
    forall fuel s x, calc_all ev nm fuel s = CText x -> one_pass ev nm fuel s = CText x.
Proof. exact calc_all_one_pass. Qed.
Print Assumptions C16_calc_loop_is_one_pass.

(* substituting the number macros into everything that follows `Hardcode.calc` (the seeded reorganisation) is
   refuted: `#define N 5`, `$x = Hardcode.calc(N+2); say "N is N"; $countN += 1;` *)
Theorem C16_calc_leak_refuted :
  exists nm s s1 s2,
    keys_ok nm /\
    calc_step ev_mark nm s = Step s1 /\ calc_step_leaky ev_mark nm s = Step s2 /\ s1 <> s2 /\
    s1 = s2l "$x = 7; say ""N is N""; $countN += 1;" /\
    s2 = s2l "$x = 7; say ""5 is 5""; $count5 += 1;".
Proof. exact calc_leak_refuted. Qed.
Print Assumptions C16_calc_leak_refuted.

(* side finding: a macro used inside another macro's body (`#define SEL @e`, `#define NEAR SEL[distance=..5]`).
   Repaired (fixes/C16-macro-in-macro-body-adjacency.patch, Model.Macro.norm_body): for EVERY list of body tokens -
   whatever synthetic positions and ends nested expansions gave them - the inner adjacency of the template (the
   tt_adjacent of C16_adjacent / C16_glued_of_expansion) is the connectedness of the tokens in the header line, texts
   and types unchanged; a body written without macros is not moved at all. *)
Theorem C16_body_layout :
  forall toks prev,
    adj_flags (norm_body prev toks) = conn_seq toks /\
    map (fun t => (tt_ty t, tt_str t)) (norm_body prev toks) = map (fun t => (t_ty t, t_str t)) toks.
Proof. exact (fun toks prev => conj (norm_body_adjacent toks prev) (norm_body_texts toks prev)). Qed.
Print Assumptions C16_body_layout.

Theorem C16_body_layout_plain :
  forall toks, laid_out None toks -> norm_body None toks = map tt_of toks.
Proof. exact norm_body_plain. Qed.
Print Assumptions C16_body_layout_plain.

(* the unrepaired template keeps the header line's columns: refuted by the tokens of `SEL[distance=..5]` *)
Theorem C16_body_layout_pinned_refuted :
  exists toks, adj_flags (map tt_of toks) <> conn_seq toks /\ adj_flags (norm_body None toks) = conn_seq toks /\
               conn_seq toks = [true].
Proof. exact pinned_body_refuted. Qed.
Print Assumptions C16_body_layout_pinned_refuted.

Example C16_enum_nonvacuous :
  (* #enum Slot 0 HEAD CHEST HEAD 7 a.b : explicit start 0, a repeated name, a number-like and a dotted name *)
  let names := map s2l ["HEAD"; "CHEST"; "HEAD"; "7"; "a.b"]%string in
  map (enum_value (s2l "Slot") 0 names) (map s2l ["Slot.HEAD"; "Slot.CHEST"; "Slot.7"; "Slot.a.b"; "Slot.0"; "HEAD"; "Slot.HEA"]%string)
  = [Some 2; Some 1; Some 3; Some 4; None; None; None] /\
  hand_enum (s2l "Lvl") 5 (map s2l ["LOW"; "HIGH"]%string)
            [(KEYWORD, s2l "Lvl.HIGH"); (STRING, s2l "Lvl.HIGH"); (KEYWORD, s2l "Lvl.HIGHER"); (KEYWORD, s2l "$Lvl.HIGH")]
  = [(KEYWORD, s2l "6"); (STRING, s2l "Lvl.HIGH"); (KEYWORD, s2l "Lvl.HIGHER"); (KEYWORD, s2l "$Lvl.HIGH")].
Proof. split; vm_compute; reflexivity. Qed.

Example C16_calc_scope_nonvacuous :
  calc_all (fun t => Some (s2l "<" ++ t ++ s2l ">")) [(s2l "N", s2l "5"); (s2l "Team.BLUE", s2l "1")] 9
           (s2l "say ""N""; $a = Hardcode.calc((N+1)*Team.BLUE); $countN = Hardcode.calc(N); say ""Team.BLUE N"";")
  = CText (s2l "say ""N""; $a = <((5+1)*1)>; $countN = <(5)>; say ""Team.BLUE N"";").
Proof. vm_compute. reflexivity. Qed.

Example C16_param_nonvacuous :
  param_expand [s2l "name"] [(KEYWORD, s2l "kills")]
    [(KEYWORD, s2l "add"); (KEYWORD, s2l "name"); (KEYWORD, s2l "names"); (STRING, s2l "name")] =
  [(KEYWORD, s2l "add"); (KEYWORD, s2l "kills"); (KEYWORD, s2l "names"); (STRING, s2l "name")].
Proof. vm_compute. reflexivity. Qed.

Example C16_calc_nonvacuous :
  calc_text [(s2l "SIZE", s2l "4"); (s2l "GRID_SIZE", s2l "16"); (s2l "Lvl.SIZE", s2l "7")] (s2l "(3*GRID_SIZE+SIZE - Lvl.SIZE)")
  = Some (s2l "(3*16+4 - 7)").
Proof. vm_compute. reflexivity. Qed.

(* Non-vacuity: a two-token macro body used glued to a bracket and, two spaces later, not glued. *)
Example C16_nonvacuous :
  let mt := [mkMacro (s2l "SEL") 0 [mkTT KEYWORD 13 (s2l "@e"); mkTT PAREN_SQUARE 15 (s2l "[type=pig]")]] in
  mt_ok mt /\
  match parse_st mt false true false 1 1 (s2l "kill SEL[tag=a] SEL  [x];") with
  | Ok st =>
      match finish mt true false st with
      | Ok [toks] =>
          negb (s_ev st) &&
          (if list_eq_dec bool_dec (map t_glued toks) [false; false; true; true; false; true; false] then true else false)
      | _ => false
      end
  | Err _ => false
  end = true.
Proof.
  split.
  - intros k m H Ha. cbn [lookup_macro m_key] in H. destruct (str_eqb _ k); [|discriminate]. injection H as <-.
    unfold macro_ok; cbn. split; [discriminate|]. split; [repeat constructor; right; reflexivity|reflexivity].
  - vm_compute. reflexivity.
Qed.

From Coq Require Import Lia.
Open Scope Z_scope.
(* ---------------------------------------------------------------- strengthening round 5
   A macro WITH parameters replaces `KEY(<arguments>)`; Tokenizer.__end_macro hands the last token of the expansion
   the end of the replaced bracket token (Token.end = Layout.tok_end).  Whatever the expansion is, the token that
   follows is connected exactly when it starts at the end of the bracket's text, and for a bracket that contains a
   newline that end is on a later line (so `(line, col + length)` is not it). *)
Lemma end_macro_last_end :
  forall toks e d, toks <> [] -> tok_end (last (end_macro toks e) d) = e.
Proof.
  induction toks as [|t r IH]; intros e d H; [congruence|].
  destruct r as [|t' r']; [reflexivity|].
  change (end_macro (t :: t' :: r') e) with (t :: end_macro (t' :: r') e).
  specialize (IH e d).
  remember (end_macro (t' :: r') e) as l eqn:E.
  destruct l as [|t0 l]; [destruct r'; discriminate|].
  change (last (t :: t0 :: l) d) with (last (t0 :: l) d).
  apply IH. discriminate.
Qed.

Theorem C16_connected_after_replaced_bracket :
  forall toks br cur d, toks <> [] ->
    is_connected cur (last (end_macro toks (tok_end br)) d) = pos_eqb (tok_end br) (t_line cur, t_col cur).
Proof. intros. unfold is_connected. rewrite end_macro_last_end; auto. Qed.
Print Assumptions C16_connected_after_replaced_bracket.

Theorem C16_multiline_bracket_end :
  forall br, t_mend br = None -> is_paren_ty (t_ty br) = true -> 0 < count_nl (t_str br) ->
    tok_end br = (t_line br + count_nl (t_str br), after_last_nl (t_str br) 0 + 1) /\
    fst (tok_end br) <> t_line br.
Proof.
  intros br Hm Hp Hn. unfold tok_end. rewrite Hm.
  destruct (t_ty br); try discriminate; apply Z.ltb_lt in Hn; rewrite Hn; simpl; split; auto; apply Z.ltb_lt in Hn; lia.
Qed.
Print Assumptions C16_multiline_bracket_end.
