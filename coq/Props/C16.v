(* Property C16 — header macros are equivalent to their hand-written expansion.
   Model: Model/Layout.v (append_token / expand_macro / end_macro, is_connected, custom_lt — the
   repaired code) and Model/Macro.v (header directives, number_macros).
   Only statements, closed by `exact`, each followed by Print Assumptions. *)
From Coq Require Import ZArith String List Bool Ascii.
From JMCV Require Import Base.Dec Model.Layout Model.Macro Model.MacroSubst Proofs.LayoutBasic Proofs.LayoutAdj Proofs.LayoutAdj2 Proofs.MacroFacts Proofs.MacroSubst.
Import ListNotations.
Open Scope Z_scope.

(* C16_adjacent.  For every macro table whose object-like bodies are non-empty (and, as header lines
   are, free of newlines), every input and tokenizer mode: consecutive tokens of a statement are
   `is_connected` exactly when the ghost flag t_glued says so, where t_glued of
     - the FIRST token of an expansion is what it was for the macro's name (glued to what precedes it),
     - an INNER token is "written without a gap in the #define line" (expand_body / tt_adjacent),
     - the token AFTER an expansion is "starts right after the macro's name" -
   i.e. exactly the adjacency the hand-written expansion has.  Synthetic positions never leak. *)
Theorem C16_adjacent :
  forall mt cf es allow_last allow_sc line col s st sts,
    mt_ok mt ->
    parse_st mt cf es allow_sc line col s = Ok st -> s_ev st = false ->
    finish mt es allow_last st = Ok sts ->
    Forall adjacent_as_glued sts.
Proof. exact parse_adjacent. Qed.
Print Assumptions C16_adjacent.

(* what t_glued is for the tokens of an expansion (the specification used above) *)
Theorem C16_glued_of_expansion :
  forall m line col g,
    map t_glued (expand_macro m line col g) =
    match m_body m with
    | [] => []
    | t :: r => g :: map (fun p => tt_adjacent (fst p) (snd p)) (combine (t :: r) r)
    end /\
    map (fun t => (t_ty t, t_str t)) (expand_macro m line col g) = map (fun t => (tt_ty t, tt_str t)) (m_body m).
Proof. exact expand_macro_spec. Qed.
Print Assumptions C16_glued_of_expansion.

(* Only whole KEYWORD tokens whose text is exactly a macro name are replaced: string literals,
   other token types and longer words (which are single KEYWORD tokens) are left alone. *)
Theorem C16_left_alone :
  forall mt ty st,
    (ty <> KEYWORD \/ lookup_macro mt (rev (s_tstr st)) = None) ->
    append_token mt ty st =
    Ok (push_tokens st [mkTok ty (fst (s_tpos st)) (snd (s_tpos st)) (rev (s_tstr st)) 0 None (s_pglued st)]).
Proof. exact append_token_left_alone. Qed.
Print Assumptions C16_left_alone.

(* The pinned adjacency test (col + len(text) or col + len(key), on every token of an expansion)
   is refuted: `#define N 100`, `N  ~` (two spaces) is glued; the repaired test is not. *)
Theorem C16_pinned_refuted_adjacent :
  exists mt s toks,
    mt_ok mt /\ parse mt false true false false 1 1 s = Ok [toks] /\
    conn_flags_with is_connected_pinned toks <> map t_glued toks /\
    conn_flags_with is_connected toks = map t_glued toks.
Proof. exact pinned_macro_adjacent_refuted. Qed.
Print Assumptions C16_pinned_refuted_adjacent.

(* #enum: for every class name, start value and member list, every member (the last one wins when a
   name is repeated) is a macro whose body is the single keyword `start + index`, and (repaired)
   Header.number_macros maps it to the same text - so Hardcode.calc and `matches` ranges see the
   value the tokenizer substitutes. *)
Theorem C16_enum_number_macros :
  forall cls items start first h k it,
    nth_error items k = Some it ->
    (forall j it', (k < j)%nat -> nth_error items j = Some it' -> t_str it' <> t_str it) ->
    let h' := enum_items false cls items start first h in
    let key := enum_key cls it in
    let v := s2l (z_dec (start + Z.of_nat k)) in
    lookup_macro (h_mt h') key = Some (mkMacro key 0 [mkTT KEYWORD 0 v]) /\ lookup_num (h_num h') key = Some v.
Proof. exact enum_items_spec. Qed.
Print Assumptions C16_enum_number_macros.

(* The pinned rule (number_macros[key] = arg_tokens[1].string if that is a number) never enters a
   member: `#enum Color RED GREEN`, Color.GREEN. *)
Theorem C16_enum_pinned_refuted :
  exists cls items first h k it,
    nth_error items k = Some it /\
    lookup_num (h_num (enum_items true cls items 0 first h)) (enum_key cls it) = None /\
    lookup_num (h_num (enum_items false cls items 0 first h)) (enum_key cls it) = Some (s2l "1").
Proof. exact enum_pinned_refuted. Qed.
Print Assumptions C16_enum_pinned_refuted.

Theorem C16_order_position_free :
  forall a b a' b', o_order a = o_order a' -> o_order b = o_order b' -> o_left a = o_left a' ->
                    custom_lt a b = custom_lt a' b'.
Proof. exact custom_lt_position_free. Qed.
Print Assumptions C16_order_position_free.

Theorem C16_order_pinned_refuted :
  exists a b, o_order a = o_order b /\ o_left a = true /\ custom_lt_pinned a b = false /\ custom_lt a b = true.
Proof. exact custom_lt_pinned_synthetic_refuted. Qed.
Print Assumptions C16_order_pinned_refuted.

(* ---------------------------------------------------------------- strengthening round 1
   Parameterised `#define KEY(p1, .., pn) body` (Model/MacroSubst.v: param_expand = the template + factory of
   header_parse.__create_macro_factory at the level of (token type, text); tied to the real tokenizer's output for
   `KEY(args)` on every run).  For ALL parameter lists, argument lists and bodies:                                  *)

(* a body token that is not a KEYWORD - a string literal of either quote kind whose text equals / contains a
   parameter name, a bracket (selector arguments, NBT, JSON) mentioning it, an operator - is copied unchanged *)
Theorem C16_param_non_keyword_left_alone :
  forall params args body i t,
    nth_error body i = Some t -> fst t <> KEYWORD ->
    nth_error (param_expand params args body) i = Some t.
Proof. exact param_non_keyword_alone. Qed.
Print Assumptions C16_param_non_keyword_left_alone.

(* a KEYWORD whose text is not EQUAL to a parameter (a longer word of which a parameter is a prefix, suffix or
   infix, a dotted or `$`-prefixed form, another letter case) is copied unchanged *)
Theorem C16_param_other_word_left_alone :
  forall params args body i t,
    nth_error body i = Some t -> ~ In (snd t) params ->
    nth_error (param_expand params args body) i = Some t.
Proof. exact param_other_word_alone. Qed.
Print Assumptions C16_param_other_word_left_alone.

(* a slot receives the argument of the first parameter of that name, as it is: the substitution is simultaneous
   (an argument whose text is another parameter's name is not substituted again), token by token, length kept *)
Theorem C16_param_slot_simultaneous :
  forall params args body,
    List.length (param_expand params args body) = List.length body /\
    forall i s k a,
      nth_error body i = Some (KEYWORD, s) -> index_of s params 0%nat = Some k -> nth_error args k = Some a ->
      nth_error (param_expand params args body) i = Some a.
Proof. intros. split; [apply param_expand_length|apply param_slot]. Qed.
Print Assumptions C16_param_slot_simultaneous.

(* Hardcode.calc (Model/MacroSubst.v: calc_subst = the str.replace loop of command/utils.py:hardcode_parse_calc over
   Header.number_macros sorted by name length, longest first; tied to the real function on every run).
   For EVERY set of integer macros - distinct, non-empty names free of the characters + - * / \ % ( ) blank tab
   newline and not purely numeric, numeric values - and EVERY expression whose words are numbers or names of the
   set: the result is the whole-word hand expansion.  A shorter name inside a longer one (prefix, suffix, infix,
   `Lvl.HIGH` vs `HIGH`) is never captured. *)
Theorem C16_calc_longest_first_is_hand_expansion :
  forall nm e,
    keys_ok nm -> Forall (known_word nm) (words_of (split_words e)) ->
    calc_subst nm e = hand_calc nm e.
Proof. exact calc_longest_first. Qed.
Print Assumptions C16_calc_longest_first_is_hand_expansion.

(* the ORDER is what makes it so: with descending alphabetical order (the sort without its length key) `AB` in
   `7*AB+A` is rewritten through `B` - refuted by a witness on which the longest-first order is right *)
Theorem C16_calc_other_order_refuted :
  exists nm e, keys_ok nm /\ Forall (known_word nm) (words_of (split_words e)) /\
               subst_in_order (sort_alpha_desc nm) e <> hand_calc nm e /\ calc_subst nm e = hand_calc nm e.
Proof. exact calc_alphabetical_refuted. Qed.
Print Assumptions C16_calc_other_order_refuted.

(* PARTIAL: the hypothesis on the words cannot be dropped.  `#define AB 1`, `#define C 2`, Hardcode.calc(ABC):
   the unknown word ABC is rewritten to 12 and accepted, while its hand expansion (ABC, left alone) is rejected. *)
Theorem C16_calc_unknown_word_refuted :
  exists nm e, keys_ok nm /\ calc_text nm e = Some (s2l "12") /\ hand_calc nm e = e.
Proof. exact calc_unknown_word_refuted. Qed.
Print Assumptions C16_calc_unknown_word_refuted.

Example C16_param_nonvacuous :
  param_expand [s2l "name"] [(KEYWORD, s2l "kills")]
    [(KEYWORD, s2l "add"); (KEYWORD, s2l "name"); (KEYWORD, s2l "names"); (STRING, s2l "name")] =
  [(KEYWORD, s2l "add"); (KEYWORD, s2l "kills"); (KEYWORD, s2l "names"); (STRING, s2l "name")].
Proof. vm_compute. reflexivity. Qed.

Example C16_calc_nonvacuous :
  calc_text [(s2l "SIZE", s2l "4"); (s2l "GRID_SIZE", s2l "16"); (s2l "Lvl.SIZE", s2l "7")] (s2l "(3*GRID_SIZE+SIZE - Lvl.SIZE)")
  = Some (s2l "(3*16+4 - 7)").
Proof. vm_compute. reflexivity. Qed.

(* Non-vacuity: a two-token macro body used glued to a bracket and, two spaces later, not glued. *)
Example C16_nonvacuous :
  let mt := [mkMacro (s2l "SEL") 0 [mkTT KEYWORD 13 (s2l "@e"); mkTT PAREN_SQUARE 15 (s2l "[type=pig]")]] in
  mt_ok mt /\
  match parse_st mt false true false 1 1 (s2l "kill SEL[tag=a] SEL  [x];") with
  | Ok st =>
      match finish mt true false st with
      | Ok [toks] =>
          negb (s_ev st) &&
          (if list_eq_dec bool_dec (map t_glued toks) [false; false; true; true; false; true; false] then true else false)
      | _ => false
      end
  | Err _ => false
  end = true.
Proof.
  split.
  - intros k m H Ha. cbn [lookup_macro m_key] in H. destruct (str_eqb _ k); [|discriminate]. injection H as <-.
    unfold macro_ok; cbn. split; [discriminate|]. split; [repeat constructor; right; reflexivity|reflexivity].
  - vm_compute. reflexivity.
Qed.
