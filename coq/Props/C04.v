(* Property C04 — if / else-if / else chains run exactly one branch, once.
   Only statements of theorems, closed by `exact`, and Print Assumptions.

   Model.IfElse is a port of Lexer.parse_if_else *with the repair*
   fixes/C04-last-elif-precommand.patch (on the pinned tree a chain without `else` whose last
   `else if` has a `||` condition left all but the first precommand line — and the guarded body —
   outside the __if_else__ guard, so two branches could run; the check demonstrates that on the
   real code when pointed at an unrepaired tree). *)
From Coq Require Import ZArith String List Bool.
From JMCV Require Import Base.Int32 Base.Dec MC.Syntax MC.Sem Model.Names Model.PrivAlloc Model.IfElse Model.Loop
     Proofs.IfElseBase Proofs.IfElse Proofs.IfElseTrace Proofs.LoopLink.
Import ListNotations.

(* Conventions.
   - A condition is ANY pair (precommand lines, execute guards); testing it = running the
     precommands and evaluating the guards in the state they leave (MC.Sem).  The only thing
     asked of it: its precommands do not write the score `__if_else__ <VAR>` (keeps_flag).
   - A body is ANY list of commands (in particular the lowered code of nested chains and
     loops; `CExt n` = an arbitrary state transformer, which may clobber __if_else__ and
     every variable the conditions read).
   - `runs ft env l st st'` : with enough fuel the lines l take st to st'.
   - `chain_sem` (Proofs.IfElse) is the source-level meaning: conditions tested in order, the
     first true one's body runs (`Took i`), else the else body (`TookElse`), else nothing
     (`TookNone`); bodies run from the state left by the tests. *)

(* Full strength.  For every chain with >= 2 parts (first branch, any number of further wrapped
   branches, and either an `else` body or — without else — a last `else if`), every numbering of the
   generated functions, every function table containing them, every env and every state:
   the emitted caller lines terminate in st' IF AND ONLY IF the source chain, started from st
   with the flag zeroed, selects an outcome o and its body terminates in st'', and st' is st''
   with the flag set to 1 when o is one of the wrapped branches.  Hence exactly the selected
   body runs, from exactly the state the tests left, once; nothing else runs. *)
Theorem C04_chain_runs_selected_branch :
  forall nm ft env first rest last caller fs,
    chain_code nm first rest last = (caller, fs) ->
    installed ft fs ->
    keeps_flag nm ft env (w_cond first) ->
    Forall (fun wr => keeps_flag nm ft env (w_cond (fst wr))) rest ->
    forall st st',
      runs ft env caller st st' <->
      exists o st'',
        chain_sem ft env (chain_branches first rest last) (last_else last)
                  (set_sc st (flag nm) 0) o st'' /\
        st' = finish nm (S (length rest)) o st''.
Proof. exact chain_correct. Qed.
Print Assumptions C04_chain_runs_selected_branch.

(* A lone `if` (no flag involved). *)
Theorem C04_single_if :
  forall nm ft env c body aid caller fs,
    single_if_code nm c body aid = (caller, fs) -> installed ft fs ->
    forall st st', runs ft env caller st st' <-> exists o, chain_sem ft env [(c, body)] None st o st'.
Proof. exact single_if_correct. Qed.
Print Assumptions C04_single_if.

(* The same in terms of the trace.  Bodies = lists of abstract sub-programs, conditions with
   precommands of the emitted shape (set / execute-if-set of a score other than the flag), env
   arbitrary on scores and storage: the emitted chain followed by the next statement `CExt after`
   always terminates, in a unique state; the trace grows by exactly the events of the body the
   source chain selects — each once — followed by `after` once. *)
Theorem C04_exactly_one :
  forall nm ft env,
    (forall n st, tr (env n st) = tr st) ->
    forall first rest last caller fs after,
      chain_code nm first rest last = (caller, fs) -> installed ft fs ->
      Forall (fun cb => simple_cond (flag nm) (fst cb) = true /\ all_ext (snd cb) = true)
             (chain_branches first rest last) ->
      match last_else last with Some b => all_ext b = true | None => True end ->
      forall st, exists o st'' st',
        chain_sem ft env (chain_branches first rest last) (last_else last) (set_sc st (flag nm) 0) o st'' /\
        runs ft env (caller ++ [CExt after]) st st' /\
        (forall st2, runs ft env (caller ++ [CExt after]) st st2 -> st2 = st') /\
        st' = log (env after (finish nm (S (length rest)) o st'')) (EExt after) /\
        tr st' = EExt after ::
                 rev (map EExt (ext_ids (sel_body (chain_branches first rest last) (last_else last) o))) ++ tr st.
Proof. exact exactly_one. Qed.
Print Assumptions C04_exactly_one.

(* At any nesting depth.  Model.Loop.compile_body lowers a whole function body — a tree of basic
   commands, chains and while / do-while / for loops nested without bound — numbering and
   storing the private functions as DataPack does.  For every such tree the lowering accepts:
   the stored functions have pairwise distinct names (none replaces another), and with ANY
   function table containing them the emitted lines terminate in st' iff the source meaning
   `sem_stmts` of the tree (Proofs.LoopLink: basic command = its Minecraft meaning; chain =
   first true condition in source order / else / nothing, with the flag zeroed before and set
   after a wrapped branch; loops = the JavaScript unfolding) relates st to st'.
   Hypothesis: testing a chain condition does not write __if_else__ (keeps_stmts).
   (`return`: MC.Sem has no such command, a `return …` line is an opaque no-op here; compile_body stores a wrapped
   branch body that can return in a function of its own — Model.Loop.isolate — which this theorem shows to be
   meaning-preserving for MC.Sem; what it buys for Minecraft's `return` is stated at the end of this file.) *)
Theorem C04_any_nesting_depth :
  forall nm ft env prog lines fs,
    compile_body nm prog = Some (lines, fs) ->
    NoDup (map fst fs) /\
    (installed ft fs -> keeps_stmts nm ft env prog ->
     forall st st', runs ft env lines st st' <-> sem_stmts nm ft env prog st st').
Proof. exact compile_body_correct. Qed.
Print Assumptions C04_any_nesting_depth.

(* Non-vacuity: `if (a==1) {X0} else if (b==1 || c==1) {X1; X2}` (no else; the shape that was
   defective) with both conditions true and a body X0 that clobbers the flag and b:
   the hypotheses hold for the generated function table, and the run shows X0 then `after`. *)
Definition ex_nm := default_names.
Definition ex_v (s : string) : score := (s, "__variable__"%string).
Definition ex_lg := ex_v "__logic__0".
Definition ex_c0 := mkCond [] [(true, Matches (ex_v "$a") (Exact 1))].
Definition ex_c1 := mkCond
  [CSet ex_lg 0;
   CExecute (mods_of [(true, Matches (ex_v "$b") (Exact 1))]) (CSet ex_lg 1);
   CExecute (mods_of [(false, Matches ex_lg (Exact 1)); (true, Matches (ex_v "$c") (Exact 1))]) (CSet ex_lg 1)]
  [(true, Matches ex_lg (Exact 1))].
Definition ex_first := mkW ex_c0 [CExt 0] 0.
Definition ex_last := LElif ex_c1 [CExt 1; CExt 2] 1 2.
Definition ex_code := chain_code ex_nm ex_first [] ex_last.
Definition ex_ft (f : string) : option (list cmd) := lookup_fn (snd ex_code) f.
Definition ex_env (n : nat) (st : state) : state :=
  match n with
  | O => set_sc (set_sc st (flag ex_nm) 0) (ex_v "$b") 1     (* X0 clobbers the flag and sets b *)
  | _ => st
  end.
Definition ex_st : state :=
  mkState (fun k => if score_eqb k (ex_v "$a") then Some 1%Z
                    else if score_eqb k (ex_v "$b") then Some 1%Z else None) (fun _ => None) [].

Example C04_nonvacuous :
  installed ex_ft (snd ex_code) /\
  Forall (fun cb => simple_cond (flag ex_nm) (fst cb) = true /\ all_ext (snd cb) = true)
         (chain_branches ex_first [] ex_last) /\
  (forall n st, tr (ex_env n st) = tr st) /\
  option_map tr (exec_list ex_ft ex_env 10 (fst ex_code ++ [CExt 9]) ex_st) = Some [EExt 9; EExt 0].
Proof.
  split; [|split; [|split]].
  - repeat constructor.
  - repeat constructor.
  - intros [|n] st; reflexivity.
  - vm_compute. reflexivity.
Qed.

(* What was wrong on the pinned tree (documentation; the check demonstrates it on the real code when
   pointed at an unrepaired tree).  `pinned_two_branch_noelse` is the unrepaired text for
   `if (a==1) {X0} else if (b==1 || c==1) {X1}`: from a state with a = b = 1 BOTH bodies run. *)
Theorem C04_pinned_lowering_refuted :
  exists nm first c body aid ft env st st',
    let code := pinned_two_branch_noelse nm first c body aid in
    installed ft (snd code) /\
    exec_list ft env 10 (fst code) st = Some st' /\
    tr st' = [EExt 1; EExt 0].
Proof.
  exists ex_nm, ex_first, ex_c1, [CExt 1], 1%nat.
  exists (fun f => lookup_fn (snd (pinned_two_branch_noelse ex_nm ex_first ex_c1 [CExt 1] 1)) f), (fun _ st => st), ex_st.
  eexists. split; [repeat constructor|]. split; vm_compute; reflexivity.
Qed.
Print Assumptions C04_pinned_lowering_refuted.

(* ====================================================================================
   Composition with C03: the conditions are boolean FORMULAS.

   Above, a condition is any (precommand lines, guards) pair and "true" means what MC.Sem computes
   when they run.  Property C03 (Props/C03.v) proves what the lowering of a formula computes.
   Here the two are composed (Proofs/ComposeCond.v), for the very lowering the correspondence
   check feeds to the chain model (Model.CondLower.cond_of_formula = Run.C04.lowc):

     formula, eval         Model.Cond.formula (&&, ||, ! over score atoms, any nesting) and its
                           source-level truth value in a state
     formula_ok nm f       hypothesis of C03_guard_iff_partial: && / || have >= 1 operand, atoms read
                           no `__logic__N` score, every bound JMC writes is a Java int
     lowers nm f c         formula_ok nm f /\ exists wrapped, cond_of_formula nm wrapped f = Some c
     user_score nm s       s is not a `__logic__N` flag
     same_but_logic nm a b b is a except on `__logic__N` flags (scores, storage, trace)
     select st fs e        the outcome JavaScript gives: Took i for the FIRST i with eval st f_i = true,
                           else TookElse if there is an else, else TookNone  (C04_select_is_first_true)
   ==================================================================================== *)
From JMCV Require Import Model.CondLower Proofs.Loop Proofs.ComposeCond.

(* `__if_else__` is not one of C03's scratch flags: C03's frame clause ("user scores are left
   alone by a test") covers it. *)
Theorem C04_if_else_flag_is_user_score : forall nm, user_score nm (flag nm).
Proof. exact if_else_flag_user. Qed.
Print Assumptions C04_if_else_flag_is_user_score.

(* A lowered formula satisfies every hypothesis the theorems above and those of Props/C05.v put
   on a condition (keeps_flag; simple_cond / quiet_pre = precommands of the emitted shape; all
   lines well-formed), and testing it — from ANY state, whatever the `__logic__N` flags hold —
   terminates in a unique state st1 that is st except on `__logic__N`, in which the guards hold
   iff the formula is true of st. *)
Theorem C04_condition_of_formula :
  forall nm ft env f c,
    lowers nm f c ->
    keeps_flag nm ft env c /\
    simple_cond (flag nm) c = true /\ forallb quiet_pre (c_pre c) = true /\
    forallb wf_cmd (c_pre c) = true /\ forallb wf_mod (mods_of (c_tests c)) = true /\
    forall st, exists st1,
      runs ft env (c_pre c) st st1 /\ (forall st2, runs ft env (c_pre c) st st2 -> st2 = st1) /\
      same_but_logic nm st st1 /\
      tests_hold st1 (c_tests c) = eval st f.
Proof. exact condition_of_formula. Qed.
Print Assumptions C04_condition_of_formula.

(* select is "the first true formula in source order" *)
Theorem C04_select_is_first_true :
  forall st fs has_else,
    match select st fs has_else with
    | Took i => exists f, nth_error fs i = Some f /\ eval st f = true /\
                          forall j g, (j < i)%nat -> nth_error fs j = Some g -> eval st g = false
    | TookElse => has_else = true /\ Forall (fun g => eval st g = false) fs
    | TookNone => has_else = false /\ Forall (fun g => eval st g = false) fs
    end.
Proof. exact select_spec. Qed.
Print Assumptions C04_select_is_first_true.

(* THE COMPOSED STATEMENT.  For every chain (>= 2 parts) whose conditions, in source order, are the
   lowerings of formulas `forms` (any formulas within formula_ok), every bodies / else, every
   numbering, every function table containing the generated functions, every env and state st:
   let o be the source-level choice among `forms` in st with `__if_else__` zeroed — i.e. in the
   state in which the first formula is tested; the later ones are tested in states that differ
   from it on `__logic__N` only (no body has run), and eval does not read those.  Then there is a
   state stb, equal to st except on `__logic__N` and `__if_else__` (= 0), such that the emitted
   caller terminates in st' IF AND ONLY IF the body designated by o (branch i, else body, or
   nothing) run from stb terminates in st'' and st' = st'' with `__if_else__` := 1 after a wrapped
   branch.  So exactly the body of the first true formula runs, once, nothing else runs, and a
   user score the body does not write keeps its value (C04_formulas_frame).
   No hypothesis on bodies: a body may contain conditions of its own, i.e. overwrite `__logic__N`
   and `__if_else__`; within one chain no formula is tested after a body has run, and whatever the
   flags held at entry (stale values from earlier statements) every test re-initialises the flags
   it reads — that is C03_numbering_invariant, used through C03_guard_iff_partial "for every st". *)
Theorem C04_chain_with_formulas :
  forall nm ft env first rest last caller fs forms,
    chain_code nm first rest last = (caller, fs) -> installed ft fs ->
    Forall2 (fun cb f => lowers nm f (fst cb)) (chain_branches first rest last) forms ->
    forall st,
      let o := select (set_sc st (flag nm) 0) forms (is_some (last_else last)) in
      exists stb,
        (forall s, user_score nm s -> s <> flag nm -> sc stb s = sc st s) /\
        sc stb (flag nm) = Some 0%Z /\ stg stb = stg st /\ tr stb = tr st /\
        forall st', runs ft env caller st st' <->
                    exists st'', runs ft env (sel_body (chain_branches first rest last) (last_else last) o) stb st'' /\
                                 st' = finish nm (S (length rest)) o st''.
Proof. exact chain_with_formulas. Qed.
Print Assumptions C04_chain_with_formulas.

(* zeroing `__if_else__` is invisible to formulas that do not read that score (user programs do
   not: it is JMC's): the choice is the one made in st itself *)
Theorem C04_select_ignores_flag :
  forall nm st fs has_else,
    Forall (fun f => Forall (fun a => ~ In (flag nm) (Proofs.CondFormula.atom_scores a))
                            (Proofs.CondFormula.atoms f)) fs ->
    select (set_sc st (flag nm) 0) fs has_else = select st fs has_else.
Proof. exact select_ignores_flag. Qed.
Print Assumptions C04_select_ignores_flag.

(* frame: a user score other than `__if_else__` that the chosen body does not write is unchanged *)
Theorem C04_formulas_frame :
  forall nm ft env first rest last caller fs forms s,
    chain_code nm first rest last = (caller, fs) -> installed ft fs ->
    Forall2 (fun cb f => lowers nm f (fst cb)) (chain_branches first rest last) forms ->
    user_score nm s -> s <> flag nm ->
    forall st st',
      (forall a b, runs ft env (sel_body (chain_branches first rest last) (last_else last)
                                         (select (set_sc st (flag nm) 0) forms (is_some (last_else last)))) a b ->
                   sc b s = sc a s) ->
      runs ft env caller st st' -> sc st' s = sc st s.
Proof. exact chain_frame. Qed.
Print Assumptions C04_formulas_frame.

(* a lone `if (f) body` *)
Theorem C04_single_if_with_formula :
  forall nm ft env f c body aid caller fs,
    single_if_code nm c body aid = (caller, fs) -> installed ft fs -> lowers nm f c ->
    forall st, exists stb, same_but_logic nm st stb /\
      forall st', runs ft env caller st st' <-> if eval st f then runs ft env body stb st' else st' = stb.
Proof. exact single_if_with_formula. Qed.
Print Assumptions C04_single_if_with_formula.

(* C04_exactly_one with formulas: bodies = abstract sub-programs (arbitrary on scores — including
   `__logic__N`, `__if_else__` and the variables the formulas read — and storage): the emitted chain
   followed by the next statement always terminates, in a unique state, and the trace grows by the
   events of the body of the first true formula, once, then `after`, once. *)
Theorem C04_formulas_exactly_one :
  forall nm ft env,
    (forall n st, tr (env n st) = tr st) ->
    forall first rest last caller fs forms after,
      chain_code nm first rest last = (caller, fs) -> installed ft fs ->
      Forall2 (fun cb f => lowers nm f (fst cb)) (chain_branches first rest last) forms ->
      Forall (fun cb => all_ext (snd cb) = true) (chain_branches first rest last) ->
      match last_else last with Some b => all_ext b = true | None => True end ->
      forall st,
        let o := select (set_sc st (flag nm) 0) forms (is_some (last_else last)) in
        exists st',
          runs ft env (caller ++ [CExt after]) st st' /\
          (forall st2, runs ft env (caller ++ [CExt after]) st st2 -> st2 = st') /\
          tr st' = EExt after ::
                   rev (map EExt (ext_ids (sel_body (chain_branches first rest last) (last_else last) o))) ++ tr st.
Proof. exact formulas_exactly_one. Qed.
Print Assumptions C04_formulas_exactly_one.

(* Non-vacuity:  if ($x == 1) {X0} else if ($y) {X1} else if ($a || ($b && ($c || $d))) {X2; X3}
   (no else: the last else-if is unwrapped and, having `||` helpers, gets a function of its own).
   The conditions are computed by cond_of_formula; the hypotheses hold; from x=0, y unset, a=0, b=1,
   c=0, d=5 with STALE scratch (`__logic__0` = `__logic__1` = `__if_else__` = 1) the choice is the
   third branch and the emitted code's trace is the theorem's right-hand side; with d=0 nothing runs. *)
Definition fx_nm := default_names.
Definition fx_v (s : string) : score := (s, "__variable__"%string).
Definition fx_t (s : string) : Model.Cond.formula := Model.Cond.Leaf (Model.Cond.ATruthy (fx_v s)).
Definition fx_f0 : Model.Cond.formula :=
  Model.Cond.Leaf (Model.Cond.ACmp (fx_v "$x") Model.Cond.SEq2 (Model.Cond.RLit 1)).
Definition fx_f1 : Model.Cond.formula := fx_t "$y".
Definition fx_f2 : Model.Cond.formula :=
  Model.Cond.Or [fx_t "$a"; Model.Cond.And [fx_t "$b"; Model.Cond.Or [fx_t "$c"; fx_t "$d"]]].
Definition fx_cond (f : Model.Cond.formula) : cond :=
  match cond_of_formula fx_nm true f with Some c => c | None => mkCond [] [] end.
Definition fx_first := mkW (fx_cond fx_f0) [CExt 0] 0.
Definition fx_rest := [(mkW (fx_cond fx_f1) [CExt 1] 1, 4%nat)].
Definition fx_last := LElif (fx_cond fx_f2) [CExt 2; CExt 3] 2 3.
Definition fx_forms := [fx_f0; fx_f1; fx_f2].
Definition fx_code := chain_code fx_nm fx_first fx_rest fx_last.
Definition fx_ft (f : string) : option (list cmd) := lookup_fn (snd fx_code) f.
Definition fx_env (n : nat) (st : state) : state :=
  set_sc (set_sc st (fx_v "__logic__0") 1) (fx_v "$a") 1.   (* bodies clobber scratch and $a *)
Definition fx_st (d : Z) : state :=
  mkState (fun k => if score_eqb k (fx_v "$x") then Some 0%Z
                    else if score_eqb k (fx_v "$a") then Some 0%Z
                    else if score_eqb k (fx_v "$b") then Some 1%Z
                    else if score_eqb k (fx_v "$c") then Some 0%Z
                    else if score_eqb k (fx_v "$d") then Some d
                    else if score_eqb k (fx_v "__logic__0") then Some 1%Z
                    else if score_eqb k (fx_v "__logic__1") then Some 1%Z
                    else if score_eqb k (fx_v "__if_else__") then Some 1%Z
                    else None) (fun _ => None) [].
Definition fx_rhs (st : state) : list event :=
  EExt 9 :: rev (map EExt (ext_ids (sel_body (chain_branches fx_first fx_rest fx_last) (last_else fx_last)
                                             (select (set_sc st (flag fx_nm) 0) fx_forms (is_some (last_else fx_last))))))
         ++ tr st.

Example C04_formulas_nonvacuous :
  Forall2 (fun cb f => lowers fx_nm f (fst cb)) (chain_branches fx_first fx_rest fx_last) fx_forms /\
  installed fx_ft (snd fx_code) /\ length (c_pre (fx_cond fx_f2)) = 6%nat /\
  (forall n st, tr (fx_env n st) = tr st) /\
  select (set_sc (fx_st 5) (flag fx_nm) 0) fx_forms false = Took 2 /\
  option_map tr (exec_list fx_ft fx_env 12 (fst fx_code ++ [CExt 9]) (fx_st 5)) = Some (fx_rhs (fx_st 5)) /\
  fx_rhs (fx_st 5) = [EExt 9; EExt 3; EExt 2] /\
  select (set_sc (fx_st 0) (flag fx_nm) 0) fx_forms false = TookNone /\
  option_map tr (exec_list fx_ft fx_env 12 (fst fx_code ++ [CExt 9]) (fx_st 0)) = Some (fx_rhs (fx_st 0)) /\
  fx_rhs (fx_st 0) = [EExt 9].
Proof.
  assert (L : forall f, Proofs.CondFormula.formula_ok fx_nm f -> cond_of_formula fx_nm true f <> None ->
                        lowers fx_nm f (fx_cond f)).
  { intros f Ok N. split; [exact Ok|]. exists true. unfold fx_cond.
    destruct (cond_of_formula fx_nm true f); [reflexivity|congruence]. }
  split.
  { constructor; [|constructor; [|constructor; [|constructor]]]; cbn [fst src_of w_cond fx_first fx_rest fx_last];
      (apply L; [|vm_compute; discriminate]); (split; [reflexivity|]); cbn;
      repeat constructor; try (intros k E; discriminate E); vm_compute; discriminate. }
  split; [repeat constructor|]. split; [vm_compute; reflexivity|].
  split; [intros n st; reflexivity|].
  repeat split; vm_compute; reflexivity.
Qed.

(* ================= `return` inside a branch (fixes/C04-return-in-branch.patch) =================
   MC.Syntax / MC.Sem have no `return`: in the theorems above a line `return 1` is an opaque command
   (`COther`) that does nothing, so they describe bodies that run to their last line.  Proofs.IfElseReturn
   adds Minecraft's `return` — it leaves THE FUNCTION IT IS WRITTEN IN — as a conservative layer over
   MC.Sem (`rruns` on lists of `rline`s: commands, guarded calls of functions that may return, guarded
   `return …` / `return run <cmd>`).  `C04_rsem_conservative`: lines without them mean what MC.Sem says. *)
From JMCV Require Import Proofs.IfElseReturn.

Theorem C04_rsem_conservative :
  forall ft env rft l st st', rruns ft env rft (map RL l) st st' <-> runs ft env l st st'.
Proof. exact rruns_plain. Qed.
Print Assumptions C04_rsem_conservative.

(* The tree before the repair wrote a wrapped branch's body directly in the branch function, followed by
   the flag line.  REFUTED: a body `pre…; return;` ends without the flag line having run (the whole rest of
   the function is dead code) — so "a wrapped branch = its body, then flag := 1", on which
   C04_chain_runs_selected_branch rests, is false for bodies that return … *)
Theorem C04_return_in_branch_function_refuted :
  forall nm ft env rft pre post st st',
    rruns ft env rft (map RL pre ++ RRet [] None :: post ++ [RL (set_flag nm 1)]) st st' <-> runs ft env pre st st'.
Proof. exact unisolated_branch_function. Qed.
Print Assumptions C04_return_in_branch_function_refuted.

(* … and the chain then runs a SECOND part: for `if (c0) { pre…; return; } else <e>` lowered the old way,
   whenever c0 holds and `pre` leaves the flag alone, the caller runs `pre` AND THEN the else part e. *)
Theorem C04_return_runs_two_branches_refuted :
  forall nm ft env rft c0 f0 pre e,
    keeps_flag nm ft env c0 ->
    rft f0 = Some (map RL pre ++ [RRet [] None; RL (set_flag nm 1)]) ->
    forall st st1 st2 st',
      runs ft env (c_pre c0) (set_sc st (flag nm) 0) st1 -> tests_hold st1 (c_tests c0) = true ->
      runs ft env pre st1 st2 -> sc st2 (flag nm) = sc st1 (flag nm) ->
      steps ft env e st2 st' ->
      rruns ft env rft (caller2 nm c0 f0 e) st st'.
Proof. exact chain2_unisolated_runs_both. Qed.
Print Assumptions C04_return_runs_two_branches_refuted.

(* witness: `if ($a == 1) { X0; return; } else X1` from $a = 1 — the trace shows X0 and then X1 *)
Example C04_return_refuted_witness :
  exists st', rruns w_ft w_env w_rft (caller2 w_nm w_c0 w_f0 (CExt 1)) w_st st' /\ tr st' = [EExt 1; EExt 0].
Proof. exact witness_runs_both. Qed.
Print Assumptions C04_return_refuted_witness.

(* The repaired compiler (Model.Loop.isolate, part of compile_body and hence of the text the check compares)
   stores a body that can `return` in a function of its own; the branch function is `function <inner>` + the flag
   line.  FULL: for EVERY body — returning at any point, conditionally, through `return run`, from nested calls —
   the branch function means "the body, then flag := 1": the contract of Model.IfElse.wbr_fn. *)
Theorem C04_return_isolated_branch_function :
  forall nm ft env rft inner body st st',
    rft inner = Some body ->
    (rruns ft env rft [RCall [] inner; RL (set_flag nm 1)] st st' <->
     exists st1, rruns ft env rft body st st1 /\ st' = set_sc st1 (flag nm) 1).
Proof. exact isolated_branch_function. Qed.
Print Assumptions C04_return_isolated_branch_function.

(* … and the two-part chain runs exactly one part, for every body (any `rline` list) of the first branch:
   the caller terminates in st' iff, st1 being the state the test of c0 leaves, either c0 holds, the body takes
   st1 to st2 and st' = st2[flag := 1] — the else part does NOT run — or c0 fails and the else part takes st1 to st'. *)
Theorem C04_return_isolated_exactly_one :
  forall nm ft env rft c0 f0 g0 body0 e,
    keeps_flag nm ft env c0 ->
    rft f0 = Some [RCall [] g0; RL (set_flag nm 1)] -> rft g0 = Some body0 ->
    forall st st',
      rruns ft env rft (caller2 nm c0 f0 e) st st' <->
      exists st1, runs ft env (c_pre c0) (set_sc st (flag nm) 0) st1 /\
                  if tests_hold st1 (c_tests c0)
                  then exists st2, rruns ft env rft body0 st1 st2 /\ st' = set_sc st2 (flag nm) 1
                  else steps ft env e st1 st'.
Proof. exact chain2_isolated. Qed.
Print Assumptions C04_return_isolated_exactly_one.

(* the isolation is what compile_body does: a body one of whose lines contains the word `return` is replaced
   by the call of a freshly numbered function holding it (non-vacuity of the textual test) *)
Example C04_isolate_example :
  let nm := default_names in
  isolate nm [CSay "A"; COther "return 1"] alloc0 =
    ([call_func nm IF_ELSE 0], mkAlloc [(IF_ELSE, 1%nat)] [(priv_fn nm IF_ELSE 0, [CSay "A"; COther "return 1"])]) /\
  isolate nm [CExecute [MIf true (Matches ("$b", "__variable__") (Exact 1))] (COther "return run say x")] alloc0 =
    ([call_func nm IF_ELSE 0],
     mkAlloc [(IF_ELSE, 1%nat)]
             [(priv_fn nm IF_ELSE 0, [CExecute [MIf true (Matches ("$b", "__variable__") (Exact 1))] (COther "return run say x")])]) /\
  isolate nm [CSay "no returning here"; CSay "x"] alloc0 = ([CSay "no returning here"; CSay "x"], alloc0).
Proof. vm_compute. repeat split. Qed.
