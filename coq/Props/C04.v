(* Property C04 — if / else-if / else chains run exactly one branch, once.
   Only statements of theorems, closed by `exact`, and Print Assumptions.

   Model.IfElse is a port of Lexer.parse_if_else *with the repair*
   fixes/C04-last-elif-precommand.patch (on the pinned tree a chain without `else` whose last
   `else if` has a `||` condition left all but the first precommand line — and the guarded body —
   outside the __if_else__ guard, so two branches could run; the check demonstrates that on the
   real code when pointed at an unrepaired tree). *)
From Coq Require Import ZArith String List Bool.
From JMCV Require Import Base.Int32 Base.Dec MC.Syntax MC.Sem Model.Names Model.PrivAlloc Model.IfElse Model.Loop
     Proofs.IfElseBase Proofs.IfElse Proofs.IfElseTrace Proofs.LoopLink.
Import ListNotations.

(* Conventions.
   - A condition is ANY pair (precommand lines, execute guards); testing it = running the
     precommands and evaluating the guards in the state they leave (MC.Sem).  The only thing
     asked of it: its precommands do not write the score `__if_else__ <VAR>` (keeps_flag).
   - A body is ANY list of commands (in particular the lowered code of nested chains and
     loops; `CExt n` = an arbitrary state transformer, which may clobber __if_else__ and
     every variable the conditions read).
   - `runs ft env l st st'` : with enough fuel the lines l take st to st'.
   - `chain_sem` (Proofs.IfElse) is the source-level meaning: conditions tested in order, the
     first true one's body runs (`Took i`), else the else body (`TookElse`), else nothing
     (`TookNone`); bodies run from the state left by the tests. *)

(* Full strength.  For every chain with >= 2 parts (first branch, any number of further wrapped
   branches, and either an `else` body or — without else — a last `else if`), every numbering of the
   generated functions, every function table containing them, every env and every state:
   the emitted caller lines terminate in st' IF AND ONLY IF the source chain, started from st
   with the flag zeroed, selects an outcome o and its body terminates in st'', and st' is st''
   with the flag set to 1 when o is one of the wrapped branches.  Hence exactly the selected
   body runs, from exactly the state the tests left, once; nothing else runs. *)
Theorem C04_chain_runs_selected_branch :
  forall nm ft env first rest last caller fs,
    chain_code nm first rest last = (caller, fs) ->
    installed ft fs ->
    keeps_flag nm ft env (w_cond first) ->
    Forall (fun wr => keeps_flag nm ft env (w_cond (fst wr))) rest ->
    forall st st',
      runs ft env caller st st' <->
      exists o st'',
        chain_sem ft env (chain_branches first rest last) (last_else last)
                  (set_sc st (flag nm) 0) o st'' /\
        st' = finish nm (S (length rest)) o st''.
Proof. exact chain_correct. Qed.
Print Assumptions C04_chain_runs_selected_branch.

(* A lone `if` (no flag involved). *)
Theorem C04_single_if :
  forall nm ft env c body aid caller fs,
    single_if_code nm c body aid = (caller, fs) -> installed ft fs ->
    forall st st', runs ft env caller st st' <-> exists o, chain_sem ft env [(c, body)] None st o st'.
Proof. exact single_if_correct. Qed.
Print Assumptions C04_single_if.

(* The same in terms of the trace.  Bodies = lists of abstract sub-programs, conditions with
   precommands of the emitted shape (set / execute-if-set of a score other than the flag), env
   arbitrary on scores and storage: the emitted chain followed by the next statement `CExt after`
   always terminates, in a unique state; the trace grows by exactly the events of the body the
   source chain selects — each once — followed by `after` once. *)
Theorem C04_exactly_one :
  forall nm ft env,
    (forall n st, tr (env n st) = tr st) ->
    forall first rest last caller fs after,
      chain_code nm first rest last = (caller, fs) -> installed ft fs ->
      Forall (fun cb => simple_cond (flag nm) (fst cb) = true /\ all_ext (snd cb) = true)
             (chain_branches first rest last) ->
      match last_else last with Some b => all_ext b = true | None => True end ->
      forall st, exists o st'' st',
        chain_sem ft env (chain_branches first rest last) (last_else last) (set_sc st (flag nm) 0) o st'' /\
        runs ft env (caller ++ [CExt after]) st st' /\
        (forall st2, runs ft env (caller ++ [CExt after]) st st2 -> st2 = st') /\
        st' = log (env after (finish nm (S (length rest)) o st'')) (EExt after) /\
        tr st' = EExt after ::
                 rev (map EExt (ext_ids (sel_body (chain_branches first rest last) (last_else last) o))) ++ tr st.
Proof. exact exactly_one. Qed.
Print Assumptions C04_exactly_one.

(* At any nesting depth.  Model.Loop.compile_body lowers a whole function body — a tree of basic
   commands, chains and while / do-while / for loops nested without bound — numbering and
   storing the private functions as DataPack does.  For every such tree the lowering accepts:
   the stored functions have pairwise distinct names (none replaces another), and with ANY
   function table containing them the emitted lines terminate in st' iff the source meaning
   `sem_stmts` of the tree (Proofs.LoopLink: basic command = its Minecraft meaning; chain =
   first true condition in source order / else / nothing, with the flag zeroed before and set
   after a wrapped branch; loops = the JavaScript unfolding) relates st to st'.
   Hypothesis: testing a chain condition does not write __if_else__ (keeps_stmts). *)
Theorem C04_any_nesting_depth :
  forall nm ft env prog lines fs,
    compile_body nm prog = Some (lines, fs) ->
    NoDup (map fst fs) /\
    (installed ft fs -> keeps_stmts nm ft env prog ->
     forall st st', runs ft env lines st st' <-> sem_stmts nm ft env prog st st').
Proof. exact compile_body_correct. Qed.
Print Assumptions C04_any_nesting_depth.

(* Non-vacuity: `if (a==1) {X0} else if (b==1 || c==1) {X1; X2}` (no else; the shape that was
   defective) with both conditions true and a body X0 that clobbers the flag and b:
   the hypotheses hold for the generated function table, and the run shows X0 then `after`. *)
Definition ex_nm := default_names.
Definition ex_v (s : string) : score := (s, "__variable__"%string).
Definition ex_lg := ex_v "__logic__0".
Definition ex_c0 := mkCond [] [(true, Matches (ex_v "$a") (Exact 1))].
Definition ex_c1 := mkCond
  [CSet ex_lg 0;
   CExecute (mods_of [(true, Matches (ex_v "$b") (Exact 1))]) (CSet ex_lg 1);
   CExecute (mods_of [(false, Matches ex_lg (Exact 1)); (true, Matches (ex_v "$c") (Exact 1))]) (CSet ex_lg 1)]
  [(true, Matches ex_lg (Exact 1))].
Definition ex_first := mkW ex_c0 [CExt 0] 0.
Definition ex_last := LElif ex_c1 [CExt 1; CExt 2] 1 2.
Definition ex_code := chain_code ex_nm ex_first [] ex_last.
Definition ex_ft (f : string) : option (list cmd) := lookup_fn (snd ex_code) f.
Definition ex_env (n : nat) (st : state) : state :=
  match n with
  | O => set_sc (set_sc st (flag ex_nm) 0) (ex_v "$b") 1     (* X0 clobbers the flag and sets b *)
  | _ => st
  end.
Definition ex_st : state :=
  mkState (fun k => if score_eqb k (ex_v "$a") then Some 1%Z
                    else if score_eqb k (ex_v "$b") then Some 1%Z else None) (fun _ => None) [].

Example C04_nonvacuous :
  installed ex_ft (snd ex_code) /\
  Forall (fun cb => simple_cond (flag ex_nm) (fst cb) = true /\ all_ext (snd cb) = true)
         (chain_branches ex_first [] ex_last) /\
  (forall n st, tr (ex_env n st) = tr st) /\
  option_map tr (exec_list ex_ft ex_env 10 (fst ex_code ++ [CExt 9]) ex_st) = Some [EExt 9; EExt 0].
Proof.
  split; [|split; [|split]].
  - repeat constructor.
  - repeat constructor.
  - intros [|n] st; reflexivity.
  - vm_compute. reflexivity.
Qed.

(* What was wrong on the pinned tree (documentation; the check demonstrates it on the real code when
   pointed at an unrepaired tree).  `pinned_two_branch_noelse` is the unrepaired text for
   `if (a==1) {X0} else if (b==1 || c==1) {X1}`: from a state with a = b = 1 BOTH bodies run. *)
Theorem C04_pinned_lowering_refuted :
  exists nm first c body aid ft env st st',
    let code := pinned_two_branch_noelse nm first c body aid in
    installed ft (snd code) /\
    exec_list ft env 10 (fst code) st = Some st' /\
    tr st' = [EExt 1; EExt 0].
Proof.
  exists ex_nm, ex_first, ex_c1, [CExt 1], 1%nat.
  exists (fun f => lookup_fn (snd (pinned_two_branch_noelse ex_nm ex_first ex_c1 [CExt 1] 1)) f), (fun _ st => st), ex_st.
  eexists. split; [repeat constructor|]. split; vm_compute; reflexivity.
Qed.
Print Assumptions C04_pinned_lowering_refuted.
