(* C11 — Output tree is always the fresh build, also after failed or killed builds.
   Model: Model/FS.v, Model/Build.v (same as C10).  The theorems are about the REPAIRED behaviour [fixed]
   (fixes/C11-namespace-deleted-last.patch + the C10 patches); `C11_refuted_crash_between_rmtrees_pinned` shows the
   crash window of the unchanged tree.  Files are compared ([file_at]); empty directories the #static-aware rmtree
   leaves behind are not.
   Vocabulary:  [inside c h p]   p lies strictly inside data/<ns>, data/<override> or data/minecraft;
                [excepted h p]   p lies in a #static folder;
                [clean c h t]    no namespace folder and no file inside those folders, #static content apart;
                [built c t]      namespace folder with jmc.txt;   [startable] = built or clean;
                [ready]          namespace folder exists, or clean;
                [crash_trace]    a prefix of the plan, last write possibly torn (Proofs/BuildC10.v).
   Outside the model's reach (see reports/C11.md): the compiler front end is the same function of the sources in both
   runs only if jmc.txt is intact — a torn write INTO jmc.txt can change the internal names the re-run compiles with
   (known finding C11-torn-cert); files an earlier build put outside these folders (a dropped #override namespace,
   #copy destinations) are by C10 not JMC's to delete. *)
From Coq Require Import String List Bool.
From JMCV Require Import Model.FS Model.Build Proofs.FS Proofs.Build Proofs.BuildC10 Proofs.BuildC11.
Import ListNotations.

(* After a successful compile the output is what the same project gives from ANY other startable tree with the same
   #static content: nothing of an earlier build survives inside the deleted folders, and every file the build writes
   (pack.mcmeta, #copy destinations included) is the same. *)
Theorem C11_fresh : forall c h o s1 s2 pl1 pl2 s1' s2',
  startable c h s1 -> startable c h s2 ->
  (forall p, excepted h p = true -> file_at s1 p = file_at s2 p) ->
  run fixed c h (Success o) None s1 = (pl1, RDone) -> exec pl1 s1 = Some s1' ->
  run fixed c h (Success o) None s2 = (pl2, RDone) -> exec pl2 s2 = Some s2' ->
  forall p, inside c h p = true \/ In p (map op_path (filter creates pl1)) ->
  file_at s1' p = file_at s2' p.
Proof. exact fresh. Qed.
Print Assumptions C11_fresh.

(* ... in particular what compiling into an empty directory produces *)
Theorem C11_fresh_empty : forall c h o s pl s' ple e',
  startable c h s -> (forall p, excepted h p = true -> file_at s p = None) ->
  run fixed c h (Success o) None s = (pl, RDone) -> exec pl s = Some s' ->
  run fixed c h (Success o) None empty_out = (ple, RDone) -> exec ple empty_out = Some e' ->
  forall p, inside c h p = true \/ In p (map op_path (filter creates pl)) -> file_at s' p = file_at e' p.
Proof. exact fresh_empty. Qed.
Print Assumptions C11_fresh_empty.

(* compiling twice changes nothing *)
Theorem C11_twice : forall c h o s pl s' pl' s'',
  startable c h s -> static_safe c h o = true ->
  run fixed c h (Success o) None s = (pl, RDone) -> exec pl s = Some s' ->
  run fixed c h (Success o) None s' = (pl', RDone) -> exec pl' s' = Some s'' ->
  forall p, inside c h p = true \/ In p (map op_path (filter creates pl')) ->
  file_at s'' p = file_at s' p.
Proof. exact twice. Qed.
Print Assumptions C11_twice.

(* Kill the build at ANY mutation (also with an injected deletion failure, also with the last write torn) and run it
   again: #static content is untouched, and the re-run either is refused without modifying anything, or gives the
   fresh tree in the sense of C11_fresh. *)
Theorem C11_crash_recover : forall c h o fault s ops k,
  c_ns c <> "minecraft"%string -> ready c h s -> static_safe c h o = true ->
  crash_trace (plan fixed c h (Success o) fault s) ops -> exec ops s = Some k ->
  (forall p, excepted h p = true -> file_at k p = file_at s p) /\
  ( run fixed c h (Success o) None k = ([], RRefused)
    \/ forall pl k' s2 pl2 s2',
         run fixed c h (Success o) None k = (pl, RDone) -> exec pl k = Some k' ->
         startable c h s2 -> (forall p, excepted h p = true -> file_at s p = file_at s2 p) ->
         run fixed c h (Success o) None s2 = (pl2, RDone) -> exec pl2 s2 = Some s2' ->
         forall p, inside c h p = true \/ In p (map op_path (filter creates pl)) -> file_at k' p = file_at s2' p ).
Proof. exact crash_recover. Qed.
Print Assumptions C11_crash_recover.

(* "after any sequence of earlier successful, failed or interrupted builds": from a tree without JMC-owned files,
   every history of build attempts (any outcome, any injected failure, complete or killed anywhere) of projects that
   share namespace, override namespaces and #static folders ends in a [ready] tree — the hypothesis of
   C11_crash_recover, and (when the namespace folder has its jmc.txt, or is absent) of C11_fresh. *)
Theorem C11_history_ready : forall c h s0 s,
  c_ns c <> "minecraft"%string -> clean c h s0 -> hist c h s0 s -> ready c h s.
Proof. exact history_ready. Qed.
Print Assumptions C11_history_ready.

(* pinned: build A (tick function), then build B (no tick function) killed after the namespace rmtree (4 mutations)
   and before rmtree(data/minecraft); the re-run completes, yet tick.json naming ns:__tick__ survives, while the
   fresh build of B has no tick.json. *)
Theorem C11_refuted_crash_between_rmtrees_pinned :
  exists j k k' fresh',
    exec (firstn j (plan pinned x_cfg x_hdr (Success x_B) None x_after_A)) x_after_A = Some k /\
    run pinned x_cfg x_hdr (Success x_B) None k = (plan pinned x_cfg x_hdr (Success x_B) None k, RDone) /\
    exec (plan pinned x_cfg x_hdr (Success x_B) None k) k = Some k' /\
    exec (plan pinned x_cfg x_hdr (Success x_B) None x_empty) x_empty = Some fresh' /\
    file_at fresh' (tick_path x_cfg) = None /\
    file_at k' (tick_path x_cfg) = Some (Tag ["ns:__tick__"%string]).
Proof. exact crash_between_rmtrees_refuted_pinned. Qed.
Print Assumptions C11_refuted_crash_between_rmtrees_pinned.

(* non-vacuity: the same history under the repaired model — killed when every deletion is done and nothing is
   written yet (clean tree, no namespace folder) — recovers to the fresh tree *)
Example C11_crash_recovered_fixed :
    exec (firstn 9 (plan fixed x_cfg x_hdr (Success x_B) None y_after_A)) y_after_A = Some y_k /\
    is_dir y_k (ns_dir x_cfg) = false /\
    exec (plan fixed x_cfg x_hdr (Success x_B) None y_k) y_k = Some y_k' /\
    exec (plan fixed x_cfg x_hdr (Success x_B) None x_empty) x_empty = Some y_fresh /\
    file_at y_k' (tick_path x_cfg) = None /\ file_at y_fresh (tick_path x_cfg) = None /\
    file_at y_k' ["."; "data"; "ns"; "function"; "g.mcfunction"]%string = Some (Raw "say g").
Proof. exact crash_recovered_fixed. Qed.
Print Assumptions C11_crash_recovered_fixed.
