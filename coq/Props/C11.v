(* C11 — Output tree is always the fresh build, also after failed or killed builds.
   Model: Model/FS.v, Model/Build.v (same as C10).  The theorems are about the REPAIRED behaviour: every [sound]
   variant, i.e. [fixed] (fixes/C11-namespace-deleted-last.patch + the first C10 patches) and [hardened] (in addition
   fixes/C10-function-tags-read-first.patch and fixes/C11-atomic-cert.patch, which the certificate clause of
   C11_crash_recover needs); `C11_refuted_crash_between_rmtrees_pinned` shows the crash window of the original tree,
   `C11_torn_cert_refuted_fixed` the torn certificate of [fixed].  Files are compared ([file_at]); empty directories the #static-aware rmtree
   leaves behind are not.
   Vocabulary:  [inside c h p]   p lies strictly inside data/<ns>, data/<override> or data/minecraft;
                [excepted h p]   p lies in a #static folder;
                [clean c h t]    no namespace folder and no file inside those folders, #static content apart;
                [built c t]      namespace folder with jmc.txt;   [startable] = built or clean;
                [ready]          namespace folder exists, or clean;
                [crash_trace]    a prefix of the plan, last write possibly torn (Proofs/BuildC10.v); os.replace is listed
                                 as its two halves (Model/FS.v rename_ops), so the prefixes are a superset of the real
                                 crash states;
                [cert_exclusive] neither #copy nor an emitted file lands on jmc.txt.
   The compiler front end is the same function of the sources in both runs only if the jmc.txt it reads is intact: that
   is the last clause of C11_crash_recover (true for [v_cert_atomic]; for [fixed] a torn write INTO jmc.txt changes the
   internal names the re-run compiles with — known finding C11-torn-cert until fixes/C11-atomic-cert.patch is committed).
   Outside the theorems' reach: files an earlier build put outside the folders of the current one (a dropped #override /
   #link namespace: C11_dropped_override_refuted, known finding; #copy destinations; pack.mcmeta under #nometa) are by C10
   not JMC's to delete.  A generated file inside a #static folder is #static content from then on (C11_fresh equates it in
   both trees) - except that the function tags are files JMC edits in place: C11_tick_tag_no_stale_entry
   ([v_tick_refresh], fixes/C11-stale-own-tick-entry.patch) / C11_stale_tick_refuted_hardened.
   [guarded] = [hardened] + the three patches of reports/C10C11-triage.md; [run] = [run_core] behind [gate] (Model/Build.v). *)
From Coq Require Import String List Bool.
From JMCV Require Import Model.FS Model.Build Proofs.FS Proofs.Build Proofs.BuildC10 Proofs.BuildC11 Proofs.BuildGate Proofs.BuildTick
  Proofs.BuildCopy Model.BuildPath Proofs.BuildPath Proofs.BuildOutSpelling.
Import ListNotations.

(* After a successful compile the output is what the same project gives from ANY other startable tree with the same
   #static content: nothing of an earlier build survives inside the deleted folders, and every file the build writes
   (pack.mcmeta, #copy destinations included) is the same. *)
Theorem C11_fresh : forall v c h o s1 s2 pl1 pl2 s1' s2',
  sound v ->
  startable c h s1 -> startable c h s2 ->
  (forall p, excepted h p = true -> file_at s1 p = file_at s2 p) ->
  run v c h (Success o) None s1 = (pl1, RDone) -> exec pl1 s1 = Some s1' ->
  run v c h (Success o) None s2 = (pl2, RDone) -> exec pl2 s2 = Some s2' ->
  forall p, inside c h p = true \/ In p (map op_path (filter creates pl1)) ->
  file_at s1' p = file_at s2' p.
Proof. exact g_fresh. Qed.
Print Assumptions C11_fresh.

(* ... in particular what compiling into an empty directory produces *)
Theorem C11_fresh_empty : forall v c h o s pl s' ple e',
  sound v ->
  startable c h s -> (forall p, excepted h p = true -> file_at s p = None) ->
  run v c h (Success o) None s = (pl, RDone) -> exec pl s = Some s' ->
  run v c h (Success o) None empty_out = (ple, RDone) -> exec ple empty_out = Some e' ->
  forall p, inside c h p = true \/ In p (map op_path (filter creates pl)) -> file_at s' p = file_at e' p.
Proof. exact g_fresh_empty. Qed.
Print Assumptions C11_fresh_empty.

(* compiling twice changes nothing *)
Theorem C11_twice : forall v c h o s pl s' pl' s'',
  sound v ->
  startable c h s -> static_safe c h o = true ->
  run v c h (Success o) None s = (pl, RDone) -> exec pl s = Some s' ->
  run v c h (Success o) None s' = (pl', RDone) -> exec pl' s' = Some s'' ->
  forall p, inside c h p = true \/ In p (map op_path (filter creates pl')) ->
  file_at s'' p = file_at s' p.
Proof. exact g_twice. Qed.
Print Assumptions C11_twice.

(* Kill the build at ANY mutation (also with an injected deletion failure, also with the last write torn) and run it
   again: #static content is untouched, and the re-run either is refused without modifying anything, or gives the
   fresh tree in the sense of C11_fresh.  Torn certificates: when jmc.txt is written through jmc.txt.tmp + os.replace
   ([v_cert_atomic]), the jmc.txt the re-run reads its internal names from is absent, the one the killed build read,
   or the complete one it wrote — never a truncated text — so the re-run is indeed the same [c], [o]. *)
Theorem C11_crash_recover : forall v c h o fault s ops k,
  sound v ->
  c_ns c <> "minecraft"%string -> ready c h s -> static_safe c h o = true ->
  crash_trace (plan v c h (Success o) fault s) ops -> exec ops s = Some k ->
  (forall p, excepted h p = true -> file_at k p = file_at s p) /\
  ( run v c h (Success o) None k = ([], RRefused)
    \/ forall pl k' s2 pl2 s2',
         run v c h (Success o) None k = (pl, RDone) -> exec pl k = Some k' ->
         startable c h s2 -> (forall p, excepted h p = true -> file_at s p = file_at s2 p) ->
         run v c h (Success o) None s2 = (pl2, RDone) -> exec pl2 s2 = Some s2' ->
         forall p, inside c h p = true \/ In p (map op_path (filter creates pl)) -> file_at k' p = file_at s2' p ) /\
  ( v_cert_atomic v = true -> cert_exclusive c h (Success o) = true ->
    file_at k (cert_path c) = file_at s (cert_path c) \/ file_at k (cert_path c) = None \/
    file_at k (cert_path c) = Some (Raw (c_cert c)) ).
Proof. exact g_crash_recover_cert. Qed.
Print Assumptions C11_crash_recover.

(* the certificate clause alone holds for every outcome of the front end and needs nothing but [v_cert_atomic] *)
Theorem C11_crash_cert_whole : forall v c h out fault s ops k,
  v_cert_atomic v = true -> cert_exclusive c h out = true ->
  crash_trace (plan v c h out fault s) ops -> exec ops s = Some k ->
  file_at k (cert_path c) = file_at s (cert_path c) \/ file_at k (cert_path c) = None \/
  file_at k (cert_path c) = Some (Raw (c_cert c)).
Proof. exact g_crash_cert_whole. Qed.
Print Assumptions C11_crash_cert_whole.

(* [fixed] (jmc.txt written in place; known finding C11-torn-cert while fixes/C11-atomic-cert.patch is not committed):
   killed inside the write, jmc.txt holds a truncated text (PRIVATE=__priv) *)
Theorem C11_torn_cert_refuted_fixed :
  exists ops k, crash_trace (plan fixed z_cfg x_hdr (Success x_B) None x_empty) ops /\
    exec ops x_empty = Some k /\ cert_exclusive z_cfg x_hdr (Success x_B) = true /\
    file_at k (cert_path z_cfg) = Some (Raw "LOAD=__load__
PRIVATE=__priv"%string).
Proof. exact g_torn_cert_refuted_fixed. Qed.
Print Assumptions C11_torn_cert_refuted_fixed.

(* ... the same kill under [hardened] tears jmc.txt.tmp: jmc.txt does not exist yet and the re-run is refused *)
Example C11_torn_tmp_hardened :
  exists ops k, crash_trace (plan hardened z_cfg x_hdr (Success x_B) None x_empty) ops /\
    exec ops x_empty = Some k /\
    file_at k (cert_tmp z_cfg) = Some (Raw "LOAD=__load__
PRIVATE=__priv"%string) /\ file_at k (cert_path z_cfg) = None /\
    run hardened z_cfg x_hdr (Success x_B) None k = ([], RRefused).
Proof. exact g_torn_tmp_hardened. Qed.
Print Assumptions C11_torn_tmp_hardened.

(* "after any sequence of earlier successful, failed or interrupted builds": from a tree without JMC-owned files,
   every history of build attempts (any outcome, any injected failure, complete or killed anywhere) of projects that
   share namespace, override namespaces and #static folders ends in a [ready] tree — the hypothesis of
   C11_crash_recover, and (when the namespace folder has its jmc.txt, or is absent) of C11_fresh. *)
Theorem C11_history_ready : forall v c h s0 s,
  sound v -> c_ns c <> "minecraft"%string -> clean c h s0 -> ghist v c h s0 s -> ready c h s.
Proof. exact g_history_ready. Qed.
Print Assumptions C11_history_ready.

(* pinned: build A (tick function), then build B (no tick function) killed after the namespace rmtree (4 mutations)
   and before rmtree(data/minecraft); the re-run completes, yet tick.json naming ns:__tick__ survives, while the
   fresh build of B has no tick.json. *)
Theorem C11_refuted_crash_between_rmtrees_pinned :
  exists j k k' fresh',
    exec (firstn j (plan pinned x_cfg x_hdr (Success x_B) None x_after_A)) x_after_A = Some k /\
    run pinned x_cfg x_hdr (Success x_B) None k = (plan pinned x_cfg x_hdr (Success x_B) None k, RDone) /\
    exec (plan pinned x_cfg x_hdr (Success x_B) None k) k = Some k' /\
    exec (plan pinned x_cfg x_hdr (Success x_B) None x_empty) x_empty = Some fresh' /\
    file_at fresh' (tick_path x_cfg) = None /\
    file_at k' (tick_path x_cfg) = Some (Tag ["ns:__tick__"%string]).
Proof. exact g_crash_between_rmtrees_refuted_pinned. Qed.
Print Assumptions C11_refuted_crash_between_rmtrees_pinned.

(* non-vacuity: the same history under the repaired model — killed when every deletion is done and nothing is
   written yet (clean tree, no namespace folder) — recovers to the fresh tree *)
Example C11_crash_recovered_fixed :
    exec (firstn 9 (plan fixed x_cfg x_hdr (Success x_B) None y_after_A)) y_after_A = Some y_k /\
    is_dir y_k (ns_dir x_cfg) = false /\
    exec (plan fixed x_cfg x_hdr (Success x_B) None y_k) y_k = Some y_k' /\
    exec (plan fixed x_cfg x_hdr (Success x_B) None x_empty) x_empty = Some y_fresh /\
    file_at y_k' (tick_path x_cfg) = None /\ file_at y_fresh (tick_path x_cfg) = None /\
    file_at y_k' ["."; "data"; "ns"; "function"; "g.mcfunction"]%string = Some (Raw "say g").
Proof. exact g_crash_recovered_fixed. Qed.
Print Assumptions C11_crash_recovered_fixed.

(* What an earlier build leaves OUTSIDE the folders of the current one.  Build A declares `#override foo` and emits foo.h,
   build B drops the directive: data/foo is not a folder of B ([inside] false), so B does not delete it (C10 forbids it),
   A's file survives and the fresh build of B does not have it.  JMC keeps no record of the namespaces an earlier build
   overrode or linked - known finding C11-dropped-override-left-behind (no small safe repair: deleting a folder the
   current header does not declare is a territory violation). *)
Theorem C11_dropped_override_refuted :
  exec (plan guarded x_cfg d_hdrA (Success d_A) None x_empty) x_empty = Some d_after_A /\
  run guarded x_cfg x_hdr (Success x_B) None d_after_A = (plan guarded x_cfg x_hdr (Success x_B) None d_after_A, RDone) /\
  exec (plan guarded x_cfg x_hdr (Success x_B) None d_after_A) d_after_A = Some d_after_B /\
  exec (plan guarded x_cfg x_hdr (Success x_B) None x_empty) x_empty = Some d_fresh /\
  file_at d_after_B ["."; "data"; "foo"; "function"; "h.mcfunction"]%string = Some (Raw "say h") /\
  file_at d_fresh ["."; "data"; "foo"; "function"; "h.mcfunction"]%string = None /\
  inside x_cfg x_hdr ["."; "data"; "foo"; "function"; "h.mcfunction"]%string = false.
Proof. exact dropped_override_refuted. Qed.
Print Assumptions C11_dropped_override_refuted.

(* A tick.json shielded by a #static folder (`#static "../minecraft"`, `#static "../minecraft/tags/function"`).  Build A
   has a tick function, the user then declares the folder static, build B has no tick function.  [hardened]: tick.json keeps
   naming ns:__tick__ (Minecraft drops a function tag that names a missing function).  C11_fresh does not see it - the file
   is part of the #static content its hypothesis equates - so the defect is stated here ... *)
Theorem C11_stale_tick_refuted_hardened :
  exec (plan hardened x_cfg t_hdr (Success x_B) None (t_after_A hardened)) (t_after_A hardened) = Some (t_after_B hardened) /\
  snd (run hardened x_cfg t_hdr (Success x_B) None (t_after_A hardened)) = RDone /\
  file_at (t_after_B hardened) (tick_path x_cfg) = Some (Tag ["ns:__tick__"%string]).
Proof. exact stale_tick_refuted_hardened. Qed.
Print Assumptions C11_stale_tick_refuted_hardened.

(* General form of the repair: with [v_tick_refresh], after ANY successful build of a project without tick function - from
   any initial tree, with any #static / #copy / #override / #link, old output deleted or not - the tick tag, if the file is
   there at all, names no function of this pack.  (Hypothesis: no emitted function / JSON file is the tick tag itself, as
   `new tags.function(minecraft.tick)` under `#override minecraft` would be.) *)
Theorem C11_tick_tag_no_stale_entry : forall v c h o s pl s' vs e,
  v_tick_refresh v = true -> o_tick o = false ->
  (forall q, In q (map fst (out_files c h o)) -> q <> tick_path c) ->
  run v c h (Success o) None s = (pl, RDone) -> exec pl s = Some s' ->
  file_at s' (tick_path c) = Some (Tag vs) -> In e vs -> own_entry c e = false.
Proof. exact tick_no_stale_own. Qed.
Print Assumptions C11_tick_tag_no_stale_entry.

(* ... and repaired by [v_tick_refresh] (fixes/C11-stale-own-tick-entry.patch): the same history under [guarded] *)
Example C11_stale_tick_refreshed_guarded :
  exec (plan guarded x_cfg t_hdr (Success x_B) None (t_after_A guarded)) (t_after_A guarded) = Some (t_after_B guarded) /\
  snd (run guarded x_cfg t_hdr (Success x_B) None (t_after_A guarded)) = RDone /\
  file_at (t_after_B guarded) (tick_path x_cfg) = Some (Tag []) /\
  file_at (t_after_B guarded) (load_path x_cfg) = Some (Tag ["ns:__load__"%string]).
Proof. exact stale_tick_refreshed_guarded. Qed.
Print Assumptions C11_stale_tick_refreshed_guarded.

(* ---- Strengthening round 4: `#copy` and the function tags (Proofs/BuildCopy.v).
   compiling.py merged_func_tag ([Build.early_tag]) decides, BEFORE the first mutation, which tag file the build adds its
   own entry to: the one the #copy folder ships; else nothing, when the old output is deleted ([is_delete] = the namespace
   folder exists) and no #static shields the file; else the file in the tree.  After every successful build the tag file is
   exactly that merge - for the first build into a fresh directory and for every rebuild alike. *)
Theorem C11_function_tags_merged : forall v c h o s pl s',
  v_tags_early v = true -> v_cert_early v = false ->
  run v c h (Success o) None s = (pl, RDone) -> exec pl s = Some s' ->
  exists lv tv,
    early_tag c h (is_dir s (ns_dir c)) s (load_path c) = Some lv /\
    early_tag c h (is_dir s (ns_dir c)) s (tick_path c) = Some tv /\
    ((forall q, In q (map fst (out_files c h o)) -> q <> load_path c) ->
     file_at s' (load_path c) = Some (Tag (lv ++ [own_load c]))) /\
    (o_tick o = true -> (forall q, In q (map fst (out_files c h o)) -> q <> tick_path c) ->
     file_at s' (tick_path c) = Some (Tag (tv ++ [own_tick c]))).
Proof. exact tags_merged. Qed.
Print Assumptions C11_function_tags_merged.

(* The load.json the #copy folder ships (`{"values": ["lib:init"]}`): from ANY tree - no hypothesis on it at all - the output
   holds its foreign entries followed by this pack's load function ... *)
Theorem C11_copied_tag_entries_kept : forall v c h o s pl s' vs,
  v_tags_early v = true -> v_cert_early v = false ->
  copy_file h (load_path c) = Some (Tag vs) ->
  (forall q, In q (map fst (out_files c h o)) -> q <> load_path c) ->
  run v c h (Success o) None s = (pl, RDone) -> exec pl s = Some s' ->
  file_at s' (load_path c) = Some (Tag (foreign c vs ++ [own_load c])).
Proof. exact copied_load_tag_merged. Qed.
Print Assumptions C11_copied_tag_entries_kept.

Theorem C11_copied_tick_entries_kept : forall v c h o s pl s' vs,
  v_tags_early v = true -> v_cert_early v = false -> o_tick o = true ->
  copy_file h (tick_path c) = Some (Tag vs) ->
  (forall q, In q (map fst (out_files c h o)) -> q <> tick_path c) ->
  run v c h (Success o) None s = (pl, RDone) -> exec pl s = Some s' ->
  file_at s' (tick_path c) = Some (Tag (foreign c vs ++ [own_tick c])).
Proof. exact copied_tick_tag_merged. Qed.
Print Assumptions C11_copied_tick_entries_kept.

(* ... so every rebuild gives the tag of the first build *)
Theorem C11_copied_tags_rebuild_is_first_build : forall v c h o s1 s2 pl1 pl2 s1' s2' vs,
  v_tags_early v = true -> v_cert_early v = false ->
  copy_file h (load_path c) = Some (Tag vs) ->
  (forall q, In q (map fst (out_files c h o)) -> q <> load_path c) ->
  run v c h (Success o) None s1 = (pl1, RDone) -> exec pl1 s1 = Some s1' ->
  run v c h (Success o) None s2 = (pl2, RDone) -> exec pl2 s2 = Some s2' ->
  file_at s1' (load_path c) = file_at s2' (load_path c).
Proof. exact copied_tags_same_from_any_tree. Qed.
Print Assumptions C11_copied_tags_rebuild_is_first_build.

(* a tag file inside a #static folder (not replaced by #copy) keeps its foreign entries through every rebuild ... *)
Theorem C11_shielded_tag_entries_kept : forall v c h o s pl s' vs,
  v_tags_early v = true -> v_cert_early v = false ->
  copy_file h (load_path c) = None -> excepted h (load_path c) = true ->
  file_at s (load_path c) = Some (Tag vs) ->
  (forall q, In q (map fst (out_files c h o)) -> q <> load_path c) ->
  run v c h (Success o) None s = (pl, RDone) -> exec pl s = Some s' ->
  file_at s' (load_path c) = Some (Tag (foreign c vs ++ [own_load c])).
Proof. exact shielded_load_tag_merged. Qed.
Print Assumptions C11_shielded_tag_entries_kept.

(* ... and one that is neither shipped nor shielded contributes nothing to a rebuild: the tag is the fresh one *)
Theorem C11_unshielded_tag_fresh : forall v c h o s pl s',
  v_tags_early v = true -> v_cert_early v = false ->
  copy_file h (load_path c) = None -> excepted h (load_path c) = false -> is_dir s (ns_dir c) = true ->
  (forall q, In q (map fst (out_files c h o)) -> q <> load_path c) ->
  run v c h (Success o) None s = (pl, RDone) -> exec pl s = Some s' ->
  file_at s' (load_path c) = Some (Tag [own_load c]).
Proof. exact unshielded_load_tag_fresh. Qed.
Print Assumptions C11_unshielded_tag_fresh.

(* non-vacuity: #copy ships load.json = ["lib:init"; "ns:stale"]; the build into an empty directory and the rebuild over its
   own output both give ["lib:init"; "ns:__load__"] *)
Example C11_copied_tag_build_rebuild :
  exists s1 s2, exec (plan guarded q_cfg q_hdr (Success q_out) None q_empty) q_empty = Some s1 /\
    snd (run guarded q_cfg q_hdr (Success q_out) None q_empty) = RDone /\
    exec (plan guarded q_cfg q_hdr (Success q_out) None s1) s1 = Some s2 /\
    snd (run guarded q_cfg q_hdr (Success q_out) None s1) = RDone /\
    is_dir s1 (ns_dir q_cfg) = true /\
    file_at s1 (load_path q_cfg) = Some (Tag ["lib:init"; "ns:__load__"]%string) /\
    file_at s2 (load_path q_cfg) = Some (Tag ["lib:init"; "ns:__load__"]%string).
Proof. exact q_build_rebuild. Qed.
Print Assumptions C11_copied_tag_build_rebuild.

(* (round 5) the way the output directory is REACHED - through a symbolic link (a pack folder linked into a world's datapacks
   folder), a link chain, `..` after a link, a relative path - is irrelevant for every history of builds, killed ones
   included: spellings that Path.resolve() maps to the same directory give the same header (every `#static` argument,
   relative or absolute, denotes the same folder), so each step has the same plan, result and crash prefixes and leaves the
   same tree.  With C11_fresh / C11_crash_recover (stated for the header [hdr_of E c rh]) the fresh-build-plus-statics
   result therefore holds below a linked output directory as it does below a plain one. *)
Theorem C11_output_spelling_irrelevant : forall v L o1 o2 c steps t,
  resolve L [] o1 = resolve L [] o2 -> ns_unlinked (mkEnv L o1) c = true ->
  hist v (mkEnv L o1) c steps t = hist v (mkEnv L o2) c steps t.
Proof. exact hist_out_spelling. Qed.
Print Assumptions C11_output_spelling_irrelevant.

Theorem C11_output_spelling_same_build : forall v L o1 o2 c rh out fault t,
  resolve L [] o1 = resolve L [] o2 -> ns_unlinked (mkEnv L o1) c = true ->
  hdr_of (mkEnv L o1) c rh = hdr_of (mkEnv L o2) c rh /\
  run_spelled v (mkEnv L o1) c rh out fault t = run_spelled v (mkEnv L o2) c rh out fault t /\
  (forall ops, crash_trace (plan_spelled v (mkEnv L o1) c rh out fault t) ops ->
               crash_trace (plan_spelled v (mkEnv L o2) c rh out fault t) ops).
Proof.
  intros. split; [apply hdr_of_out_spelling; auto|]. split; [apply run_out_spelling; auto|].
  intros ops. apply crash_trace_out_spelling; auto.
Qed.
Print Assumptions C11_output_spelling_same_build.

(* why it matters: a header that stores the LEXICALLY normalised static folder (os.path.abspath) while the deletion phase
   compares link-resolved paths excepts nothing below a linked output directory - the rebuild deletes the hand-made file;
   with the resolved spelling it stays, and a history build / kill after 3 operations / rebuild is the same through the
   link `outlnk` and through `proj/../out` *)
Example C11_lexical_static_lost :
  static_lexical l_E p_cfg (rel ["keep"%string]) <> static_of l_E p_cfg (rel ["keep"%string]) /\
  node_at l_after_lex ["."; "data"; "ns"; "keep"; "a.txt"]%string = None /\
  node_at l_after ["."; "data"; "ns"; "keep"; "a.txt"]%string = Some (NFile (Raw "precious")) /\
  (forall o c a, static_lexical (mkEnv [] o) c a = static_of (mkEnv [] o) c a).
Proof.
  destruct lexical_static_lost as (A & B & _ & C & _ & D). repeat split; auto.
  rewrite A, B. discriminate.
Qed.
Print Assumptions C11_lexical_static_lost.
