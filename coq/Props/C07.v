(* Property C07 — the emitted datapack is closed and loadable under every configuration.
   Only statements of theorems, closed by `exact`, and Print Assumptions.

   Model: Model/Alloc.v (the DataPack object as a state machine: operations, build(), file emission)
   and Model/ResLoc.v (convention_jmc_to_mc, format_func_path, call_func, path mapping, legal
   resource locations).  `c : cfg` ranges over all namespaces, both folder conventions
   (pack_format < 48 / >= 48), all #override / #link sets and all jmc.txt names. *)
From Coq Require Import String Ascii List Bool Arith ZArith.
From JMCV Require Import Base.Dec Model.Names Model.ResLoc Model.Alloc Proofs.ResLoc Proofs.Alloc.
Import ListNotations.
Open Scope string_scope.

(* (i-a) Closure of the text: for every state handed to build() that satisfies the decidable
   discipline `disc` (every own-namespace reference in a stored line or json names a stored
   function / private function / json, no key is a bare #override namespace, no json sits on the
   load/tick tag), every `function ns:…`, `schedule function ns:…`, `function #ns:…`, function-tag value
   and advancement reward in every emitted file that names an own namespace resolves to an emitted file. *)
Theorem C07_machine_closed :
  forall c b st files,
    build c b st = inr files -> disc c b st = true -> closedb c files = true.
Proof. exact build_closed. Qed.
Print Assumptions C07_machine_closed.

(* (i-b) References handed out by the machine: the string returned by every call_func(g, n)
   whose private function is stored before build() names an emitted function file (a name with a
   `$(…)` macro placeholder is a run-time reference and is excluded) … *)
Theorem C07_call_func_resolves :
  forall c ops b st files,
    run c ops = Some st -> build c b st = inr files ->
    forall g n ret,
    In (OCallF g n ret) ops -> alloc_disc ops = true -> is_macro_name n = false ->
    no_char ch_colon (c_ns c) = true -> mem_str (first_seg (c_private c)) (c_overrides c) = false ->
    exists loc k, ret = "function " ++ loc /\ resolve_func (c_legacy c) loc = Some k /\ In k (keys files).
Proof. exact callf_resolves. Qed.
Print Assumptions C07_call_func_resolves.

(* … and so does every user call `name()` that build() accepted (unless its namespace is #link-ed). *)
Theorem C07_user_call_resolves :
  forall c ops b st files,
    run c ops = Some st -> build c b st = inr files ->
    forall p pre,
    In (OCalled p pre) ops -> mem_str (first_seg p) (c_links c) = false ->
    path_ok (c_overrides c) p = true -> no_char ch_colon (c_ns c) = true ->
    forallb (no_char ch_colon) (c_overrides c) = true ->
    exists k, resolve_func (c_legacy c) (fmt c p) = Some k /\ In k (keys files).
Proof. exact called_resolves. Qed.
Print Assumptions C07_user_call_resolves.

(* (i-c) Every emitted key is a legal lower-case resource location, given legal configured names
   and legal paths handed to the DataPack (see C07_convention_legal for the paths of user names). *)
Theorem C07_keys_legal :
  forall c b st files,
    build c b st = inr files -> cfg_legal c = true -> paths_legal c b st = true -> paths_disc c b st = true ->
    forall k, In k (keys files) -> key_legal k.
Proof. exact build_keys_legal. Qed.
Print Assumptions C07_keys_legal.

(* (i-d) Every line of every emitted function is non-empty and contains no newline:
   one command per line (the file is these lines joined by "\n"). *)
Theorem C07_lines :
  forall c ops b st files k ls,
    run c ops = Some st -> build c b st = inr files -> In (k, FLines ls) files -> Forall line_ok ls.
Proof. intros c ops b st files k ls R B. eapply build_lines; eauto. eapply run_wf; eauto. Qed.
Print Assumptions C07_lines.

(* (i-e) The load tag names the load function (and its file is not replaced); the tick tag is
   written iff the assembled tick function is non-empty.  That the named functions are emitted
   files is part of C07_machine_closed (the tags are scanned like every other file). *)
Theorem C07_load_tag :
  forall c b st files,
    build c b st = inr files -> tag_free c st = true ->
    In (tag_key c "load", FTag (load_loc c)) files /\
    (forall x, In (tag_key c "load", x) files -> x = FTag (load_loc c)).
Proof. exact load_tag_registered. Qed.
Print Assumptions C07_load_tag.

Theorem C07_tick_tag :
  forall c b st files,
    build c b st = inr files -> tag_free c st = true ->
    forall h' f', assemble c b st = inr (h', f') ->
    (tick_nonempty c h' f' = true -> In (tag_key c "tick", FTag (tick_loc c)) files /\
                                     forall x, In (tag_key c "tick", x) files -> x = FTag (tick_loc c)) /\
    (tick_nonempty c h' f' = false -> forall x, ~ In (tag_key c "tick", x) files).
Proof. exact tick_tag_registered. Qed.
Print Assumptions C07_tick_tag.

(* (ii) The call-site shapes of the core language (add_*_private_function, while/for, if/else
   chains, binary switch — see Model.Alloc.core_seq) satisfy the allocation discipline.  PARTIAL:
   this is about the shapes, not a model of every statement compiler; the built-in functions are
   covered only by evaluating alloc_disc / disc on their logged operation sequences. *)
Theorem C07_core_discipline_partial :
  forall c ops, core_seq c ops -> alloc_disc ops = true.
Proof. exact core_seq_disc. Qed.
Print Assumptions C07_core_discipline_partial.

(* (iii) convention_jmc_to_mc (repaired behaviour: names with an empty segment "a..b" are rejected)
   only returns legal paths, for every name, with and without lower-casing, under every class prefix. *)
Theorem C07_convention_legal :
  forall lw prefix s p,
    convention true lw prefix s = inr p -> prefix_wf prefix -> legal_path p = true.
Proof. exact convention_legal. Qed.
Print Assumptions C07_convention_legal.

(* The pinned tree (strict = false) accepts "a..b" and returns the illegal path "a//b". *)
Theorem C07_refuted_convention_empty_segment :
  exists s p, convention false true "" s = inr p /\ legal_path p = false.
Proof. exists "a..b", "a//b". split; vm_compute; reflexivity. Qed.
Print Assumptions C07_refuted_convention_empty_segment.

Theorem C07_convention_legal_partial :
  forall strict lw prefix s p,
    convention strict lw prefix s = inr p -> has_dotdot s = false -> prefix_wf prefix -> legal_path p = true.
Proof. exact convention_legal_partial. Qed.
Print Assumptions C07_convention_legal_partial.

(* Non-vacuity: a concrete operation sequence (one user function calling a private function and
   a user function, a tick command) is accepted, satisfies every hypothesis, and produces files. *)
Example C07_nonvacuous :
  let c := mkCfg (mkNames "mypack" "v" "i" "priv" "load" "tick" "st") false ["minecraft"] [] [] in
  let ops := [ONew 0 []; OFSet "load" 0;
              OCount "if_else" "0"; ONew 1 ["say a"; "say b"]; OPSet "if_else" "0" 1;
              OCallF "if_else" "0" "function mypack:priv/if_else/0";
              OCalled "minecraft/foo" "";
              ONew 2 ["execute if score x v matches 1 run function mypack:priv/if_else/0" ++ nls ++ nls ++ "function minecraft:foo"];
              OFSet "minecraft/foo" 2] in
  let b := mkB [] ["say tick"] [] [] [] [1%Z] [("v", "dummy")] [] false in
  exists st files,
    run c ops = Some st /\ build c b st = inr files /\ disc c b st = true /\ alloc_disc ops = true /\
    cfg_legal c = true /\ paths_legal c b st = true /\ List.length files = 6%nat /\
    In (mkKey "minecraft" (Some "function") "foo" false) (keys files).
Proof.
  intros c ops b. eexists; eexists.
  split; [vm_compute; reflexivity|]. split; [vm_compute; reflexivity|].
  repeat split; try (vm_compute; reflexivity). vm_compute. tauto.
Qed.
