(* Property C07 — the emitted datapack is closed and loadable under every configuration.
   Only statements of theorems, closed by `exact`, and Print Assumptions.

   Model: Model/Alloc.v (the DataPack object as a state machine: operations, build(), file emission)
   and Model/ResLoc.v (convention_jmc_to_mc, format_func_path, call_func, path mapping, legal
   resource locations).  `c : cfg` ranges over all namespaces, both folder conventions
   (pack_format < 48 / >= 48), all #override / #link sets and all jmc.txt names. *)
From Coq Require Import String Ascii List Bool Arith ZArith.
From JMCV Require Import Base.Dec Model.Names Model.ResLoc Model.Alloc Proofs.ResLoc Proofs.Alloc Proofs.AllocKeep.
Import ListNotations.
Open Scope string_scope.

(* (i-a) Closure of the text: for every state handed to build() that satisfies the decidable
   discipline `disc` (every own-namespace reference in a stored line or json names a stored
   function / private function / json, no key is a bare #override namespace, no json sits on the
   load/tick tag), every `function ns:…`, `schedule function ns:…`, `function #ns:…`, function-tag value
   and advancement reward in every emitted file that names an own namespace resolves to an emitted file. *)
Theorem C07_machine_closed :
  forall c b st files,
    build c b st = inr files -> disc c b st = true -> closedb c files = true.
Proof. exact build_closed. Qed.
Print Assumptions C07_machine_closed.

(* (i-b) References handed out by the machine: the string returned by every call_func(g, n)
   whose private function is stored before build() names an emitted function file (a name with a
   `$(…)` macro placeholder is a run-time reference and is excluded) … *)
Theorem C07_call_func_resolves :
  forall c ops b st files,
    run c ops = Some st -> build c b st = inr files ->
    forall g n ret,
    In (OCallF g n ret) ops -> alloc_disc ops = true -> is_macro_name n = false ->
    no_char ch_colon (c_ns c) = true -> mem_str (first_seg (c_private c)) (c_overrides c) = false ->
    exists loc k, ret = "function " ++ loc /\ resolve_func (c_legacy c) loc = Some k /\ In k (keys files).
Proof. exact callf_resolves. Qed.
Print Assumptions C07_call_func_resolves.

(* … and so does every user call `name()` that build() accepted (unless its namespace is #link-ed). *)
Theorem C07_user_call_resolves :
  forall c ops b st files,
    run c ops = Some st -> build c b st = inr files ->
    forall p pre,
    In (OCalled p pre) ops -> mem_str (first_seg p) (c_links c) = false ->
    path_ok (c_overrides c) p = true -> no_char ch_colon (c_ns c) = true ->
    forallb (no_char ch_colon) (c_overrides c) = true ->
    exists k, resolve_func (c_legacy c) (fmt c p) = Some k /\ In k (keys files).
Proof. exact called_resolves. Qed.
Print Assumptions C07_user_call_resolves.

(* (i-c) Every emitted key is a legal lower-case resource location, given legal configured names
   and legal paths handed to the DataPack (see C07_convention_legal for the paths of user names). *)
Theorem C07_keys_legal :
  forall c b st files,
    build c b st = inr files -> cfg_legal c = true -> paths_legal c b st = true -> paths_disc c b st = true ->
    forall k, In k (keys files) -> key_legal k.
Proof. exact build_keys_legal. Qed.
Print Assumptions C07_keys_legal.

(* (i-d) Every line of every emitted function is non-empty and contains no newline:
   one command per line (the file is these lines joined by "\n"). *)
Theorem C07_lines :
  forall c ops b st files k ls,
    run c ops = Some st -> build c b st = inr files -> In (k, FLines ls) files -> Forall line_ok ls.
Proof. intros c ops b st files k ls R B. eapply build_lines; eauto. eapply run_wf; eauto. Qed.
Print Assumptions C07_lines.

(* (i-e) The load tag names the load function (and its file is not replaced); the tick tag is
   written iff the assembled tick function is non-empty.  That the named functions are emitted
   files is part of C07_machine_closed (the tags are scanned like every other file). *)
Theorem C07_load_tag :
  forall c b st files,
    build c b st = inr files -> tag_free c st = true ->
    In (tag_key c "load", FTag (load_loc c)) files /\
    (forall x, In (tag_key c "load", x) files -> x = FTag (load_loc c)).
Proof. exact load_tag_registered. Qed.
Print Assumptions C07_load_tag.

Theorem C07_tick_tag :
  forall c b st files,
    build c b st = inr files -> tag_free c st = true ->
    forall h' f', assemble c b st = inr (h', f') ->
    (tick_nonempty c h' f' = true -> In (tag_key c "tick", FTag (tick_loc c)) files /\
                                     forall x, In (tag_key c "tick", x) files -> x = FTag (tick_loc c)) /\
    (tick_nonempty c h' f' = false -> forall x, ~ In (tag_key c "tick", x) files).
Proof. exact tick_tag_registered. Qed.
Print Assumptions C07_tick_tag.

(* (ii) The call-site shapes of the core language (add_*_private_function, while/for, if/else
   chains, binary switch — see Model.Alloc.core_seq) satisfy the allocation discipline.  PARTIAL:
   this is about the shapes, not a model of every statement compiler; the built-in functions are
   covered only by evaluating alloc_disc / disc on their logged operation sequences. *)
Theorem C07_core_discipline_partial :
  forall c ops, core_seq c ops -> alloc_disc ops = true.
Proof. exact core_seq_disc. Qed.
Print Assumptions C07_core_discipline_partial.

(* (iii) convention_jmc_to_mc (repaired behaviour: names with an empty segment "a..b" are rejected)
   only returns legal paths, for every name, with and without lower-casing, under every class prefix. *)
Theorem C07_convention_legal :
  forall lw prefix s p,
    convention true lw prefix s = inr p -> prefix_wf prefix -> legal_path p = true.
Proof. exact convention_legal. Qed.
Print Assumptions C07_convention_legal.

(* The pinned tree (strict = false) accepts "a..b" and returns the illegal path "a//b". *)
Theorem C07_refuted_convention_empty_segment :
  exists s p, convention false true "" s = inr p /\ legal_path p = false.
Proof. exists "a..b", "a//b". split; vm_compute; reflexivity. Qed.
Print Assumptions C07_refuted_convention_empty_segment.

Theorem C07_convention_legal_partial :
  forall strict lw prefix s p,
    convention strict lw prefix s = inr p -> has_dotdot s = false -> prefix_wf prefix -> legal_path p = true.
Proof. exact convention_legal_partial. Qed.
Print Assumptions C07_convention_legal_partial.

(* Non-vacuity: a concrete operation sequence (one user function calling a private function and
   a user function, a tick command) is accepted, satisfies every hypothesis, and produces files. *)
Example C07_nonvacuous :
  let c := mkCfg (mkNames "mypack" "v" "i" "priv" "load" "tick" "st") false ["minecraft"] [] [] in
  let ops := [ONew 0 []; OFSet "load" 0;
              OCount "if_else" "0"; ONew 1 ["say a"; "say b"]; OPSet "if_else" "0" 1;
              OCallF "if_else" "0" "function mypack:priv/if_else/0";
              OCalled "minecraft/foo" "";
              ONew 2 ["execute if score x v matches 1 run function mypack:priv/if_else/0" ++ nls ++ nls ++ "function minecraft:foo"];
              OFSet "minecraft/foo" 2] in
  let b := mkB [] ["say tick"] [] [] [] [1%Z] [("v", "dummy")] [] false in
  exists st files,
    run c ops = Some st /\ build c b st = inr files /\ disc c b st = true /\ alloc_disc ops = true /\
    cfg_legal c = true /\ paths_legal c b st = true /\ List.length files = 6%nat /\
    In (mkKey "minecraft" (Some "function") "foo" false) (keys files).
Proof.
  intros c ops b. eexists; eexists.
  split; [vm_compute; reflexivity|]. split; [vm_compute; reflexivity|].
  repeat split; try (vm_compute; reflexivity). vm_compute. tauto.
Qed.

(* ================================================================== (round 3) defined with / without a file
   The DataPack knows two tables: `defined_file_pos` (every defined NAME: ODef — functions, @lazy / @if functions, json) and
   `functions` (the functions a FILE is written for).  `fileless c b st p`: p is defined but build() has no function for it
   (a @lazy / @if function that could not be expanded in place: called before its definition, `schedule function p()`, p passed
   by name to a built-in, `p() with ...`; or a json name).  A call of such a name that is not #link-ed makes build() fail —
   for every configuration, operation sequence and build data — and an accepted build has no such call. *)
Theorem C07_fileless_call_rejected :
  forall c ops b st p pre,
    run c ops = Some st -> In (OCalled p pre) ops ->
    fileless c b st p = true -> mem_str (first_seg p) (c_links c) = false ->
    exists e, build c b st = inl e.
Proof. exact fileless_call_rejected. Qed.
Print Assumptions C07_fileless_call_rejected.

Theorem C07_accepted_no_fileless_call :
  forall c b st files, build c b st = inr files -> fileless_called c b st = [].
Proof. exact accepted_no_fileless_call. Qed.
Print Assumptions C07_accepted_no_fileless_call.

(* Non-vacuity: `@lazy function greet() {..}  function u() { schedule function greet() 5t; }` — greet is defined, has no
   file, is recorded as called: the build is refused with "Lazy function used before definition"; with a plain `function greet`
   (OFSet) the same sequence is accepted and closed. *)
Example C07_fileless_nonvacuous :
  let c := mkCfg (mkNames "TEST" "v" "i" "__private__" "__load__" "__tick__" "st") false [] [] [] in
  let b := mkB [] [] [] [] [] [] [] [] false in
  let pre := [ONew 0 []; OFSet "__load__" 0; ODef "greet"] in
  let post := [ODef "u"; OCalled "greet" ""; ONew 1 ["schedule function TEST:greet 5t"]; OFSet "u" 1] in
  (exists st, run c (pre ++ [OLazy "greet"] ++ post)%list = Some st /\ fileless c b st "greet" = true /\
              build c b st = inl (BLazyUsed "greet")) /\
  (exists st files, run c (pre ++ [ONew 2 ["say hi"]; OFSet "greet" 2] ++ post)%list = Some st /\ fileless c b st "greet" = false /\
                    build c b st = inr files /\ closedb c files = true).
Proof.
  intros c b pre post. split.
  - eexists. split; [vm_compute; reflexivity|]. split; vm_compute; reflexivity.
  - eexists. eexists. split; [vm_compute; reflexivity|]. split; [vm_compute; reflexivity|].
    split; [vm_compute; reflexivity|]. vm_compute; reflexivity.
Qed.

(* ================================================================== (iv) Core-language closure
   The statement compilers of the core language — if / else-if / else chains, while / do-while / for
   (Model.IfElse, Model.Loop: Lexer.parse_if_else, while_, for_ with DataPack's private-function numbering;
   tied to the repo by properties C04 / C05) and `switch` under both strategies and Hardcode.switch
   (Model.Switch; tied by C06) — emit closed code for EVERY program, not per logged trace.

   `calls l` (Proofs.CoreCalls) = every function name the commands l name statically: `function f`,
   `function f with storage s`, and the command after `run` of an `execute`.  `mcalls l` = the macro calls
   `$function pre$(key)`, whose target `pre ++ z_dec v` exists only at run time.  `fcalls fs` / `fmcalls fs`
   = those of the bodies of the functions fs.  MC.Sem consults the function table at these names only. *)
From JMCV Require Import MC.Syntax MC.Print Proofs.CoreCalls Proofs.CoreClosed.
From JMCV Require MC.Sem Model.PrivAlloc Model.IfElse Model.Loop Model.Switch Proofs.LoopAlloc Proofs.Switch
     Proofs.CoreClosedLoop Proofs.CoreClosedSwitch.

Theorem C07_calls_are_all_lookups :
  forall ft ft' env fuel menv c st,
    calls1 c = [] -> mcalls1 c = [] -> Sem.exec ft env fuel menv c st = Sem.exec ft' env fuel menv c st.
Proof. exact no_calls_ft_irrelevant. Qed.
Print Assumptions C07_calls_are_all_lookups.

(* a macro call whose run-time target is not a function runs nothing and leaves the state unchanged *)
Theorem C07_macro_call_miss :
  forall ft env fuel menv pre key st,
    (forall v, menv key = Some v -> ft (pre ++ z_dec v) = None) ->
    Sem.exec ft env (S fuel) menv (CMacroCall pre key) st = Some (st, Sem.r_fail).
Proof. exact macro_call_miss. Qed.
Print Assumptions C07_macro_call_miss.

(* (iv-a) if / else chains and loops, nested without bound.  For every statement tree `prog` that
   Model.Loop.compile_body lowers to the caller lines `lines` and the private functions `fdefs`
   (CoreClosedLoop.src_stmts prog = the commands the source supplies: basic statements, the helper lines of
   conditions, for-initialisers and steps):
     - the generated names are pairwise distinct and are call_func names of the groups if_else / while_loop / for_loop;
     - every function called by the caller lines or by the body of a generated function is a generated
       function, or is called by a command the source supplied: the lowering adds no dangling call;
     - no macro call is added;
     - no generated function is empty (C07_lines: the machine drops empty lines). *)
Theorem C07_core_closed_ifelse_loops :
  forall nm prog lines fdefs,
    Loop.compile_body nm prog = Some (lines, fdefs) ->
    NoDup (map fst fdefs) /\
    (forall name, In name (map fst fdefs) -> exists g k, In g LoopAlloc.groups /\ name = PrivAlloc.priv_fn nm g k) /\
    (forall f, In f (calls lines ++ fcalls fdefs)%list ->
               In f (map fst fdefs) \/ In f (calls (CoreClosedLoop.src_stmts prog))) /\
    (forall pk, In pk (mcalls lines ++ fmcalls fdefs)%list -> In pk (mcalls (CoreClosedLoop.src_stmts prog))) /\
    (forall name body, In (name, body) fdefs -> body <> []).
Proof. exact CoreClosedLoop.core_closed_ifelse_loops. Qed.
Print Assumptions C07_core_closed_ifelse_loops.

(* … so a call into the private namespace `<ns>:<PRIVATE>/…` never dangles, when the source commands make none *)
Theorem C07_core_private_calls_resolve :
  forall nm prog lines fdefs,
    Loop.compile_body nm prog = Some (lines, fdefs) ->
    (forall f, In f (calls (CoreClosedLoop.src_stmts prog)) -> CoreClosedLoop.in_private nm f = false) ->
    forall f, In f (calls lines ++ fcalls fdefs)%list -> CoreClosedLoop.in_private nm f = true -> In f (map fst fdefs).
Proof. exact CoreClosedLoop.core_private_calls_resolve. Qed.
Print Assumptions C07_core_private_calls_resolve.

(* (iv-b) one `switch` statement / Hardcode.switch, either strategy (CoreClosedSwitch.switch_closed_spec, in full):
     - every function the emitted commands or an emitted function call is emitted, or is called by a case body;
       the only macro call added is the dispatcher's `$function <pre>$(switch_key)`;
     - macro dispatch: the dispatcher <pre>select is emitted and called; for every numeric label v the run-time
       target <pre><v> is emitted, for every other value it is not (the call then runs nothing: C07_macro_call_miss);
       <pre>default is emitted iff it is referenced iff there is a default entry;
     - binary search tree: the emitted commands call exactly the root, the root is emitted, every
       `function …/<k>` a node emits for a sub-range is emitted (first clause), the names are pairwise distinct. *)
Theorem C07_core_closed_switch_statement :
  forall nm c x entries pc sid cmds fs pc' sid',
    Switch.compile_switch nm c x entries pc sid = Switch.Ok (cmds, fs, pc', sid') ->
    let cases := Proofs.Switch.cases_of entries in
    let inputs := flat_map snd cases in
    let names := CoreClosedSwitch.fnames fs in
    (forall f, In f (calls cmds ++ fcalls fs)%list -> In f names \/ In f (calls inputs)) /\
    (forall p k, In (p, k) (mcalls cmds ++ fmcalls fs)%list ->
       (Switch.is_macro c = true /\ p = Switch.macro_prefix nm Switch.SWITCH_CASE_NAME pc /\ k = "switch_key") \/
       In (p, k) (mcalls inputs)) /\
    if Switch.is_macro c then
      let pre := Switch.macro_prefix nm Switch.SWITCH_CASE_NAME pc in
      In (pre ++ "select", [CMacroCall pre "switch_key"]) fs /\
      In (pre ++ "select") (calls cmds) /\
      (forall v, In (Switch.LNum v) (map fst cases) -> In (pre ++ z_dec v) names) /\
      (forall v, ~ In (Switch.LNum v) (map fst cases) -> ~ In (pre ++ z_dec v) names) /\
      (In (pre ++ "default") (calls cmds) <-> In Switch.LDefault (map fst cases)) /\
      (In (pre ++ "default") names <-> In Switch.LDefault (map fst cases))
    else
      calls cmds = [Switch.priv_path nm Switch.SWITCH_CASE_NAME (z_dec pc)] /\
      In (Switch.priv_path nm Switch.SWITCH_CASE_NAME (z_dec pc)) names /\
      NoDup names.
Proof. exact CoreClosedSwitch.compile_switch_closed. Qed.
Print Assumptions C07_core_closed_switch_statement.

Theorem C07_core_closed_hardcode_switch :
  forall nm c x body b cnt pc sid cmds fs pc' sid',
    Switch.compile_hardcode nm c x body b cnt pc sid = Switch.Ok (cmds, fs, pc', sid') ->
    CoreClosedSwitch.switch_closed_spec nm c Switch.HARDCODE_SWITCH_NAME (Proofs.Switch.hard_cases body b cnt) pc cmds fs.
Proof. exact CoreClosedSwitch.compile_hardcode_closed. Qed.
Print Assumptions C07_core_closed_hardcode_switch.

(* (iv-c) whole packs under either strategy (Model.Switch.compile_functions: user functions whose bodies nest
   switch statements, Hardcode.switch and user calls `f();` without bound): every user function is emitted;
   every function called by an emitted function is emitted or is a user call written in the source
   (CoreClosedSwitch.ucalls_fl); every macro call is the `$function <p>$(switch_key)` of an emitted dispatcher. *)
Theorem C07_core_closed_switch :
  forall fuel nm c fl st fs,
    Switch.compile_functions fuel nm c fl st = Switch.Ok fs ->
    let names := CoreClosedSwitch.fnames fs in
    (forall name, In name (map fst fl) -> In (CoreClosedSwitch.user_name nm name) names) /\
    (forall f, In f (fcalls fs) ->
               In f names \/ In f (map (CoreClosedSwitch.user_name nm) (CoreClosedSwitch.ucalls_fl fl))) /\
    (forall p k, In (p, k) (fmcalls fs) -> k = "switch_key" /\ In (p ++ "select") names).
Proof. exact CoreClosedSwitch.core_closed_switch. Qed.
Print Assumptions C07_core_closed_switch.

(* … hence no static call dangles at all when every user call names a function of the pack *)
Theorem C07_core_closed_switch_defined :
  forall fuel nm c fl st fs,
    Switch.compile_functions fuel nm c fl st = Switch.Ok fs ->
    incl (CoreClosedSwitch.ucalls_fl fl) (map fst fl) ->
    forall f, In f (fcalls fs) -> In f (CoreClosedSwitch.fnames fs).
Proof. exact CoreClosedSwitch.core_closed_switch_defined. Qed.
Print Assumptions C07_core_closed_switch_defined.

(* (iv-d) The bridge to the machine.  Model.Alloc stores text, the statement compilers are modelled on
   MC.Syntax commands printed by MC.Print.  If every line that can reach a function file is a line of the
   printed form of a command of `code` in which the reference scanner sees only calls the command makes
   (text_fromb: decidable), and every function `code` calls is defined in the state (`defined` = ref_defined
   on a function reference), then build()'s output is closed.  The remaining hypotheses are those of
   C07_machine_closed that are not about calls: json_discb, paths_disc, tag_free. *)
Theorem C07_core_machine_closed :
  forall c b st files code,
    build c b st = inr files ->
    text_fromb code (all_lines c b st) = true ->
    (forall f, In f (calls code) -> defined c b st f) ->
    json_discb c b st = true -> paths_disc c b st = true -> tag_free c st = true ->
    closedb c files = true.
Proof. exact core_machine_closed. Qed.
Print Assumptions C07_core_machine_closed.

(* For lowered chains and loops the definedness of every GENERATED call is proved, not assumed: it is enough
   that the generated functions are stored as the private functions they are named after (priv_has) and that
   what the source commands and `extra` (everything else that reaches function files) call is defined. *)
Theorem C07_core_loops_machine_closed :
  forall c b st files prog lines fdefs extra,
    Loop.compile_body (c_nm c) prog = Some (lines, fdefs) ->
    build c b st = inr files ->
    text_fromb (lines ++ flat_map snd fdefs ++ extra)%list (all_lines c b st) = true ->
    (forall g k, In g LoopAlloc.groups -> In (PrivAlloc.priv_fn (c_nm c) g k) (map fst fdefs) ->
                 priv_has g (dec_nat k) (privs st)) ->
    (forall f, In f (calls (CoreClosedLoop.src_stmts prog) ++ calls extra)%list -> defined c b st f) ->
    json_discb c b st = true -> paths_disc c b st = true -> tag_free c st = true ->
    closedb c files = true.
Proof. exact core_loops_machine_closed. Qed.
Print Assumptions C07_core_loops_machine_closed.

(* For packs of switch statements: every emitted function is defined in the state, every user call names a
   function of the pack. *)
Theorem C07_core_switch_machine_closed :
  forall c b st files fuel scfg fl cst fs extra,
    Switch.compile_functions fuel (c_nm c) scfg fl cst = Switch.Ok fs ->
    build c b st = inr files ->
    text_fromb (flat_map snd fs ++ extra)%list (all_lines c b st) = true ->
    (forall name, In name (map fst fs) -> defined c b st name) ->
    incl (CoreClosedSwitch.ucalls_fl fl) (map fst fl) ->
    (forall f, In f (calls extra) -> defined c b st f) ->
    json_discb c b st = true -> paths_disc c b st = true -> tag_free c st = true ->
    closedb c files = true.
Proof. exact core_switch_machine_closed. Qed.
Print Assumptions C07_core_switch_machine_closed.

(* the generated names are the machine's call_func names; a stored private / user function is defined *)
Theorem C07_core_names_defined :
  forall c b st g n,
    (priv_has g n (privs st) -> mem_str (first_seg (c_private c)) (c_overrides c) = false ->
     defined c b st (call_func_loc (c_ns c) (c_private c) g n)) /\
    (forall k, PrivAlloc.priv_fn (c_nm c) g k = call_func_loc (c_ns c) (c_private c) g (dec_nat k)) /\
    Switch.priv_path (c_nm c) g n = call_func_loc (c_ns c) (c_private c) g n /\
    (forall p, amem p (funcs st) = true -> defined c b st (fmt c p)).
Proof. exact core_names_defined. Qed.
Print Assumptions C07_core_names_defined.

(* ------------------------------------------------------------------ non-vacuity of (iv) *)
Definition cx_nm := mkNames "mypack" "v" "i" "priv" "load" "tick" "st".
Definition cx_c := mkCfg cx_nm false [] [] [].
Definition cx_b := mkB [] [] [] [] [] [] [("v", "dummy")] [] false.
Definition cx_extra := [COther "scoreboard objectives add v dummy"].
Definition cx_v (s : string) : score := (s, "v").
Definition cx_lg := cx_v "__logic__0".
Definition cx_or := IfElse.mkCond
  [CSet cx_lg 0;
   CExecute (IfElse.mods_of [(true, Matches (cx_v "$b") (Exact 1))]) (CSet cx_lg 1);
   CExecute (IfElse.mods_of [(false, Matches cx_lg (Exact 1)); (true, Matches (cx_v "$c") (Exact 1))]) (CSet cx_lg 1)]
  [(true, Matches cx_lg (Exact 1))].
Definition cx_is (s : string) (z : Z) := IfElse.mkCond [] [(true, Matches (cx_v s) (Exact z))].

(* function main() { if ($a == 1) { while ($b == 1 || $c == 1) { if ($d == 2) { say x1; helper(); }
                                                                   else { say x3; $b += 1; } }  say x4; } }
   — an if / else chain in a while loop in an if.  The model's output is, line for line, what the real
   compiler writes for this source (four private functions if_else/0, if_else/1, while_loop/0, if_else/2). *)
Definition cx_prog : Loop.stmts :=
  Loop.SCons (Loop.SIf (Loop.BCons (cx_is "$a" 1)
     (Loop.SCons (Loop.SWhile cx_or
        (Loop.SCons (Loop.SIf (Loop.BCons (cx_is "$d" 2)
                                 (Loop.SCons (Loop.SCmd (CSay "x1")) (Loop.SCons (Loop.SCmd (CCall "mypack:helper")) Loop.SNil))
                                 Loop.BNil)
                              (Loop.ESome (Loop.SCons (Loop.SCmd (CSay "x3"))
                                             (Loop.SCons (Loop.SCmd (CAdd (cx_v "$b") 1)) Loop.SNil))))
                    Loop.SNil))
     (Loop.SCons (Loop.SCmd (CSay "x4")) Loop.SNil)) Loop.BNil) Loop.ENone)
  Loop.SNil.

Example C07_core_nonvacuous_nest :
  exists lines fdefs,
    Loop.compile_body cx_nm cx_prog = Some (lines, fdefs) /\
    map fst fdefs = ["mypack:priv/if_else/0"; "mypack:priv/if_else/1"; "mypack:priv/while_loop/0"; "mypack:priv/if_else/2"] /\
    calls (CoreClosedLoop.src_stmts cx_prog) = ["mypack:helper"] /\
    CoreClosedLoop.closed_fdefsb lines fdefs ["mypack:helper"] = true /\
    (* … and through the machine: the pack {main = lines, helper, the four private functions} *)
    exists st files,
      run cx_c (loop_pack_ops cx_nm "main" lines fdefs ++ [ONew 1000 ["say hi"]; OFSet "helper" 1000])%list = Some st /\
      build cx_c cx_b st = inr files /\
      text_fromb (lines ++ flat_map snd fdefs ++ cx_extra ++ [CSay "hi"])%list (all_lines cx_c cx_b st) = true /\
      Forall (fun gk => priv_has (fst gk) (dec_nat (snd gk)) (privs st))
             [("if_else", 0%nat); ("if_else", 1%nat); ("while_loop", 0%nat); ("if_else", 2%nat)] /\
      defined cx_c cx_b st "mypack:helper" /\
      json_discb cx_c cx_b st = true /\ paths_disc cx_c cx_b st = true /\ tag_free cx_c st = true /\
      List.length files = 8%nat /\ closedb cx_c files = true.
Proof.
  eexists. eexists. split; [vm_compute; reflexivity|].
  split; [vm_compute; reflexivity|]. split; [vm_compute; reflexivity|]. split; [vm_compute; reflexivity|].
  eexists. eexists. split; [vm_compute; reflexivity|]. split; [vm_compute; reflexivity|].
  split; [vm_compute; reflexivity|].
  split; [repeat constructor; eexists; eexists; split; vm_compute; reflexivity|].
  repeat split; vm_compute; reflexivity.
Qed.

(* function main() { switch ($x) { case 3: say three; break; case 4: helper(); break; case 5: break;
                                   case 6: say six; $x = 0; case 7: say seven; break; }  say after; }
   function helper() { say hi; }      — five cases, one of them empty, one calling a user function *)
Definition cx_fl : list (string * list Switch.stmt) :=
  [("main", [Switch.SSwitch (cx_v "$x")
               [(Switch.LNum 3, [Switch.SSay "three"; Switch.SBreak]);
                (Switch.LNum 4, [Switch.SCall "helper"; Switch.SBreak]);
                (Switch.LNum 5, [Switch.SBreak]);
                (Switch.LNum 6, [Switch.SSay "six"; Switch.SSet (cx_v "$x") 0]);
                (Switch.LNum 7, [Switch.SSay "seven"; Switch.SBreak])];
             Switch.SSay "after"]);
   ("helper", [Switch.SSay "hi"])].

Definition cx_switch_ok (pack_format : Z) (nfuncs nfiles : nat) (witness : list string) : Prop :=
  exists fs,
    Switch.compile_functions 10 cx_nm (Switch.mkCfg pack_format false) cx_fl Switch.cs0 = Switch.Ok fs /\
    List.length fs = nfuncs /\ incl witness (map fst fs) /\
    CoreClosedSwitch.closed_funcsb fs = true /\
    forallb (fun g => mem_str g (map fst cx_fl)) (CoreClosedSwitch.ucalls_fl cx_fl) = true /\
    exists st files,
      run cx_c (switch_pack_ops cx_nm fs) = Some st /\ build cx_c cx_b st = inr files /\
      text_fromb (flat_map snd fs ++ cx_extra)%list (all_lines cx_c cx_b st) = true /\
      forallb (fun n => ref_defined cx_c cx_b st (RFunc n)) (map fst fs) = true /\
      json_discb cx_c cx_b st = true /\ paths_disc cx_c cx_b st = true /\ tag_free cx_c st = true /\
      List.length files = nfiles /\ closedb cx_c files = true.

(* binary search tree (pack format 15): main, helper and the nine functions of the tree *)
Example C07_core_nonvacuous_switch_bst :
  cx_switch_ok 15 11 13 ["mypack:priv/switch_case/0"; "mypack:priv/switch_case/5"; "mypack:priv/switch_case/8"].
Proof.
  eexists. split; [vm_compute; reflexivity|]. split; [vm_compute; reflexivity|].
  split; [intros x Hx; vm_compute in Hx |- *; tauto|].
  split; [vm_compute; reflexivity|]. split; [vm_compute; reflexivity|].
  eexists. eexists. split; [vm_compute; reflexivity|]. split; [vm_compute; reflexivity|].
  repeat split; vm_compute; reflexivity.
Qed.

(* macro dispatch (pack format 48): main, helper, five label functions and the dispatcher *)
Example C07_core_nonvacuous_switch_macro :
  cx_switch_ok 48 8 10 ["mypack:priv/switch_case/0/select"; "mypack:priv/switch_case/0/5"; "mypack:priv/switch_case/0/7"].
Proof.
  eexists. split; [vm_compute; reflexivity|]. split; [vm_compute; reflexivity|].
  split; [intros x Hx; vm_compute in Hx |- *; tauto|].
  split; [vm_compute; reflexivity|]. split; [vm_compute; reflexivity|].
  eexists. eexists. split; [vm_compute; reflexivity|]. split; [vm_compute; reflexivity|].
  repeat split; vm_compute; reflexivity.
Qed.

(* ================================================================== (round 4) DISK builds: #copy, #static, merged function tags
   Model/AllocDisk.v: what `compile_jmc` leaves in the output directory, given the files that were there (previous output,
   #static folders, left-overs), the files of the #copy folder and the state handed to build(): deletion, make_cert, #copy,
   the MERGED load / tick tag (read_func_tag drops every value of the pack's namespace; the copied tag wins over the kept one),
   the tick clean-up, then every generated function and json.  `e : denv` ranges over every previous tree, every #copy tree,
   every set of #static folders, with and without deletion; `c` over every namespace, both tag-folder spellings, every
   #override / #link set and every jmc.txt name set.  Tie: harness/c07_disk.py + Run.C07.dsummary — the predicted tree must be
   the tree read back from disk, for first builds and rebuilds into the same output. *)
From JMCV Require Import Model.AllocDisk Proofs.AllocDisk.

(* every file of the virtual build (both tags, every function, every json) is a file of the tree on disk:
   nothing that #copy brings, and nothing that survives the deletion, takes the place of a generated file *)
Theorem C07_disk_generated_present :
  forall c e b st tree, dbuild c e b st = inr tree ->
  forall files k, build c b st = inr files -> In k (keys files) -> dmem (disk_path k) tree = true.
Proof. exact disk_generated_present. Qed.
Print Assumptions C07_disk_generated_present.

(* closure on disk: every own-namespace function call, schedule, `#tag`, function-tag entry and advancement reward of every
   generated file names a file of the tree the build leaves behind *)
Theorem C07_disk_closed :
  forall c e b st tree, dbuild c e b st = inr tree ->
  forall files, build c b st = inr files -> disc c b st = true -> disk_closedb c files tree = true.
Proof. exact disk_closed. Qed.
Print Assumptions C07_disk_closed.

(* registration in the MERGED load tag: the file on disk holds exactly the values the user's tag file (the copied one, else the
   one kept in the output) has outside the pack's namespace, followed by <ns>:<LOAD>; load_registered = <ns>:<LOAD> is a value
   and no other value starts with `<ns>:`.  Hypothesis: no generated function / json is written onto a tag path. *)
Theorem C07_disk_load_registered :
  forall c e b st tree, dbuild c e b st = inr tree -> disk_tag_free c (gen_files c b st) = true ->
  exists x lv, dget (load_path c) tree = Some (DTag x (lv ++ [load_loc c])) /\
               merged_tag c e (load_path c) = TRVals x lv /\ load_registered c tree = true.
Proof. exact disk_load_registered. Qed.
Print Assumptions C07_disk_load_registered.

(* the tick tag: with a non-empty tick function it is the merged tag followed by <ns>:<TICK>; without one, a tick tag that is
   still on disk (copied, shielded by #static, left over) holds NO value of the pack's namespace — no dangling <ns>:<TICK> *)
Theorem C07_disk_tick_registered :
  forall c e b st tree, dbuild c e b st = inr tree -> disk_tag_free c (gen_files c b st) = true ->
  forall h' f', assemble c b st = inr (h', f') ->
    tick_registered c (tick_nonempty c h' f') tree = true /\
    (tick_nonempty c h' f' = true ->
       exists x tv, dget (tick_path c) tree = Some (DTag x (tv ++ [tick_loc c])) /\ merged_tag c e (tick_path c) = TRVals x tv).
Proof. exact disk_tick_registered. Qed.
Print Assumptions C07_disk_tick_registered.

(* what the merge keeps: nothing of the pack's namespace, and only values of the tag file the user supplied *)
Theorem C07_disk_merge_foreign :
  forall c e p x vs, merged_tag c e p = TRVals x vs ->
    forallb (fun v => negb (own_entry c v)) vs = true /\
    (vs = [] \/ exists vs0, (dlast p (copied e) = Some (DTag x vs0) \/ dget p (e_prev e) = Some (DTag x vs0)) /\ vs = foreign c vs0).
Proof. exact merged_keeps. Qed.
Print Assumptions C07_disk_merge_foreign.

(* The ORDER of the steps carries these theorems: the same build with #copy done after the generated files
   (dbuild_copy_last, "user files win") leaves the copied load.json in place — <ns>:<LOAD> is not registered — and a copied
   tick.json that names <ns>:<TICK> although the pack has no tick function. *)
Definition dx_c : cfg := mkCfg (mkNames "mypack" "v" "i" "priv" "load" "tick" "st") false [] [] [].
Definition dx_ops : list op := [ONew 0 []; OFSet "load" 0; ONew 1 ["say hi"]; OFSet "main" 1].
Definition dx_b : bdata := mkB ["say loaded"] [] [] [] [] [] [] [] false.
Definition dx_e : denv :=
  mkDenv [("data/mypack/jmc.txt", DText "old"); ("data/mypack/function/gone.mcfunction", DText "say old");
          ("data/minecraft/tags/function/load.json", DTag "{}" ["mypack:load"]); ("keep.txt", DText "k")]
         true
         (Some [("data/minecraft/tags/function/load.json", DTag "{}" ["other:init"]);
                ("data/minecraft/tags/function/tick.json", DTag "{}" ["other:t"; "mypack:tick"]);
                ("pack.png", DText "png")])
         [].
Theorem C07_disk_refuted_copy_last :
  exists st tree, run dx_c dx_ops = Some st /\ dbuild_copy_last dx_c dx_e dx_b st = inr tree /\
    disc dx_c dx_b st = true /\ disk_tag_free dx_c (gen_files dx_c dx_b st) = true /\
    load_registered dx_c tree = false /\ tick_registered dx_c false tree = false.
Proof. eexists. eexists. split; [vm_compute; reflexivity|]. repeat split; vm_compute; reflexivity. Qed.
Print Assumptions C07_disk_refuted_copy_last.

(* Non-vacuity: the same input under the real order — the old output is deleted, the copied tags are merged
   (load: other:init + mypack:load; tick: the own entry is dropped, the pack has no tick function), keep.txt and pack.png stay. *)
Example C07_disk_nonvacuous :
  exists st tree, run dx_c dx_ops = Some st /\ dbuild dx_c dx_e dx_b st = inr tree /\
    disc dx_c dx_b st = true /\ disk_tag_free dx_c (gen_files dx_c dx_b st) = true /\
    dget (load_path dx_c) tree = Some (DTag "{}" ["other:init"; "mypack:load"]) /\
    dget (tick_path dx_c) tree = Some (DTag "{}" ["other:t"]) /\
    dmem "data/mypack/function/gone.mcfunction" tree = false /\ dmem "keep.txt" tree = true /\ dmem "pack.png" tree = true /\
    dget "data/mypack/function/main.mcfunction" tree = Some (DText "say hi").
Proof. eexists. eexists. split; [vm_compute; reflexivity|]. repeat split; vm_compute; reflexivity. Qed.

(* ------------------------------------------------------------------ (round 5) functions of the #copy library
   DataPack.is_function_in_copy feeds build()'s undefined-call check.  Model: [in_copy] looks the called name up in the
   copied tree under the ONE function folder the pack format loads (func_folder (c_legacy c): `function` from 48,
   `functions` below).  (1) the check accepts a call to a name the program does not define iff the library ships it
   there; (2) what the library ships there is a file of the tree; (3) every accepted build resolves every called function
   outside the #link namespaces in the LOADED folder of the tree on disk. *)
Theorem C07_disk_lib_call_accepted_iff :
  forall c e st f p pre,
  priv_violation st p pre = false -> amem p f = false -> mem_str (first_seg p) (c_links c) = false ->
  (check_called_lib (in_copy c e) c st f [(p, pre)] = None <->
   exists t, e_copy e = Some t /\ dmem (disk_path (fkey_of c p)) t = true) /\
  k_folder (fkey_of c p) = Some (func_folder (c_legacy c)).
Proof.
  intros. split; [|apply fkey_of_folder]. rewrite <- in_copy_spec. now apply lib_call_accepted_iff.
Qed.
Print Assumptions C07_disk_lib_call_accepted_iff.

Theorem C07_disk_called_resolves :
  forall c e b st tree, dbuild c e b st = inr tree ->
  forall p pre, In (p, pre) (called st) -> mem_str (first_seg p) (c_links c) = false ->
  dmem (disk_path (fkey_of c p)) tree = true /\ k_folder (fkey_of c p) = Some (func_folder (c_legacy c)).
Proof. exact disk_called_resolves. Qed.
Print Assumptions C07_disk_called_resolves.

Theorem C07_disk_without_copy_checks :
  forall c e b st f, e_copy e = None -> checks_lib (in_copy c e) c b st f = checks c b st f.
Proof. exact without_copy_checks. Qed.
Print Assumptions C07_disk_without_copy_checks.

(* concrete: pack format >= 48 (legacy = false).  The library ships lib/f under `function/`: accepted, the call's target is on
   disk.  The same library under `functions/` (a folder Minecraft does not load at that format): "never defined".  A generated
   function the library also ships: the build stops. *)
Definition lx_ops : list op := [ONew 0 []; OFSet "load" 0; ONew 1 ["function mypack:lib/f"]; OFSet "main" 1; OCalled "lib/f" ""].
Definition lx_env (folder : string) : denv :=
  mkDenv [] false (Some [("data/mypack/" ++ folder ++ "/lib/f.mcfunction", DText "say lib")]) [].
Example C07_disk_lib_folders :
  exists st, run dx_c lx_ops = Some st /\
    (exists tree, dbuild dx_c (lx_env "function") dx_b st = inr tree /\
                  dget "data/mypack/function/lib/f.mcfunction" tree = Some (DText "say lib") /\
                  disk_closedb dx_c (all_files dx_c dx_b st) tree = true) /\
    dbuild dx_c (lx_env "functions") dx_b st = inl (DBuild (BNeverDefined "lib/f")) /\
    dbuild (mkCfg (mkNames "mypack" "v" "i" "priv" "load" "tick" "st") true [] [] []) (lx_env "function") dx_b st
      = inl (DBuild (BNeverDefined "lib/f")) /\
    dbuild dx_c (mkDenv [] false (Some [("data/mypack/function/main.mcfunction", DText "say lib")]) []) dx_b st = inl DCopyClash.
Proof. eexists. split; [vm_compute; reflexivity|]. split; [eexists; repeat split; vm_compute; reflexivity|]. repeat split; vm_compute; reflexivity. Qed.
Theorem C07_disk_without_copy_disc : forall c e b st, e_copy e = None -> disc_lib c e b st = disc c b st.
Proof. exact without_copy_disc. Qed.
Print Assumptions C07_disk_without_copy_disc.
