(* Property C09 — string, JSON and NBT literals reach the output unmodified in every context.
   Only statements, closed by `exact`, each followed by Print Assumptions.
   Strings are lists of code points (Z).  Alphabets: JSON carriers — all Unicode scalar values
   (0..0x10FFFF without the surrogates D800..DFFF; astral code points travel as \uD8xx\uDCxx
   pairs and are joined by the reader); NBT — all code points 0..0x10FFFF; say — anything
   without a line feed.  `pr` is Python's str.isprintable on non-ASCII code points (a Unicode
   table): the theorems hold for EVERY such table.
   The model is the behaviour WITH fixes/C09-if-else-junction.patch, C09-assign-junction.patch
   and C09-bad-escape.patch; the pinned behaviour is `*_pinned` and is refuted below. *)
From Coq Require Import ZArith Bool String Ascii List.
From JMCV Require Import Model.Lit Proofs.LitBase Proofs.LitJson Proofs.LitNbt Proofs.LitPy Proofs.LitCtx.
Import ListNotations.
Open Scope Z_scope.

(* --- source text -> value ------------------------------------------------------------- *)
(* Text with no backslash, no line feed and not the delimiting quote is its own value. *)
Theorem C09_decode_plain :
  forall q raw, forallb (plain_char q) raw = true -> decode q raw = Ok raw.
Proof. exact (decode_plain Diag). Qed.
Print Assumptions C09_decode_plain.

(* Every value (any code points) has a spelling, and decoding inverts it. *)
Theorem C09_decode_escaped :
  forall q s, q = 34 \/ q = 39 -> decode q (py_quote q s) = Ok s.
Proof. exact (decode_py_quote Diag). Qed.
Print Assumptions C09_decode_escaped.

(* Backtick (multi-line) strings: white space, line feed, TEXT, line feed, white space -- any
   number of lines of text without backslash and backtick is taken as it is. *)
Theorem C09_decode_backtick :
  forall w1 mid w2,
    forallb py_space w1 = true -> memz 10 w1 = false ->
    forallb py_space w2 = true -> memz 10 w2 = false ->
    forallb bt_plain_char mid = true ->
    decode_bt (w1 ++ 10 :: mid ++ 10 :: w2) = Ok mid.
Proof. exact decode_bt_plain. Qed.
Print Assumptions C09_decode_backtick.

(* pinned tree (re.match instead of a full match): text on the opening / closing line is
   silently dropped; with C09-backtick-edge-lines.patch it is refused *)
Theorem C09_refuted_backtick :
  exists raw, decode_bt_pinned raw = Ok (lit "world") /\ decode_bt raw = Diag.
Proof. exact decode_bt_pinned_drops_text. Qed.
Print Assumptions C09_refuted_backtick.

(* No literal makes a non-JMC exception escape (after C09-bad-escape.patch) ... *)
Theorem C09_decode_no_crash : forall q raw, decode_any q raw <> Crash.
Proof. exact decode_any_not_crash. Qed.
Print Assumptions C09_decode_no_crash.

(* ... which is false on the pinned tree: say "\x"; *)
Theorem C09_refuted_escape : exists raw, decode_pinned 34 raw = Crash /\ decode 34 raw = Diag.
Proof. exact decode_pinned_crashes. Qed.
Print Assumptions C09_refuted_escape.

(* --- emitters against the readers ------------------------------------------------------- *)
Theorem C09_roundtrip_json :
  forall s, forallb scalarb s = true -> json_unquote (json_emit s) = Some s.
Proof. exact json_roundtrip. Qed.
Print Assumptions C09_roundtrip_json.

(* the JSON text is printable ASCII: one line, independent of the file encoding *)
Theorem C09_json_ascii :
  forall s, Forall (fun c => 0 <= c < 1114112) s -> Forall (fun x => 32 <= x <= 126) (json_emit s).
Proof. exact json_emit_ascii. Qed.
Print Assumptions C09_json_ascii.

(* SNBT of Minecraft 1.21.5+ : every code point, every isprintable table *)
Theorem C09_roundtrip_nbt :
  forall pr s, forallb cp_ok s = true -> nbt_unquote (nbt_emit pr s) = Some s.
Proof. exact nbt_roundtrip. Qed.
Print Assumptions C09_roundtrip_nbt.

(* SNBT of Minecraft <= 1.21.4 (only \\ and the closing quote may be escaped): holds for text
   made of printable characters; control / non-printable characters are written as \n \xhh
   \uhhhh, which those versions reject -- see C09_nbt_legacy_refuted *)
Theorem C09_roundtrip_nbt_legacy_partial :
  forall pr s, forallb (nbt_plain pr) s = true -> nbt_unquote_legacy (nbt_emit pr s) = Some s.
Proof. exact nbt_roundtrip_legacy. Qed.
Print Assumptions C09_roundtrip_nbt_legacy_partial.

Theorem C09_nbt_legacy_refuted :
  exists s, forallb cp_ok s = true /\ nbt_unquote_legacy (nbt_emit (fun _ => true) s) = None.
Proof. exists [97; 9; 98]. split; reflexivity. Qed.
Print Assumptions C09_nbt_legacy_refuted.

Theorem C09_nbt_one_line :
  forall pr s, Forall (fun x => x <> 10 /\ x <> 13) (nbt_emit pr s).
Proof. exact nbt_emit_no_newline. Qed.
Print Assumptions C09_nbt_one_line.

(* say: the text itself, and it holds neither LF nor CR (otherwise compilation is refused) *)
Theorem C09_say_raw :
  forall pr s l, emit pr KSay s = Ok l -> l = SAY_ ++ s /\ Forall (fun x => x <> 10 /\ x <> 13) s.
Proof. exact emit_say. Qed.
Print Assumptions C09_say_raw.

(* every carrier: reading the emitted command gives the value *)
Theorem C09_carrier_roundtrip :
  forall pr k s l, text_ok k s = true -> emit pr k s = Ok l -> read k l = Some s.
Proof. exact read_emit. Qed.
Print Assumptions C09_carrier_roundtrip.

(* --- contexts --------------------------------------------------------------------------- *)
(* For every stack of contexts (any nesting depth, outermost first), every carrier and every
   value: the line is a prefix that depends on the contexts only, followed by the command text
   unchanged, and reading the command behind that prefix gives the value. *)
Theorem C09_context_transparent :
  forall pr cs k s l,
    forallb ctx_wf cs = true -> carrier_wf k = true -> text_ok k s = true ->
    emit pr k s = Ok l ->
    wrap cs l = ctx_prefix cs ++ l /\
    read k (skipn (length (ctx_prefix cs)) (wrap cs l)) = Some s.
Proof. exact context_transparent. Qed.
Print Assumptions C09_context_transparent.

(* a context that gives the command a function of its own hides everything outside it *)
Theorem C09_boundary_contexts :
  forall outer c inner l, ctx_boundary c = true -> wrap (outer ++ c :: inner) l = wrap inner l.
Proof. exact wrap_outer_irrelevant. Qed.
Print Assumptions C09_boundary_contexts.

(* an if/else chain compiles to several lines, so whatever encloses it gets a function of its own *)
Theorem C09_chain_contexts :
  forall outer c inner l, ctx_cuts c = true -> wrap (outer ++ c :: inner) l = wrap (c :: inner) l.
Proof. exact wrap_outer_cut. Qed.
Print Assumptions C09_chain_contexts.

(* source text to output line, end to end *)
Theorem C09_literal_reaches_output :
  forall pr q raw k cs s line,
    forallb ctx_wf cs = true -> carrier_wf k = true -> text_ok k s = true ->
    decode_any q raw = Ok s -> compile_lit pr q raw k cs = Ok line ->
    exists l, emit pr k s = Ok l /\ line = ctx_prefix cs ++ l /\
              read k (skipn (length (ctx_prefix cs)) line) = Some s.
Proof. exact literal_reaches_output. Qed.
Print Assumptions C09_literal_reaches_output.

(* --- the pinned tree (before the fixes) ------------------------------------------------- *)
(* lexer.py:1012 `.replace("run execute ", "")`:  else { say "please run execute now"; } *)
Theorem C09_refuted_if_else :
  exists s l, emit (fun _ => true) KSay s = Ok l /\
              else_pinned VAR0 l <> w_prefix (IF_ELSE_ VAR0) ++ l /\
              read KSay (skipn (length (w_prefix (IF_ELSE_ VAR0))) (else_pinned VAR0 l)) <> Some s.
Proof. exact pinned_else_refuted. Qed.
Print Assumptions C09_refuted_if_else.

(* var_operation.py:516 `.replace("run execute store", "store")`:  $x = $y = say "a run execute store b"; *)
Theorem C09_refuted_assign :
  exists s l, emit (fun _ => true) KSay s = Ok l /\
              assign2_pinned (lit "$x") VAR0 (lit "$y") VAR0 l <>
              wrap [CAssign2 (lit "$x") VAR0 (lit "$y") VAR0] l.
Proof. exact pinned_assign2_refuted. Qed.
Print Assumptions C09_refuted_assign.

(* what does hold on the pinned tree: assembled text in which the searched words do not occur *)
Theorem C09_partial :
  forall var l,
    occurs RUN_EXECUTE_ (w_prefix (IF_ELSE_ var) ++ l) = false ->
    else_pinned var l = w_prefix (IF_ELSE_ var) ++ l.
Proof. exact pinned_else_partial. Qed.
Print Assumptions C09_partial.

(* --- non-vacuity ------------------------------------------------------------------------ *)
(* else { execute as @a run tellraw @s {"text":"<e-acute, U+1F600, quote, run execute >"} }
   inside a function: hypotheses hold, and the line computes to the merged prefix + payload. *)
Example C09_nonvacuous :
  let cs := [CFunc; CElse VAR0; CExec (lit "as @a")] in
  let k := KJson (lit "tellraw @s {""text"":") (lit "}") in
  let s := [233; 128512; 34] ++ lit " run execute " in
  forallb ctx_wf cs = true /\ carrier_wf k = true /\ text_ok k s = true /\
  compile_lit (fun _ => true) 34 (py_quote 34 s) k cs =
  Ok (lit "execute if score __if_else__ __variable__ matches 0 as @a run tellraw @s {""text"":""\u00e9\ud83d\ude00\"" run execute ""}").
Proof. vm_compute. repeat split. Qed.
