(* Property C09 — string, JSON and NBT literals reach the output unmodified in every context.
   Only statements, closed by `exact`, each followed by Print Assumptions.
   Strings are lists of code points (Z).  Alphabets: JSON carriers — all Unicode scalar values
   (0..0x10FFFF without the surrogates D800..DFFF; astral code points travel as \uD8xx\uDCxx
   pairs and are joined by the reader); NBT — all code points 0..0x10FFFF; say — anything
   without a line feed.  `pr` is Python's str.isprintable on non-ASCII code points (a Unicode
   table): the theorems hold for EVERY such table.
   The model is the behaviour WITH fixes/C09-if-else-junction.patch, C09-assign-junction.patch
   and C09-bad-escape.patch; the pinned behaviour is `*_pinned` and is refuted below.
   `nm` is Python's Unicode name table (unicodedata, used by \N{name}): the theorems hold for EVERY table. *)
From Coq Require Import ZArith Bool String Ascii List.
From JMCV Require Proofs.LitMacro.
From JMCV Require Import Model.Lit Model.LitFmtRead Proofs.LitBase Proofs.LitJson Proofs.LitNbt Proofs.LitPy Proofs.LitSpell
  Proofs.LitFmt Proofs.LitFmtRead Proofs.LitFmtScalar Proofs.LitFmtStrict Proofs.LitCtx.
Import ListNotations.
Open Scope Z_scope.

(* --- source text -> value ------------------------------------------------------------- *)
(* Text with no backslash, no line feed and not the delimiting quote is its own value. *)
Theorem C09_decode_plain :
  forall nm q raw, forallb (plain_char q) raw = true -> decode nm q raw = Ok raw.
Proof. exact (fun nm => decode_plain nm Diag). Qed.
Print Assumptions C09_decode_plain.

(* Every value (any code points) has a spelling, and decoding inverts it. *)
Theorem C09_decode_escaped :
  forall nm q s, q = 34 \/ q = 39 -> decode nm q (py_quote q s) = Ok s.
Proof. exact (fun nm => decode_py_quote nm Diag). Qed.
Print Assumptions C09_decode_escaped.

(* (round 4) EVERY spelling: a literal written item by item -- the character itself (any code point: Latin-1, BMP,
   combining marks, astral), the one-letter escapes (backslash, both quotes, a b f n r t v), an escape Python does not know (kept with its backslash),
   backslash-newline, \o \oo \ooo, \xhh \uhhhh \Uhhhhhhhh in either case, \N{name} -- in any order and mix decodes
   to the concatenation of what the items denote, code point by code point.  (sp_all_ok: a raw item is not the quote,
   a backslash or a line feed; hexadecimal values are at most 0x10FFFF; a short octal escape is not followed by an
   octal digit; the name is in the table.) *)
Theorem C09_decode_spelling :
  forall nm q l, q = 34 \/ q = 39 -> sp_all_ok q nm l = true -> decode nm q (sp_src l) = Ok (sp_val nm l).
Proof. exact (fun nm => decode_spelling nm Diag). Qed.
Print Assumptions C09_decode_spelling.

(* every code point sequence has a spelling, and two spellings of one value are interchangeable *)
Theorem C09_spelling_exists :
  forall nm q s, q = 34 \/ q = 39 -> exists l, sp_all_ok q nm l = true /\ sp_val nm l = s.
Proof. exact spelling_exists. Qed.
Print Assumptions C09_spelling_exists.

Theorem C09_spellings_agree :
  forall nm q l1 l2, q = 34 \/ q = 39 -> sp_all_ok q nm l1 = true -> sp_all_ok q nm l2 = true ->
    sp_val nm l1 = sp_val nm l2 -> decode nm q (sp_src l1) = decode nm q (sp_src l2).
Proof. exact decode_spellings_agree. Qed.
Print Assumptions C09_spellings_agree.

(* Backtick (multi-line) strings: white space, line feed, TEXT, line feed, white space -- any
   number of lines of text without backslash and backtick is taken as it is. *)
Theorem C09_decode_backtick :
  forall nm w1 mid w2,
    forallb py_space w1 = true -> memz 10 w1 = false ->
    forallb py_space w2 = true -> memz 10 w2 = false ->
    forallb bt_plain_char mid = true ->
    decode_bt nm (w1 ++ 10 :: mid ++ 10 :: w2) = Ok mid.
Proof. exact decode_bt_plain. Qed.
Print Assumptions C09_decode_backtick.

(* pinned tree (re.match instead of a full match): text on the opening / closing line is
   silently dropped; with C09-backtick-edge-lines.patch it is refused *)
Theorem C09_refuted_backtick :
  forall nm, exists raw, decode_bt_pinned nm raw = Ok (lit "world") /\ decode_bt nm raw = Diag.
Proof. exact decode_bt_pinned_drops_text. Qed.
Print Assumptions C09_refuted_backtick.

(* No literal makes a non-JMC exception escape (after C09-bad-escape.patch) ... *)
Theorem C09_decode_no_crash : forall nm q raw, decode_any nm q raw <> Crash.
Proof. exact decode_any_not_crash. Qed.
Print Assumptions C09_decode_no_crash.

(* ... which is false on the pinned tree: say "\x"; *)
Theorem C09_refuted_escape : forall nm, exists raw, decode_pinned nm 34 raw = Crash /\ decode nm 34 raw = Diag.
Proof. exact decode_pinned_crashes. Qed.
Print Assumptions C09_refuted_escape.

(* --- emitters against the readers ------------------------------------------------------- *)
Theorem C09_roundtrip_json :
  forall s, forallb scalarb s = true -> json_unquote (json_emit s) = Some s.
Proof. exact json_roundtrip. Qed.
Print Assumptions C09_roundtrip_json.

(* the JSON text is printable ASCII: one line, independent of the file encoding *)
Theorem C09_json_ascii :
  forall s, Forall (fun c => 0 <= c < 1114112) s -> Forall (fun x => 32 <= x <= 126) (json_emit s).
Proof. exact json_emit_ascii. Qed.
Print Assumptions C09_json_ascii.

(* SNBT of Minecraft 1.21.5+ : every code point, every isprintable table *)
Theorem C09_roundtrip_nbt :
  forall pr s, forallb cp_ok s = true -> nbt_unquote (nbt_emit pr s) = Some s.
Proof. exact nbt_roundtrip. Qed.
Print Assumptions C09_roundtrip_nbt.

(* SNBT of Minecraft <= 1.21.4 (only \\ and the closing quote may be escaped): holds for text
   made of printable characters; control / non-printable characters are written as \n \xhh
   \uhhhh, which those versions reject -- see C09_nbt_legacy_refuted *)
Theorem C09_roundtrip_nbt_legacy_partial :
  forall pr s, forallb (nbt_plain pr) s = true -> nbt_unquote_legacy (nbt_emit pr s) = Some s.
Proof. exact nbt_roundtrip_legacy. Qed.
Print Assumptions C09_roundtrip_nbt_legacy_partial.

Theorem C09_nbt_legacy_refuted :
  exists s, forallb cp_ok s = true /\ nbt_unquote_legacy (nbt_emit (fun _ => true) s) = None.
Proof. exact nbt_legacy_refuted. Qed.
Print Assumptions C09_nbt_legacy_refuted.

Theorem C09_nbt_one_line :
  forall pr s, Forall (fun x => x <> 10 /\ x <> 13) (nbt_emit pr s).
Proof. exact nbt_emit_no_newline. Qed.
Print Assumptions C09_nbt_one_line.

(* say: the text itself, and it holds neither LF nor CR (otherwise compilation is refused) *)
Theorem C09_say_raw :
  forall pr s l, emit pr KSay s = Ok l -> l = SAY_ ++ s /\ Forall (fun x => x <> 10 /\ x <> 13) s.
Proof. exact emit_say. Qed.
Print Assumptions C09_say_raw.

(* every carrier: reading the emitted command gives the value *)
Theorem C09_carrier_roundtrip :
  forall pr k s l, text_ok k s = true -> emit pr k s = Ok l -> read k l = Some s.
Proof. exact read_emit. Qed.
Print Assumptions C09_carrier_roundtrip.

(* --- formatted text (Text.tellraw / title / subtitle / actionbar, printf, ...) -------------------------- *)
(* (round 4) For every literal and every mix of `&x` codes, `&&` and `&<..>` brackets (colours, styles, selector
   and score components): the text fields of the emitted components, in order, are exactly the text of the literal
   without its codes -- no run of text, blank or not, at the start, between two codes, before a selector / score
   component or at the end, is dropped, duplicated or reordered. *)
Theorem C09_formatted_text_preserved :
  forall strict var s cs, fmt_parse strict var s = Ok cs -> comp_texts cs = fmt_plain FNorm s.
Proof. exact fmt_text_preserved. Qed.
Print Assumptions C09_formatted_text_preserved.

(* ... where a run without '&' stands for itself *)
Theorem C09_formatted_run :
  forall run rest, memz 38 run = false -> fmt_plain FNorm (run ++ rest) = run ++ fmt_plain FNorm rest.
Proof. exact fmt_plain_norm_run. Qed.
Print Assumptions C09_formatted_run.

(* text without the formatting sign is emitted as one JSON string *)
Theorem C09_formatted_plain :
  forall strict var ni s, memz 38 s = false -> fmt_emit strict var ni s = Ok (json_emit s).
Proof. exact fmt_emit_plain. Qed.
Print Assumptions C09_formatted_plain.

(* The component list rendered by FormattedText.__str__ (a bare string, one object, or a list that starts with ""),
   read back token by token by the JSON reader jt_read (strings through the RFC 8259 reader; a string is displayed
   when it is the value of the key "text" or stands on its own), displays the texts of the components in order. *)
Theorem C09_formatted_render_read :
  forall ni cs, forallb comp_scalar cs = true -> jt_read (fmt_render ni cs) = Some (comp_texts cs).
Proof. exact render_read. Qed.
Print Assumptions C09_formatted_render_read.

(* End to end, for every literal of Unicode text and every objective name: the JSON text emitted for the formatted
   literal displays exactly the literal's text without its codes. *)
Theorem C09_formatted_displays :
  forall strict var ni s j, forallb scalarb var = true -> forallb scalarb s = true ->
    fmt_emit strict var ni s = Ok j -> jt_read j = Some (fmt_plain FNorm s).
Proof. exact fmt_emit_displays. Qed.
Print Assumptions C09_formatted_displays.

(* ... and (with fixes/C09-unknown-format-code.patch) what `fmt_plain` takes out of the text are format codes only:
   a literal in which `&` is followed by anything else is refused *)
Theorem C09_formatted_strict :
  forall var s cs, fmt_parse true var s = Ok cs -> fmt_codes_known FNorm s = true.
Proof. exact parse_strict. Qed.
Print Assumptions C09_formatted_strict.

(* the tree before that patch: Text.tellraw(@a, "Tom & Jerry") is accepted and displays "Tom Jerry" *)
Theorem C09_refuted_unknown_code :
  exists s cs, fmt_parse false (lit "__variable__") s = Ok cs /\ fmt_codes_known FNorm s = false /\
               comp_texts cs = lit "Tom Jerry" /\ s = lit "Tom & Jerry".
Proof. exact parse_lenient_refuted. Qed.
Print Assumptions C09_refuted_unknown_code.

(* --- contexts --------------------------------------------------------------------------- *)
(* For every stack of contexts (any nesting depth, outermost first), every carrier and every
   value: the line is a prefix that depends on the contexts only, followed by the command text
   unchanged, and reading the command behind that prefix gives the value. *)
Theorem C09_context_transparent :
  forall pr cs k s l,
    forallb ctx_wf cs = true -> carrier_wf k = true -> text_ok k s = true ->
    emit pr k s = Ok l ->
    wrap cs l = ctx_prefix cs ++ l /\
    read k (skipn (length (ctx_prefix cs)) (wrap cs l)) = Some s.
Proof. exact context_transparent. Qed.
Print Assumptions C09_context_transparent.

(* a context that gives the command a function of its own hides everything outside it *)
Theorem C09_boundary_contexts :
  forall outer c inner l, ctx_boundary c = true -> wrap (outer ++ c :: inner) l = wrap inner l.
Proof. exact wrap_outer_irrelevant. Qed.
Print Assumptions C09_boundary_contexts.

(* an if/else chain compiles to several lines, so whatever encloses it gets a function of its own *)
Theorem C09_chain_contexts :
  forall outer c inner l, ctx_cuts c = true -> wrap (outer ++ c :: inner) l = wrap (c :: inner) l.
Proof. exact wrap_outer_cut. Qed.
Print Assumptions C09_chain_contexts.

(* source text to output line, end to end *)
Theorem C09_literal_reaches_output :
  forall nm pr q raw k cs s line,
    forallb ctx_wf cs = true -> carrier_wf k = true -> text_ok k s = true ->
    decode_any nm q raw = Ok s -> compile_lit nm pr q raw k cs = Ok line ->
    exists l, emit pr k s = Ok l /\ line = ctx_prefix cs ++ l /\
              read k (skipn (length (ctx_prefix cs)) line) = Some s.
Proof. exact literal_reaches_output. Qed.
Print Assumptions C09_literal_reaches_output.

(* --- the pinned tree (before the fixes) ------------------------------------------------- *)
(* lexer.py:1012 `.replace("run execute ", "")`:  else { say "please run execute now"; } *)
Theorem C09_refuted_if_else :
  exists s l, emit (fun _ => true) KSay s = Ok l /\
              else_pinned VAR0 l <> w_prefix (IF_ELSE_ VAR0) ++ l /\
              read KSay (skipn (length (w_prefix (IF_ELSE_ VAR0))) (else_pinned VAR0 l)) <> Some s.
Proof. exact pinned_else_refuted. Qed.
Print Assumptions C09_refuted_if_else.

(* var_operation.py:516 `.replace("run execute store", "store")`:  $x = $y = say "a run execute store b"; *)
Theorem C09_refuted_assign :
  exists s l, emit (fun _ => true) KSay s = Ok l /\
              assign2_pinned (lit "$x") VAR0 (lit "$y") VAR0 l <>
              wrap [CAssign2 (lit "$x") VAR0 (lit "$y") VAR0] l.
Proof. exact pinned_assign2_refuted. Qed.
Print Assumptions C09_refuted_assign.

(* what does hold on the pinned tree: assembled text in which the searched words do not occur *)
Theorem C09_partial :
  forall var l,
    occurs RUN_EXECUTE_ (w_prefix (IF_ELSE_ var) ++ l) = false ->
    else_pinned var l = w_prefix (IF_ELSE_ var) ++ l.
Proof. exact pinned_else_partial. Qed.
Print Assumptions C09_partial.

(* --- non-vacuity ------------------------------------------------------------------------ *)
(* else { execute as @a run tellraw @s {"text":"<e-acute, U+1F600, quote, run execute >"} }
   inside a function: hypotheses hold, and the line computes to the merged prefix + payload. *)
Example C09_nonvacuous :
  let cs := [CFunc; CElse VAR0; CExec (lit "as @a")] in
  let k := KJson (lit "tellraw @s {""text"":") (lit "}") in
  let s := [233; 128512; 34] ++ lit " run execute " in
  forallb ctx_wf cs = true /\ carrier_wf k = true /\ text_ok k s = true /\
  compile_lit (fun _ => None) (fun _ => true) 34 (py_quote 34 s) k cs =
  Ok (lit "execute if score __if_else__ __variable__ matches 0 as @a run tellraw @s {""text"":""\u00e9\ud83d\ude00\"" run execute ""}").
Proof. vm_compute. repeat split. Qed.

(* a spelling that mixes raw non-ASCII text (e-acute, U+1F600) with five escape forms: backslash-quote, \xeb, \u8868,
   \N{BULLET} and octal \101 (the hypotheses of C09_decode_spelling hold; the literal decodes to the text the user meant) *)
Example C09_spelling_nonvacuous :
  let nm := fun n => if str_eqb n (lit "BULLET") then Some 8226 else None in
  let l := [SpRaw 67; SpRaw 97; SpRaw 102; SpRaw 233; SpRaw 32; SpSimple 34; SpRaw 90; SpRaw 111; SpHex (lit "eb"); SpSimple 34;
            SpRaw 32; SpHex (lit "8868"); SpName (lit "BULLET"); SpOct (lit "101"); SpRaw 128512] in
  sp_all_ok 34 nm l = true /\
  sp_src l = [67; 97; 102; 233; 32; 92; 34; 90; 111] ++ lit "\xeb\""" ++ [32] ++ lit "\u8868\N{BULLET}\101" ++ [128512] /\
  decode nm 34 (sp_src l) = Ok [67; 97; 102; 233; 32; 34; 90; 111; 235; 34; 32; 34920; 8226; 65; 128512].
Proof. vm_compute. repeat split. Qed.

(* formatted text: a blank run before a selector component and one at the end are both displayed *)
Example C09_formatted_nonvacuous :
  fmt_emit true (lit "__variable__") false (lit "&c  &<@s>  ") =
  Ok (lit "["""",{""text"":""  "",""color"":""red""},{""selector"":""@s"",""color"":""red""},{""text"":""  "",""color"":""red""}]") /\
  jt_read (lit "["""",{""text"":""  "",""color"":""red""},{""selector"":""@s"",""color"":""red""},{""text"":""  "",""color"":""red""}]")
  = Some (lit "    ").
Proof. vm_compute. split; reflexivity. Qed.

(* ---- round 5: the header's macro table.  A string literal (STRING token; likewise a bracket token that is re-tokenised
   later) goes through Tokenizer.append_token, which consults header.macros for KEYWORD tokens only: for EVERY macro table
   - also one that defines the literal's whole text as a macro name - the token is pushed with its text unchanged, and the
   literal-to-output function composed with that step is the one of the theorems above. *)
Theorem C09_string_token_ignores_macros :
  forall mt mt' ty st, ty <> JMCV.Model.Layout.KEYWORD ->
    JMCV.Model.Layout.append_token mt ty st = JMCV.Model.Layout.append_token mt' ty st.
Proof. exact JMCV.Proofs.LitMacro.non_keyword_token_ignores_macros. Qed.
Print Assumptions C09_string_token_ignores_macros.

Theorem C09_literal_macro_independent :
  forall mt st nm pr q raw k cs,
    JMCV.Proofs.LitMacro.compile_lit_hdr mt st nm pr q raw k cs = compile_lit nm pr q raw k cs.
Proof. exact JMCV.Proofs.LitMacro.compile_lit_macro_independent. Qed.
Print Assumptions C09_literal_macro_independent.
