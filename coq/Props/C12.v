(* Property C12 — compilation is a pure function of its inputs (no history or hash-seed effect).
   Only statements, closed by `exact`, each followed by Print Assumptions; Examples of non-vacuity.

   Model (Model/Proc.v): the process state G gives a value to every field (Header fields, the
   DataPack name attributes, the JMC.python environment).  An entry point is a list of steps —
   assignments from a constant / from the input / from the input and a previous value, guards,
   and compiler phases `Run` which are ARBITRARY functions of the input and of the fields they
   can see.  The step lists and the field universe are REGENERATED from the source on every run
   (harness/translate_proc.py -> coq/Gen/C12/ProcTable.v) and coq/Gen/C12/Obligations.v
   instantiates the theorem below with them.

   PARTIAL in one respect, by construction: that the compiler reads no process state outside the
   regenerated universe U is the modelling assumption; it is validated on every run by the pair
   experiment and the global-state diff of harness/c12.py, not proved. *)
From Coq Require Import String List Bool Permutation.
From JMCV Require Import Model.Proc Proofs.Proc Proofs.ProcExact.
Import ListNotations.

(* If every field a compiler phase can see has been (re)assigned from the current input before
   the phase runs (the decidable predicate `history_free` on the step list), then for EVERY
   compiler (world W: any phases, guards, conditions, values), every history of earlier compiles
   through any entry points with any inputs — successful, failing half-way, anything — every
   initial process state and every input, compiling gives the output it gives in the initial state. *)
Theorem C12_history_free :
  forall (V I O : Type) (U : list field) (W : world V I O) (steps : list step),
    history_free U steps = true ->
    forall (h : list (list step * I)) (g0 : G V) (i : I),
      output U W steps i (run_history U W h g0) = output U W steps i g0.
Proof. exact history_free_sound. Qed.
Print Assumptions C12_history_free.

(* in fact the output does not depend on the process state at all *)
Theorem C12_state_independent :
  forall (V I O : Type) (U : list field) (W : world V I O) (steps : list step) (i : I) (g g' : G V),
    history_free U steps = true -> output U W steps i g = output U W steps i g'.
Proof. exact history_free_any_state. Qed.
Print Assumptions C12_state_independent.

(* ---------------------------------------------------------------- strengthening round 4
   AMBIENT state.  The working directory, os.environ, sys.path, sys.modules, signal handlers, the locale, the warnings filters and the
   logging configuration (`OS name` fields) are visible to every phase and assigned by none: they are part of the INPUT as long as every
   compile leaves them as it found them.  If the step list is history-free starting from the ambient set A, then for every compiler, every
   initial state and every history ALONG WHICH EVERY COMPILE (successful or failing) PRESERVES THE AMBIENT FIELDS — what the sequence runner
   observes by snapshotting them before and after every compile — the output is the output in the initial state. *)
Theorem C12_ambient_preserved :
  forall (V I O : Type) (U : list field) (W : world V I O) (A : list field) (steps : list step),
    history_free_from A U steps = true ->
    forall (h : list (list step * I)) (g0 : G V) (i : I),
      preserves_along U W A h g0 ->
      output U W steps i (run_history U W h g0) = output U W steps i g0.
Proof. exact ambient_sound. Qed.
Print Assumptions C12_ambient_preserved.

(* the output depends on the process state through the ambient fields only *)
Theorem C12_ambient_only :
  forall (V I O : Type) (U : list field) (W : world V I O) (A : list field) (steps : list step) (i : I) (g g' : G V),
    history_free_from A U steps = true -> (forall f, mem f A = true -> g f = g' f) ->
    output U W steps i g = output U W steps i g'.
Proof. exact ambient_any_state. Qed.
Print Assumptions C12_ambient_only.

(* NO READ OF A STALE VALUE.  For step lists of the shape the source has (assignments from constants / from the input, guards, phases) the
   decidable predicate says exactly: wherever a phase stands on the entry point's path, every field it can see is ambient or has been
   assigned earlier IN THE SAME COMPILE.  (The CLI path parses the header before it reads jmc.txt: a header phase that can see a jmc.txt
   name there reads the name the PREVIOUS compile left.) *)
Theorem C12_no_stale_read :
  forall (A U : list field) (steps : list step),
    simple steps = true ->
    (history_free_from A U steps = true <->
     forall pre n rs post, steps = pre ++ Run n rs :: post ->
       forall f, In f U -> visible rs f = true -> mem f A = true \/ exists s, In (Assign f s) pre).
Proof. exact history_free_iff_resets_before_reads. Qed.
Print Assumptions C12_no_stale_read.

(* EXACTNESS.  A step list the predicate rejects (some phase can see a field that this compile has not reset) is not history-free for
   every compiler: there is a compiler of the modelled class and two process states that agree on the ambient fields and give different
   outputs.  So the regenerated obligation is not merely sufficient: a stale read IS a leak for some compiler with these step lists. *)
Theorem C12_stale_read_leaks :
  forall (U A : list field) (steps : list step),
    no_assign_when steps = true -> history_free_from A U steps = false ->
    exists (g g' : G bool),
      (forall f, mem f A = true -> g f = g' f) /\
      output U taint_world steps tt g <> output U taint_world steps tt g'.
Proof. exact stale_read_leaks. Qed.
Print Assumptions C12_stale_read_leaks.

(* Hash seed.  An emission that walks a set is a fold over some enumeration of it; CPython's choice of
   enumeration depends on the string-hash seed.  The result is the same for all enumerations
   (permutations) when the steps commute on the set … *)
Theorem C12_set_order :
  forall (A S : Type) (stp : S -> A -> S) (l l' : list A),
    Permutation l l' -> commutes_on A S stp l -> forall s0, emit A S stp l s0 = emit A S stp l' s0.
Proof. exact emit_perm. Qed.
Print Assumptions C12_set_order.

(* … in particular when at most one element of the set is active (`for t in {…}: if t in json: json["type"] = t`) … *)
Theorem C12_set_order_one_active :
  forall (A S : Type) (stp : S -> A -> S) (l : list A) (active : A -> bool),
    (forall a s, active a = false -> stp s a = s) ->
    (forall a b, In a l -> In b l -> active a = true -> active b = true -> a = b) ->
    commutes_on A S stp l.
Proof. exact one_active_commutes. Qed.
Print Assumptions C12_set_order_one_active.

(* … and when the emission sorts first: sorted(<set>) is the same list for every enumeration. *)
Theorem C12_set_order_sorted :
  forall (A : Type) (leb : A -> A -> bool),
    (forall x y, leb x y = true \/ leb y x = true) ->
    (forall x y z, leb x y = true -> leb y z = true -> leb x z = true) ->
    (forall x y, leb x y = true -> leb y x = true -> x = y) ->
    forall l l', Permutation l l' -> isort A leb l = isort A leb l'.
Proof. exact isort_perm_invariant. Qed.
Print Assumptions C12_set_order_sorted.

(* ---------------------------------------------------------------- the pinned tree, non-vacuity *)
Open Scope string_scope.

(* read_cert of the unpatched tree: names default to the PREVIOUS compile's names (and are assigned
   only when the namespace folder exists).  The predicate is false and a concrete compiler shows the
   leak: A with VAR=vr, then B whose jmc.txt lacks VAR. *)
Example C12_unpatched_names_refuted :
  let U := [DF "var_name"] in
  let steps := [AssignWhen "namespace_folder.is_dir() or _test_file is not None" (DF "var_name") (SrcInputOrPrev (DF "var_name"));
                Run "lexer" RAll] in
  let W := mkWorld (fun _ => "") (fun _ (_ : option string) => "")
                   (fun _ i prev => match i with Some s => s | None => prev end)
                   (fun _ _ => true) (fun _ _ => @None string)
                   (fun _ _ view => (view, Some (String.concat "," view))) in
  let g0 : G string := fun _ => "__variable__" in
  history_free U steps = false /\
  output U W steps None g0 = Some "__variable__" /\
  output U W steps None (run_history U W [(steps, Some "vr")] g0) = Some "vr".
Proof. repeat split. Qed.

(* JMC.python of the unpatched tree: its globals are never reset *)
Example C12_unpatched_pyenv_refuted :
  let U := [PyEnv] in
  let steps := [Run "lexer" RAll] in
  let W := mkWorld (fun _ => 0) (fun _ (_ : unit) => 0) (fun _ _ prev => prev) (fun _ _ => true) (fun _ _ => @None nat)
                   (fun _ _ view => (map S view, Some (hd 0 view))) in
  let g0 : G nat := fun _ => 0 in
  history_free U steps = false /\
  output U W steps tt g0 = Some 0 /\
  output U W steps tt (run_history U W [(steps, tt)] g0) = Some 1.
Proof. repeat split. Qed.

(* the shapes of the repaired tree satisfy the predicate, in both orders of read_header / read_cert *)
Example C12_fixed_shapes_pass :
  let U := [HF "macros"; HF "envs"; DF "var_name"; PyEnv; PyPending] in
  let cert := [Guard "read_cert"; Assign (DF "var_name") SrcInput] in
  let lexer := [Assign PyEnv SrcConst; Assign PyPending SrcConst; Run "lexer" RAll; Run "build" RAll] in
  history_free U ([Assign (HF "envs") SrcInput; Assign (HF "macros") SrcConst; Run "read_header" RHeaderOnly] ++ cert ++ lexer) = true /\
  history_free U ([Assign (HF "macros") SrcConst; Assign (HF "envs") SrcInput] ++ cert ++ [Run "read_header" RHeaderOnly] ++ lexer) = true /\
  (* but not if read_header could see the names before read_cert assigned them *)
  history_free U ([Assign (HF "envs") SrcInput; Assign (HF "macros") SrcConst; Run "read_header" RAll] ++ cert ++ lexer) = false /\
  (* nor if Header.clear forgot a field *)
  history_free U ([Assign (HF "envs") SrcInput; Run "read_header" RHeaderOnly] ++ cert ++ lexer) = false.
Proof. repeat split. Qed.

(* set order: `for t in {a,b}: if t in json: type := t` depends on the enumeration when both are active *)
Example C12_two_active_order_matters :
  let stp := fun (s : string) (a : string) => if String.eqb a "score" || String.eqb a "keybind" then a else s in
  emit string string stp ["score"; "keybind"] "" <> emit string string stp ["keybind"; "score"] "".
Proof. cbn. discriminate. Qed.

(* round 4, class (g): a validity check run while the HEADER is parsed reads the jmc.txt names.  Harmless where jmc.txt is read first
   (JMCTestPack, PyJMC); on the CLI path the header is parsed before read_cert, so the check sees the names of the previous compile:
   the predicate is false there, and a concrete compiler (the check raises when PRIVATE starts with an overridden namespace) compiles the
   project in a fresh process and raises after a compile that left PRIVATE=foo/internal. *)
Example C12_header_reads_names_refuted :
  let U := [HF "namespace_overrides"; DF "private_name"] in
  let clear := [Assign (HF "namespace_overrides") SrcConst] in
  let cert := [Guard "read_cert"; Assign (DF "private_name") SrcInput] in
  let hdr := Run "read_header" (RHeaderPlus [DF "private_name"]) in
  let cli := (clear ++ [hdr] ++ cert ++ [Run "lexer" RAll])%list in
  let test := (clear ++ cert ++ [hdr] ++ [Run "lexer" RAll])%list in
  (* input = (does the header say `#override foo`, PRIVATE of jmc.txt); state values are strings *)
  let W := mkWorld (fun _ => "") (fun _ (i : bool * string) => snd i) (fun _ _ prev => prev) (fun _ _ => true) (fun _ _ => @None string)
                   (fun n i view => if String.eqb n "read_header"
                                    then (view, if fst i && String.eqb (nth 1 view "") "foo/internal" then Some "HeaderSyntaxException" else None)
                                    else (view, Some "compiled")) in
  let g0 : G string := fun _ => "__private__" in
  history_free U test = true /\ history_free U cli = false /\
  first_leak U cli [] = Some ("read_header", [DF "private_name"]) /\
  output U W cli (true, "foo/internal") g0 = Some "compiled" /\
  output U W cli (true, "foo/internal") (run_history U W [(cli, (true, "foo/internal"))] g0) = Some "HeaderSyntaxException" /\
  output U W cli (true, "__private__") (run_history U W [(cli, (false, "foo/internal"))] g0) = Some "HeaderSyntaxException".
Proof. repeat split. Qed.

(* round 4, class (h): JMC.pythonFile changes into the script's folder and restores the working directory only when the script returns.
   The step list is history-free from the ambient set, but a failing compile does not PRESERVE the ambient field: the premise of
   C12_ambient_preserved is false for that history and the next compile (relative target) gives another result. *)
Example C12_cwd_not_restored_refuted :
  let U := [OS "cwd"] in
  let A := [OS "cwd"] in
  let steps := [Run "lexer" RAll] in
  (* input = does the script raise; the phase resolves the target against the working directory *)
  let W := mkWorld (fun _ => "") (fun _ (_ : bool) => "") (fun _ _ prev => prev) (fun _ _ => true) (fun _ _ => @None string)
                   (fun _ raises view => if String.eqb (hd "" view) "/work"
                                         then (if raises then (["/work/scripts"], Some "JMCValueError") else (view, Some "compiled"))
                                         else (view, Some "JMCFileNotFoundError")) in
  let g0 : G string := fun _ => "/work" in
  history_free_from A U steps = true /\
  output U W steps false g0 = Some "compiled" /\
  preserves_along U W A [(steps, false)] g0 /\
  output U W steps false (run_history U W [(steps, false)] g0) = Some "compiled" /\
  ~ preserves_along U W A [(steps, true)] g0 /\
  output U W steps false (run_history U W [(steps, true)] g0) = Some "JMCFileNotFoundError".
Proof.
  repeat split.
  - intros f Hf. cbn. unfold upd. destruct (field_eqb (OS "cwd") f); reflexivity.
  - intros [H _]. specialize (H (OS "cwd") eq_refl). discriminate H.
Qed.
