(* Property C12 — compilation is a pure function of its inputs (no history or hash-seed effect).
   Only statements, closed by `exact`, each followed by Print Assumptions; Examples of non-vacuity.

   Model (Model/Proc.v): the process state G gives a value to every field (Header fields, the
   DataPack name attributes, the JMC.python environment).  An entry point is a list of steps —
   assignments from a constant / from the input / from the input and a previous value, guards,
   and compiler phases `Run` which are ARBITRARY functions of the input and of the fields they
   can see.  The step lists and the field universe are REGENERATED from the source on every run
   (harness/translate_proc.py -> coq/Gen/C12/ProcTable.v) and coq/Gen/C12/Obligations.v
   instantiates the theorem below with them.

   PARTIAL in one respect, by construction: that the compiler reads no process state outside the
   regenerated universe U is the modelling assumption; it is validated on every run by the pair
   experiment and the global-state diff of harness/c12.py, not proved. *)
From Coq Require Import String List Bool Permutation.
From JMCV Require Import Model.Proc Proofs.Proc.
Import ListNotations.

(* If every field a compiler phase can see has been (re)assigned from the current input before
   the phase runs (the decidable predicate `history_free` on the step list), then for EVERY
   compiler (world W: any phases, guards, conditions, values), every history of earlier compiles
   through any entry points with any inputs — successful, failing half-way, anything — every
   initial process state and every input, compiling gives the output it gives in the initial state. *)
Theorem C12_history_free :
  forall (V I O : Type) (U : list field) (W : world V I O) (steps : list step),
    history_free U steps = true ->
    forall (h : list (list step * I)) (g0 : G V) (i : I),
      output U W steps i (run_history U W h g0) = output U W steps i g0.
Proof. exact history_free_sound. Qed.
Print Assumptions C12_history_free.

(* in fact the output does not depend on the process state at all *)
Theorem C12_state_independent :
  forall (V I O : Type) (U : list field) (W : world V I O) (steps : list step) (i : I) (g g' : G V),
    history_free U steps = true -> output U W steps i g = output U W steps i g'.
Proof. exact history_free_any_state. Qed.
Print Assumptions C12_state_independent.

(* Hash seed.  An emission that walks a set is a fold over some enumeration of it; CPython's choice of
   enumeration depends on the string-hash seed.  The result is the same for all enumerations
   (permutations) when the steps commute on the set … *)
Theorem C12_set_order :
  forall (A S : Type) (stp : S -> A -> S) (l l' : list A),
    Permutation l l' -> commutes_on A S stp l -> forall s0, emit A S stp l s0 = emit A S stp l' s0.
Proof. exact emit_perm. Qed.
Print Assumptions C12_set_order.

(* … in particular when at most one element of the set is active (`for t in {…}: if t in json: json["type"] = t`) … *)
Theorem C12_set_order_one_active :
  forall (A S : Type) (stp : S -> A -> S) (l : list A) (active : A -> bool),
    (forall a s, active a = false -> stp s a = s) ->
    (forall a b, In a l -> In b l -> active a = true -> active b = true -> a = b) ->
    commutes_on A S stp l.
Proof. exact one_active_commutes. Qed.
Print Assumptions C12_set_order_one_active.

(* … and when the emission sorts first: sorted(<set>) is the same list for every enumeration. *)
Theorem C12_set_order_sorted :
  forall (A : Type) (leb : A -> A -> bool),
    (forall x y, leb x y = true \/ leb y x = true) ->
    (forall x y z, leb x y = true -> leb y z = true -> leb x z = true) ->
    (forall x y, leb x y = true -> leb y x = true -> x = y) ->
    forall l l', Permutation l l' -> isort A leb l = isort A leb l'.
Proof. exact isort_perm_invariant. Qed.
Print Assumptions C12_set_order_sorted.

(* ---------------------------------------------------------------- the pinned tree, non-vacuity *)
Open Scope string_scope.

(* read_cert of the unpatched tree: names default to the PREVIOUS compile's names (and are assigned
   only when the namespace folder exists).  The predicate is false and a concrete compiler shows the
   leak: A with VAR=vr, then B whose jmc.txt lacks VAR. *)
Example C12_unpatched_names_refuted :
  let U := [DF "var_name"] in
  let steps := [AssignWhen "namespace_folder.is_dir() or _test_file is not None" (DF "var_name") (SrcInputOrPrev (DF "var_name"));
                Run "lexer" RAll] in
  let W := mkWorld (fun _ => "") (fun _ (_ : option string) => "")
                   (fun _ i prev => match i with Some s => s | None => prev end)
                   (fun _ _ => true) (fun _ _ => @None string)
                   (fun _ _ view => (view, Some (String.concat "," view))) in
  let g0 : G string := fun _ => "__variable__" in
  history_free U steps = false /\
  output U W steps None g0 = Some "__variable__" /\
  output U W steps None (run_history U W [(steps, Some "vr")] g0) = Some "vr".
Proof. repeat split. Qed.

(* JMC.python of the unpatched tree: its globals are never reset *)
Example C12_unpatched_pyenv_refuted :
  let U := [PyEnv] in
  let steps := [Run "lexer" RAll] in
  let W := mkWorld (fun _ => 0) (fun _ (_ : unit) => 0) (fun _ _ prev => prev) (fun _ _ => true) (fun _ _ => @None nat)
                   (fun _ _ view => (map S view, Some (hd 0 view))) in
  let g0 : G nat := fun _ => 0 in
  history_free U steps = false /\
  output U W steps tt g0 = Some 0 /\
  output U W steps tt (run_history U W [(steps, tt)] g0) = Some 1.
Proof. repeat split. Qed.

(* the shapes of the repaired tree satisfy the predicate, in both orders of read_header / read_cert *)
Example C12_fixed_shapes_pass :
  let U := [HF "macros"; HF "envs"; DF "var_name"; PyEnv; PyPending] in
  let cert := [Guard "read_cert"; Assign (DF "var_name") SrcInput] in
  let lexer := [Assign PyEnv SrcConst; Assign PyPending SrcConst; Run "lexer" RAll; Run "build" RAll] in
  history_free U ([Assign (HF "envs") SrcInput; Assign (HF "macros") SrcConst; Run "read_header" RHeaderOnly] ++ cert ++ lexer) = true /\
  history_free U ([Assign (HF "macros") SrcConst; Assign (HF "envs") SrcInput] ++ cert ++ [Run "read_header" RHeaderOnly] ++ lexer) = true /\
  (* but not if read_header could see the names before read_cert assigned them *)
  history_free U ([Assign (HF "envs") SrcInput; Assign (HF "macros") SrcConst; Run "read_header" RAll] ++ cert ++ lexer) = false /\
  (* nor if Header.clear forgot a field *)
  history_free U ([Assign (HF "envs") SrcInput; Run "read_header" RHeaderOnly] ++ cert ++ lexer) = false.
Proof. repeat split. Qed.

(* set order: `for t in {a,b}: if t in json: type := t` depends on the enumeration when both are active *)
Example C12_two_active_order_matters :
  let stp := fun (s : string) (a : string) => if String.eqb a "score" || String.eqb a "keybind" then a else s in
  emit string string stp ["score"; "keybind"] "" <> emit string string stp ["keybind"; "score"] "".
Proof. cbn. discriminate. Qed.
