(* Property C06 — `switch` runs exactly the case whose label equals the switched score (the default body,
   where supported, when no label matches; otherwise nothing) under both lowering strategies — binary
   search tree and macro dispatch — and likewise Hardcode.switch.
   Only statements, closed by `exact`, each followed by Print Assumptions; non-vacuity Examples at the end.
   The model (Model/Switch.v) is of the tree with the three fixes/C06-*.patch applied; Model/SwitchRet.v
   (round 4, last part of this file) adds Minecraft's `return` to the semantics and the dispatcher as
   repaired by fixes/C06-return-in-macro-case.patch. *)
From Coq Require Import ZArith String List Bool.
From JMCV Require Import Base.Int32 Base.Dec MC.Syntax MC.Sem Model.Names Model.Switch Proofs.Switch
     Model.SwitchRet Proofs.SwitchRet.
Import ListNotations.
Open Scope Z_scope.

(* ------------------------------------------------------------------ binary search tree *)

(* For every start label, every number n >= 1 of cases, every abstract body (CExt: any state
   transformer that leaves the private copy __switch__N alone), every switched score x and every state
   (v = value of x, 0 when unset): the emitted call sequence terminates and its effect is the copy
   `__switch__N = x` followed by exactly body (v - start) when start <= v < start + n, and by nothing
   otherwise.  `guard1` is the guard of a one-case tree (switch and Hardcode.switch pass true). *)
Theorem C06_bst_exact :
  forall nm group x start n ext guard1 pc sid cmds fs pc' sid' ft env,
    parse_switch_bst nm group x (ext_bodies ext n) start guard1 pc sid = Ok (cmds, fs, pc', sid') ->
    guard1 = true \/ (2 <= n)%nat ->
    (forall f b, In (f, b) fs -> ft f = Some b) ->
    (forall j st, sc (env j st) (tmp_score nm sid) = sc st (tmp_score nm sid)) ->
    forall st,
      let v := rd (sc st) x in
      let st0 := fst (do_op st (tmp_score nm sid) OAssign x) in
      exists F, exec_list ft env F cmds st =
                Some (if (start <=? v) && (v <? start + Z.of_nat n)
                      then log (env (ext (Z.to_nat (v - start))) st0) (EExt (ext (Z.to_nat (v - start))))
                      else st0).
Proof. exact bst_exact_ext. Qed.
Print Assumptions C06_bst_exact.

(* The names of the tree's functions are pairwise distinct and use exactly the counts
   [pc, pc') of the group — so the hypothesis "ft holds the emitted functions" of C06_bst_exact is
   satisfiable (next theorem) and trees of successive switches cannot collide. *)
Theorem C06_bst_names_distinct :
  forall nm group x bodies start guard1 pc sid cmds fs pc' sid',
    parse_switch_bst nm group x bodies start guard1 pc sid = Ok (cmds, fs, pc', sid') ->
    NoDup (map fst fs) /\ pc < pc' /\
    (forall f b, In (f, b) fs -> exists k, f = priv_path nm group (z_dec k) /\ pc <= k < pc').
Proof. exact parse_switch_bst_names. Qed.
Print Assumptions C06_bst_names_distinct.

Theorem C06_bst_table_exists :
  forall nm group x bodies start guard1 pc sid cmds fs pc' sid',
    parse_switch_bst nm group x bodies start guard1 pc sid = Ok (cmds, fs, pc', sid') ->
    forall f b, In (f, b) fs -> fget_last fs f = Some b.
Proof. exact bst_table_exists. Qed.
Print Assumptions C06_bst_table_exists.

(* every `matches` range of the tree is a valid int32 range when the labels are int32 *)
Theorem C06_bst_wellformed :
  forall nm group x bodies start guard1 pc sid cmds fs pc' sid',
    parse_switch_bst nm group x bodies start guard1 pc sid = Ok (cmds, fs, pc', sid') ->
    in_int32 start -> in_int32 (start + Z.of_nat (length bodies) - 1) ->
    (forall body, In body bodies -> forallb wf_cmd body = true) ->
    forallb wf_cmd cmds = true /\ forall f b, In (f, b) fs -> forallb wf_cmd b = true.
Proof. exact parse_switch_bst_wf. Qed.
Print Assumptions C06_bst_wellformed.

(* ------------------------------------------------------------------ macro dispatch *)

(* For every finite list of labels (sparse, any order, repeated labels, with or without `default`
   entries) and abstract bodies: the dispatcher terminates in `macro_final`, i.e. (next theorem) the
   body selected at source level runs — the last case labelled v, else the last default, else
   nothing.  No condition on the bodies. *)
Theorem C06_macro_exact :
  forall nm group x labels ext pc cmds fs pc' ft env,
    parse_switch_macro nm group x (ext_cases labels ext) pc = (cmds, fs, pc') ->
    ft_agrees_macro nm group pc ft fs ->
    forall st,
      exists F, exec_list ft env F cmds st =
                Some (macro_final nm x (ext_cases labels ext) (ext_meaning env ext) st).
Proof. exact macro_exact_ext. Qed.
Print Assumptions C06_macro_exact.

Theorem C06_macro_reads_as_source :
  forall nm x cases B st,
    macro_final nm x cases B st =
    let hd := has_default cases in
    let st0 := if hd then set_sc st (found_score nm) 0 else st in
    let v := rd (sc st0) x in
    let st1 := mkState (sc st0) (supd (stg st0) (switch_key_path nm) (Some v)) (tr st0) in
    let s := run_selected B (map fst cases) v st1 in
    match find_last (fun l => label_eqb l (LNum v)) (map fst cases) with
    | Some _ => if hd then set_sc s (found_score nm) 1 else s
    | None => s
    end.
Proof. exact macro_final_select. Qed.
Print Assumptions C06_macro_reads_as_source.

Theorem C06_macro_table_exists :
  forall nm group pc fs, ft_agrees_macro nm group pc (fget_last fs) fs.
Proof. exact macro_table_exists. Qed.
Print Assumptions C06_macro_table_exists.

(* ------------------------------------------------------------------ strategy *)

Theorem C06_strategy :
  forall c, strategy_of c = if (16 <=? pack_format c) && negb (force_bst c) then Macro else Bst.
Proof. exact strategy_table. Qed.
Print Assumptions C06_strategy.

(* ------------------------------------------------------------------ the switch statement, either strategy *)

(* switch(): whenever the statement compiles — under the macro strategy: any entries; under the binary
   search strategy the labels are forced to be consecutive from the first one, without default —
   running the emitted commands runs the entry selected at source level (`run_selected`: the entry whose
   label equals the switched value; a default entry if none does; nothing otherwise), for arbitrary
   terminating bodies (nested switches included: B is their meaning). *)
Theorem C06_switch_exact :
  forall nm c x entries pc sid cmds fs pc' sid',
    compile_switch nm c x entries pc sid = Ok (cmds, fs, pc', sid') ->
    if is_macro c then
      forall ft env B,
        ft_agrees_macro nm SWITCH_CASE_NAME pc ft fs ->
        bodies_ok_macro (cases_of entries) ft env B ->
        forall st, runs ft env no_menv cmds st (macro_final nm x (cases_of entries) B st)
    else
      (exists start, map fst entries = map LNum (consec start (length entries))) /\
      forall ft env B,
        (forall f b, In (f, b) fs -> ft f = Some b) ->
        bodies_ok_bst (tmp_score nm sid) (map snd (cases_of entries)) ft env B ->
        forall st, runs ft env no_menv cmds st
                        (run_selected B (map fst entries) (rd (sc st) x)
                                      (fst (do_op st (tmp_score nm sid) OAssign x))).
Proof. exact compile_switch_exact. Qed.
Print Assumptions C06_switch_exact.

(* for consecutive labels the selected entry is v - start inside the range and none outside *)
Theorem C06_select_contiguous :
  forall e n v,
    select_entry (map LNum (consec e n)) v =
    if (e <=? v) && (v <? e + Z.of_nat n) then Some (Z.to_nat (v - e)) else None.
Proof. exact select_entry_consec. Qed.
Print Assumptions C06_select_contiguous.

(* ------------------------------------------------------------------ Hardcode.switch *)

Theorem C06_hardcode_exact :
  forall nm c x body b cnt pc sid cmds fs pc' sid',
    compile_hardcode nm c x body b cnt pc sid = Ok (cmds, fs, pc', sid') ->
    if is_macro c then
      forall ft env B,
        ft_agrees_macro nm HARDCODE_SWITCH_NAME pc ft fs ->
        bodies_ok_macro (hard_cases body b cnt) ft env B ->
        forall st, runs ft env no_menv cmds st (macro_final nm x (hard_cases body b cnt) B st)
    else
      forall ft env B,
        (forall f bd, In (f, bd) fs -> ft f = Some bd) ->
        bodies_ok_bst (tmp_score nm sid) (map snd (hard_cases body b cnt)) ft env B ->
        forall st, runs ft env no_menv cmds st
                        (run_selected B (map LNum (consec b (Z.to_nat (cnt - b + 1)))) (rd (sc st) x)
                                      (fst (do_op st (tmp_score nm sid) OAssign x))).
Proof. exact compile_hardcode_exact. Qed.
Print Assumptions C06_hardcode_exact.

(* its labels are begin_at .. count: body (v - begin_at), i.e. the body instantiated with index v *)
Theorem C06_hardcode_labels :
  forall body b cnt v,
    map fst (hard_cases body b cnt) = map LNum (consec b (Z.to_nat (cnt - b + 1))) /\
    select_entry (map LNum (consec b (Z.to_nat (cnt - b + 1)))) v =
    if (b <=? v) && (v <=? cnt) then Some (Z.to_nat (v - b)) else None.
Proof. exact hardcode_labels_select. Qed.
Print Assumptions C06_hardcode_labels.

(* ------------------------------------------------------------------ limits, stated as refutations *)

(* Without guard_single_case (the defect of the pinned tree for `switch` / Hardcode.switch, repaired by
   fixes/C06-single-case-guard.patch; Trigger.setup and RightClick.setup still call parse_switch this
   way and are outside this property) a one-case tree runs its body for every value. *)
Theorem C06_unguarded_single_case_refuted :
  let nm := default_names in
  let x := ("$x", "__variable__")%string in
  exists cmds fs pc' sid',
    parse_switch_bst nm SWITCH_CASE_NAME x [[CExt 0]] 3 false 0 0 = Ok (cmds, fs, pc', sid') /\
    forall v, exists st',
      exec_list (fget_last fs) (fun _ s => s) 5 cmds
                (mkState (fun k => if score_eqb k x then Some v else None) (fun _ => None) []) = Some st' /\
      tr st' = [EExt 0%nat].
Proof. exact unguarded_single_case_runs_always. Qed.
Print Assumptions C06_unguarded_single_case_refuted.

(* The frame hypothesis of C06_bst_exact cannot be dropped: a body that overwrites __switch__N
   (in JMC: a case body that re-enters the same switch statement by recursion) makes a second case run.
   C06_bst_exact is therefore `partial` in this sense: exact for bodies that preserve the copy. *)
Theorem C06_bst_reentrant_refuted :
  let nm := default_names in
  let x := ("$x", "__variable__")%string in
  let env := fun (j : nat) (s : state) => if Nat.eqb j 0 then set_sc s (tmp_score nm 0) 2 else s in
  exists cmds fs pc' sid',
    parse_switch_bst nm SWITCH_CASE_NAME x (ext_bodies (fun k => k) 2) 1 true 0 0 = Ok (cmds, fs, pc', sid') /\
    exists st',
      exec_list (fget_last fs) env 6 cmds
                (mkState (fun k => if score_eqb k x then Some 1 else None) (fun _ => None) []) = Some st' /\
      tr st' = [EExt 1%nat; EExt 0%nat].
Proof. exact bst_reentrant_runs_two. Qed.
Print Assumptions C06_bst_reentrant_refuted.

(* ------------------------------------------------------------------ non-vacuity *)

Definition ex_entries : list entry :=
  [(LNum 3, [ICmds [CSay "a"]; IBreak]); (LNum 4, [ICmds [CSay "b"]]); (LNum 5, [ICmds [CSay "c"]; IBreak; ICmds [CSay "c2"]])].

Definition ex_state (x : score) (v : option Z) : state :=
  mkState (fun k => if score_eqb k x then v else None) (fun _ => None) [].
Definition ex_trace (fs : list func) (cmds : list cmd) (x : score) (v : option Z) : option (list event) :=
  option_map (@tr) (exec_list (fget_last fs) (fun _ s => s) 9 cmds (ex_state x v)).

(* binary search (pack format 15): the statement compiles, five functions are emitted, and running the
   emitted commands from x = 2 .. 6 / unset says exactly what the matching case says *)
Example C06_nonvacuous_bst :
  let x := ("$x", "__variable__")%string in
  exists cmds fs pc' sid',
    compile_switch default_names (mkCfg 15 false) x ex_entries 0 0 = Ok (cmds, fs, pc', sid') /\
    length fs = 5%nat /\
    ex_trace fs cmds x (Some 2) = Some [] /\
    ex_trace fs cmds x (Some 3) = Some [ESay "a"] /\
    ex_trace fs cmds x (Some 4) = Some [ESay "b"] /\
    ex_trace fs cmds x (Some 5) = Some [ESay "c2"; ESay "c"] /\
    ex_trace fs cmds x (Some 6) = Some [] /\
    ex_trace fs cmds x None = Some [].
Proof. cbn zeta. eexists _, _, _, _. repeat split; reflexivity. Qed.

(* the repaired single case: guarded *)
Example C06_nonvacuous_single_case :
  let x := ("$x", "__variable__")%string in
  exists cmds fs pc' sid',
    compile_switch default_names (mkCfg 15 false) x [(LNum 3, [ICmds [CSay "a"]])] 0 0 = Ok (cmds, fs, pc', sid') /\
    ex_trace fs cmds x (Some 3) = Some [ESay "a"] /\
    ex_trace fs cmds x (Some 4) = Some [] /\
    ex_trace fs cmds x None = Some [].
Proof. cbn zeta. eexists _, _, _, _. repeat split; reflexivity. Qed.

(* macro dispatch (pack format 48): sparse labels in any order and a default in the middle *)
Example C06_nonvacuous_macro :
  let x := ("@s", "obj")%string in
  let entries := [(LNum 7, [ICmds [CSay "seven"]; IBreak]); (LDefault, [ICmds [CSay "dflt"]]);
                  (LNum (-2), [ICmds [CSay "minus two"]])] in
  exists cmds fs pc' sid',
    compile_switch default_names (mkCfg 48 false) x entries 0 0 = Ok (cmds, fs, pc', sid') /\
    ex_trace fs cmds x (Some 7) = Some [ESay "seven"] /\
    ex_trace fs cmds x (Some (-2)) = Some [ESay "minus two"] /\
    ex_trace fs cmds x (Some 0) = Some [ESay "dflt"] /\
    ex_trace fs cmds x None = Some [ESay "dflt"] /\
    (* the same statement is rejected when the binary search tree is forced *)
    compile_switch default_names (mkCfg 48 true) x entries 0 0 = Err ESyntax /\
    compile_switch default_names (mkCfg 15 false) x entries 0 0 = Err EVersionTooLow.
Proof. cbn zeta. eexists _, _, _, _. repeat split; reflexivity. Qed.

(* ================================================================== round 4: case bodies that `return`

   Model.SwitchRet.rexec extends MC.Sem by Minecraft's `return`: a line whose command starts with the
   word `return` / `$return` (alone or behind `execute … run`) ends the function it is written in;
   `rexec_list ft env F l st = Some (st', o)`: the lines l, run as one function body from st, stop in
   st' — o = Ret when a return stopped them, Next when the last line did.  A called function that
   returns comes back to the line after the call.  The MEANING OF A BODY is what calling a function
   made of its lines does (`exists o F, rexec_list … body st = Some (B k st, o)`): it may return at
   any line, conditionally, from any depth. *)

(* The extension is conservative: where no function of the pack and no line of the caller holds the
   word `return`, rexec is MC.Sem's exec (same fuel, same final state, never Ret). *)
Theorem C06_return_semantics_conservative :
  forall ft env,
    (forall f b, ft f = Some b -> body_has_return b = false) ->
    forall F l st,
      body_has_return l = false ->
      rexec_list ft env F l st = match exec_list ft env F l st with Some st' => Some (st', Next) | None => None end.
Proof. exact rexec_list_plain. Qed.
Print Assumptions C06_return_semantics_conservative.

(* The textual test of DataPack.isolate_return is sound for this semantics: lines without the word
   `return` never return, whatever functions they call. *)
Theorem C06_no_word_no_return :
  forall ft env me body,
    body_has_return body = false ->
    forall st st' o, (exists F, rseq (rexec ft env F me) body st = Some (st', o)) -> o = Next.
Proof. exact no_return_body. Qed.
Print Assumptions C06_no_word_no_return.

(* The repaired macro dispatcher, bodies that may return — FULL: for every finite list of labels
   (sparse, any order, repeats, default anywhere or absent) and EVERY body (any command list; B k is
   what calling it does): the dispatcher terminates, does not itself return, and ends in `macro_final`
   — by C06_macro_reads_as_source: the body selected at source level ran, the default body iff no
   label matched, and nothing else.  No condition on the bodies. *)
Theorem C06_macro_return_exact :
  forall nm group x cases pc ft env B,
    (forall k c, nth_error cases k = Some c ->
                 forall st, exists o F, rexec_list ft env F (snd c) st = Some (B k st, o)) ->
    forall cmds fs pc',
      parse_switch_macro_r nm group x cases pc = (cmds, fs, pc') ->
      ft_agrees_macro nm group pc ft fs ->
      forall st, exists F, rexec_list ft env F cmds st = Some (macro_final nm x cases B st, Next).
Proof. exact parse_switch_macro_r_exact. Qed.
Print Assumptions C06_macro_return_exact.

(* The binary-search tree, bodies that may return — same statement as C06_bst_exact with the meaning of
   a body taken as a function (a leaf holds the body and nothing else, so a return in it costs nothing);
   the frame hypothesis on __switch__N stays. *)
Theorem C06_bst_return_exact :
  forall nm group x bodies start guard1 pc sid cmds fs pc' sid' ft env B,
    parse_switch_bst nm group x bodies start guard1 pc sid = Ok (cmds, fs, pc', sid') ->
    guard1 = true \/ (2 <= length bodies)%nat ->
    (forall f b, In (f, b) fs -> ft f = Some b) ->
    (forall k body, nth_error bodies k = Some body ->
       forall st, (exists o F, rexec_list ft env F body st = Some (B k st, o)) /\
                  sc (B k st) (tmp_score nm sid) = sc st (tmp_score nm sid)) ->
    forall st, exists F,
      rexec_list ft env F cmds st =
      Some (bst_final B (tmp_score nm sid) x start (Z.of_nat (length bodies)) st, Next).
Proof. exact parse_switch_bst_rexact. Qed.
Print Assumptions C06_bst_return_exact.

(* switch(), either strategy, as repaired: whenever the statement compiles, running the emitted
   commands runs the entry selected at source level — for bodies that may return. *)
Theorem C06_switch_return_exact :
  forall nm c x entries pc sid cmds fs pc' sid',
    compile_switch_r nm c x entries pc sid = Ok (cmds, fs, pc', sid') ->
    if is_macro c then
      forall ft env B,
        ft_agrees_macro nm SWITCH_CASE_NAME pc ft fs ->
        bodies_ok_macro_r (cases_of entries) ft env B ->
        forall st, rruns ft env no_menv cmds st (macro_final nm x (cases_of entries) B st) Next
    else
      (exists start, map fst entries = map LNum (consec start (length entries))) /\
      forall ft env B,
        (forall f b, In (f, b) fs -> ft f = Some b) ->
        bodies_ok_bst_r (tmp_score nm sid) (map snd (cases_of entries)) ft env B ->
        forall st, rruns ft env no_menv cmds st
                         (run_selected B (map fst entries) (rd (sc st) x)
                                       (fst (do_op st (tmp_score nm sid) OAssign x))) Next.
Proof. exact compile_switch_r_exact. Qed.
Print Assumptions C06_switch_return_exact.

Theorem C06_hardcode_return_exact :
  forall nm c x body b cnt pc sid cmds fs pc' sid',
    compile_hardcode_r nm c x body b cnt pc sid = Ok (cmds, fs, pc', sid') ->
    if is_macro c then
      forall ft env B,
        ft_agrees_macro nm HARDCODE_SWITCH_NAME pc ft fs ->
        bodies_ok_macro_r (hard_cases body b cnt) ft env B ->
        forall st, rruns ft env no_menv cmds st (macro_final nm x (hard_cases body b cnt) B st) Next
    else
      forall ft env B,
        (forall f bd, In (f, bd) fs -> ft f = Some bd) ->
        bodies_ok_bst_r (tmp_score nm sid) (map snd (hard_cases body b cnt)) ft env B ->
        forall st, rruns ft env no_menv cmds st
                         (run_selected B (map LNum (consec b (Z.to_nat (cnt - b + 1)))) (rd (sc st) x)
                                       (fst (do_op st (tmp_score nm sid) OAssign x))) Next.
Proof. exact compile_hardcode_r_exact. Qed.
Print Assumptions C06_hardcode_return_exact.

(* Where no case body holds the word `return` the repaired lowering IS the lowering of Model.Switch, so
   the theorems of the first part (MC.Sem, no returns) speak about the same emitted code. *)
Theorem C06_repaired_lowering_conservative :
  forall nm c x entries pc sid,
    (forall e, In e entries -> body_has_return (body_of (snd e)) = false) ->
    compile_switch_r nm c x entries pc sid = compile_switch nm c x entries pc sid.
Proof. exact compile_switch_r_plain. Qed.
Print Assumptions C06_repaired_lowering_conservative.

(* The dispatcher of the tree before fixes/C06-return-in-macro-case.patch (flag line appended to the
   body): `switch ($x) { case 1: say "a"; return 1; default: say "d"; }` from $x = 1 runs the case
   AND the default. *)
Theorem C06_macro_return_unrepaired_refuted :
  let nm := default_names in
  let x := ("$x", "__variable__")%string in
  let cases := [(LNum 1, [CSay "a"; COther "return 1"]); (LDefault, [CSay "d"])] in
  exists cmds fs pc',
    parse_switch_macro nm SWITCH_CASE_NAME x cases 0 = (cmds, fs, pc') /\
    w_trace fs cmds 1 0 = Some ([ESay "d"; EOther "return 1"; ESay "a"], Next).
Proof. exact unrepaired_macro_return_runs_default. Qed.
Print Assumptions C06_macro_return_unrepaired_refuted.

(* Setting the flag BEFORE the body (no function of its own needed) is not a repair: a switch with
   default nested in the body resets the flag.  `switch ($x) { case 1: switch ($y) { case 1: say "i1";
   default: say "inner default"; } default: say "outer default"; }` from $x = 1, $y = 5 runs both
   defaults under that lowering (and only the inner one under the repaired lowering). *)
Theorem C06_flag_before_body_refuted :
  w_trace (snd (fst w_inner_ff) ++ snd (fst w_outer_ff)) (fst (fst w_outer_ff)) 1 5 =
  Some ([ESay "outer default"; ESay "inner default"], Next) /\
  w_trace (snd (fst w_inner_r) ++ snd (fst w_outer_r)) (fst (fst w_outer_r)) 1 5 =
  Some ([ESay "inner default"], Next).
Proof. exact (conj flag_before_body_runs_both_defaults flag_after_body_nested_witness). Qed.
Print Assumptions C06_flag_before_body_refuted.

(* non-vacuity: a switch with default whose cases return at every position, behind `execute if`, and not at
   all; the statement compiles (two isolated bodies, counts 1 and 2), and from $x = 1 .. 4 / unset exactly
   the selected entry runs ($y = 1 makes the conditional return of case 2 fire) *)
Example C06_nonvacuous_return :
  let x := ("$x", "__variable__")%string in
  let y := ("$y", "__variable__")%string in
  let entries := [(LNum 1, [ICmds [CSay "a"; COther "return 1"; CSay "dead"]]);
                  (LNum 2, [ICmds [CExecute [MIf true (Matches y (Exact 1))] (COther "return fail"); CSay "b"]]);
                  (LNum 3, [ICmds [CSay "c"]; IBreak]);
                  (LDefault, [ICmds [CSay "d"; COther "return run say x"]])] in
  exists cmds fs pc' sid',
    compile_switch_r default_names (mkCfg 48 false) x entries 0 0 = Ok (cmds, fs, pc', sid') /\
    pc' = 3 /\ length fs = 7%nat /\
    w_trace fs cmds 1 1 = Some ([EOther "return 1"; ESay "a"], Next) /\
    w_trace fs cmds 2 1 = Some ([EOther "return fail"], Next) /\
    w_trace fs cmds 2 0 = Some ([ESay "b"], Next) /\
    w_trace fs cmds 3 1 = Some ([ESay "c"], Next) /\
    w_trace fs cmds 4 1 = Some ([EOther "return run say x"; ESay "d"], Next).
Proof. cbn zeta. eexists _, _, _, _. split; [reflexivity|]. vm_compute. repeat split; reflexivity. Qed.
