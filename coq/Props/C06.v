(* Property C06 — `switch` runs exactly the case whose label equals the switched score (the default body,
   where supported, when no label matches; otherwise nothing) under both lowering strategies — binary
   search tree and macro dispatch — and likewise Hardcode.switch.
   Only statements, closed by `exact`, each followed by Print Assumptions; non-vacuity Examples at the end.
   The model (Model/Switch.v) is of the tree with the three fixes/C06-*.patch applied. *)
From Coq Require Import ZArith String List Bool.
From JMCV Require Import Base.Int32 Base.Dec MC.Syntax MC.Sem Model.Names Model.Switch Proofs.Switch.
Import ListNotations.
Open Scope Z_scope.

(* ------------------------------------------------------------------ binary search tree *)

(* For every start label, every number n >= 1 of cases, every abstract body (CExt: any state
   transformer that leaves the private copy __switch__N alone), every switched score x and every state
   (v = value of x, 0 when unset): the emitted call sequence terminates and its effect is the copy
   `__switch__N = x` followed by exactly body (v - start) when start <= v < start + n, and by nothing
   otherwise.  `guard1` is the guard of a one-case tree (switch and Hardcode.switch pass true). *)
Theorem C06_bst_exact :
  forall nm group x start n ext guard1 pc sid cmds fs pc' sid' ft env,
    parse_switch_bst nm group x (ext_bodies ext n) start guard1 pc sid = Ok (cmds, fs, pc', sid') ->
    guard1 = true \/ (2 <= n)%nat ->
    (forall f b, In (f, b) fs -> ft f = Some b) ->
    (forall j st, sc (env j st) (tmp_score nm sid) = sc st (tmp_score nm sid)) ->
    forall st,
      let v := rd (sc st) x in
      let st0 := fst (do_op st (tmp_score nm sid) OAssign x) in
      exists F, exec_list ft env F cmds st =
                Some (if (start <=? v) && (v <? start + Z.of_nat n)
                      then log (env (ext (Z.to_nat (v - start))) st0) (EExt (ext (Z.to_nat (v - start))))
                      else st0).
Proof. exact bst_exact_ext. Qed.
Print Assumptions C06_bst_exact.

(* The names of the tree's functions are pairwise distinct and use exactly the counts
   [pc, pc') of the group — so the hypothesis "ft holds the emitted functions" of C06_bst_exact is
   satisfiable (next theorem) and trees of successive switches cannot collide. *)
Theorem C06_bst_names_distinct :
  forall nm group x bodies start guard1 pc sid cmds fs pc' sid',
    parse_switch_bst nm group x bodies start guard1 pc sid = Ok (cmds, fs, pc', sid') ->
    NoDup (map fst fs) /\ pc < pc' /\
    (forall f b, In (f, b) fs -> exists k, f = priv_path nm group (z_dec k) /\ pc <= k < pc').
Proof. exact parse_switch_bst_names. Qed.
Print Assumptions C06_bst_names_distinct.

Theorem C06_bst_table_exists :
  forall nm group x bodies start guard1 pc sid cmds fs pc' sid',
    parse_switch_bst nm group x bodies start guard1 pc sid = Ok (cmds, fs, pc', sid') ->
    forall f b, In (f, b) fs -> fget_last fs f = Some b.
Proof. exact bst_table_exists. Qed.
Print Assumptions C06_bst_table_exists.

(* every `matches` range of the tree is a valid int32 range when the labels are int32 *)
Theorem C06_bst_wellformed :
  forall nm group x bodies start guard1 pc sid cmds fs pc' sid',
    parse_switch_bst nm group x bodies start guard1 pc sid = Ok (cmds, fs, pc', sid') ->
    in_int32 start -> in_int32 (start + Z.of_nat (length bodies) - 1) ->
    (forall body, In body bodies -> forallb wf_cmd body = true) ->
    forallb wf_cmd cmds = true /\ forall f b, In (f, b) fs -> forallb wf_cmd b = true.
Proof. exact parse_switch_bst_wf. Qed.
Print Assumptions C06_bst_wellformed.

(* ------------------------------------------------------------------ macro dispatch *)

(* For every finite list of labels (sparse, any order, repeated labels, with or without `default`
   entries) and abstract bodies: the dispatcher terminates in `macro_final`, i.e. (next theorem) the
   body selected at source level runs — the last case labelled v, else the last default, else
   nothing.  No condition on the bodies. *)
Theorem C06_macro_exact :
  forall nm group x labels ext pc cmds fs pc' ft env,
    parse_switch_macro nm group x (ext_cases labels ext) pc = (cmds, fs, pc') ->
    ft_agrees_macro nm group pc ft fs ->
    forall st,
      exists F, exec_list ft env F cmds st =
                Some (macro_final nm x (ext_cases labels ext) (ext_meaning env ext) st).
Proof. exact macro_exact_ext. Qed.
Print Assumptions C06_macro_exact.

Theorem C06_macro_reads_as_source :
  forall nm x cases B st,
    macro_final nm x cases B st =
    let hd := has_default cases in
    let st0 := if hd then set_sc st (found_score nm) 0 else st in
    let v := rd (sc st0) x in
    let st1 := mkState (sc st0) (supd (stg st0) (switch_key_path nm) (Some v)) (tr st0) in
    let s := run_selected B (map fst cases) v st1 in
    match find_last (fun l => label_eqb l (LNum v)) (map fst cases) with
    | Some _ => if hd then set_sc s (found_score nm) 1 else s
    | None => s
    end.
Proof. exact macro_final_select. Qed.
Print Assumptions C06_macro_reads_as_source.

Theorem C06_macro_table_exists :
  forall nm group pc fs, ft_agrees_macro nm group pc (fget_last fs) fs.
Proof. exact macro_table_exists. Qed.
Print Assumptions C06_macro_table_exists.

(* ------------------------------------------------------------------ strategy *)

Theorem C06_strategy :
  forall c, strategy_of c = if (16 <=? pack_format c) && negb (force_bst c) then Macro else Bst.
Proof. exact strategy_table. Qed.
Print Assumptions C06_strategy.

(* ------------------------------------------------------------------ the switch statement, either strategy *)

(* switch(): whenever the statement compiles — under the macro strategy: any entries; under the binary
   search strategy the labels are forced to be consecutive from the first one, without default —
   running the emitted commands runs the entry selected at source level (`run_selected`: the entry whose
   label equals the switched value; a default entry if none does; nothing otherwise), for arbitrary
   terminating bodies (nested switches included: B is their meaning). *)
Theorem C06_switch_exact :
  forall nm c x entries pc sid cmds fs pc' sid',
    compile_switch nm c x entries pc sid = Ok (cmds, fs, pc', sid') ->
    if is_macro c then
      forall ft env B,
        ft_agrees_macro nm SWITCH_CASE_NAME pc ft fs ->
        bodies_ok_macro (cases_of entries) ft env B ->
        forall st, runs ft env no_menv cmds st (macro_final nm x (cases_of entries) B st)
    else
      (exists start, map fst entries = map LNum (consec start (length entries))) /\
      forall ft env B,
        (forall f b, In (f, b) fs -> ft f = Some b) ->
        bodies_ok_bst (tmp_score nm sid) (map snd (cases_of entries)) ft env B ->
        forall st, runs ft env no_menv cmds st
                        (run_selected B (map fst entries) (rd (sc st) x)
                                      (fst (do_op st (tmp_score nm sid) OAssign x))).
Proof. exact compile_switch_exact. Qed.
Print Assumptions C06_switch_exact.

(* for consecutive labels the selected entry is v - start inside the range and none outside *)
Theorem C06_select_contiguous :
  forall e n v,
    select_entry (map LNum (consec e n)) v =
    if (e <=? v) && (v <? e + Z.of_nat n) then Some (Z.to_nat (v - e)) else None.
Proof. exact select_entry_consec. Qed.
Print Assumptions C06_select_contiguous.

(* ------------------------------------------------------------------ Hardcode.switch *)

Theorem C06_hardcode_exact :
  forall nm c x body b cnt pc sid cmds fs pc' sid',
    compile_hardcode nm c x body b cnt pc sid = Ok (cmds, fs, pc', sid') ->
    if is_macro c then
      forall ft env B,
        ft_agrees_macro nm HARDCODE_SWITCH_NAME pc ft fs ->
        bodies_ok_macro (hard_cases body b cnt) ft env B ->
        forall st, runs ft env no_menv cmds st (macro_final nm x (hard_cases body b cnt) B st)
    else
      forall ft env B,
        (forall f bd, In (f, bd) fs -> ft f = Some bd) ->
        bodies_ok_bst (tmp_score nm sid) (map snd (hard_cases body b cnt)) ft env B ->
        forall st, runs ft env no_menv cmds st
                        (run_selected B (map LNum (consec b (Z.to_nat (cnt - b + 1)))) (rd (sc st) x)
                                      (fst (do_op st (tmp_score nm sid) OAssign x))).
Proof. exact compile_hardcode_exact. Qed.
Print Assumptions C06_hardcode_exact.

(* its labels are begin_at .. count: body (v - begin_at), i.e. the body instantiated with index v *)
Theorem C06_hardcode_labels :
  forall body b cnt v,
    map fst (hard_cases body b cnt) = map LNum (consec b (Z.to_nat (cnt - b + 1))) /\
    select_entry (map LNum (consec b (Z.to_nat (cnt - b + 1)))) v =
    if (b <=? v) && (v <=? cnt) then Some (Z.to_nat (v - b)) else None.
Proof. exact hardcode_labels_select. Qed.
Print Assumptions C06_hardcode_labels.

(* ------------------------------------------------------------------ limits, stated as refutations *)

(* Without guard_single_case (the defect of the pinned tree for `switch` / Hardcode.switch, repaired by
   fixes/C06-single-case-guard.patch; Trigger.setup and RightClick.setup still call parse_switch this
   way and are outside this property) a one-case tree runs its body for every value. *)
Theorem C06_unguarded_single_case_refuted :
  let nm := default_names in
  let x := ("$x", "__variable__")%string in
  exists cmds fs pc' sid',
    parse_switch_bst nm SWITCH_CASE_NAME x [[CExt 0]] 3 false 0 0 = Ok (cmds, fs, pc', sid') /\
    forall v, exists st',
      exec_list (fget_last fs) (fun _ s => s) 5 cmds
                (mkState (fun k => if score_eqb k x then Some v else None) (fun _ => None) []) = Some st' /\
      tr st' = [EExt 0%nat].
Proof. exact unguarded_single_case_runs_always. Qed.
Print Assumptions C06_unguarded_single_case_refuted.

(* The frame hypothesis of C06_bst_exact cannot be dropped: a body that overwrites __switch__N
   (in JMC: a case body that re-enters the same switch statement by recursion) makes a second case run.
   C06_bst_exact is therefore `partial` in this sense: exact for bodies that preserve the copy. *)
Theorem C06_bst_reentrant_refuted :
  let nm := default_names in
  let x := ("$x", "__variable__")%string in
  let env := fun (j : nat) (s : state) => if Nat.eqb j 0 then set_sc s (tmp_score nm 0) 2 else s in
  exists cmds fs pc' sid',
    parse_switch_bst nm SWITCH_CASE_NAME x (ext_bodies (fun k => k) 2) 1 true 0 0 = Ok (cmds, fs, pc', sid') /\
    exists st',
      exec_list (fget_last fs) env 6 cmds
                (mkState (fun k => if score_eqb k x then Some 1 else None) (fun _ => None) []) = Some st' /\
      tr st' = [EExt 1%nat; EExt 0%nat].
Proof. exact bst_reentrant_runs_two. Qed.
Print Assumptions C06_bst_reentrant_refuted.

(* ------------------------------------------------------------------ non-vacuity *)

Definition ex_entries : list entry :=
  [(LNum 3, [ICmds [CSay "a"]; IBreak]); (LNum 4, [ICmds [CSay "b"]]); (LNum 5, [ICmds [CSay "c"]; IBreak; ICmds [CSay "c2"]])].

Definition ex_state (x : score) (v : option Z) : state :=
  mkState (fun k => if score_eqb k x then v else None) (fun _ => None) [].
Definition ex_trace (fs : list func) (cmds : list cmd) (x : score) (v : option Z) : option (list event) :=
  option_map (@tr) (exec_list (fget_last fs) (fun _ s => s) 9 cmds (ex_state x v)).

(* binary search (pack format 15): the statement compiles, five functions are emitted, and running the
   emitted commands from x = 2 .. 6 / unset says exactly what the matching case says *)
Example C06_nonvacuous_bst :
  let x := ("$x", "__variable__")%string in
  exists cmds fs pc' sid',
    compile_switch default_names (mkCfg 15 false) x ex_entries 0 0 = Ok (cmds, fs, pc', sid') /\
    length fs = 5%nat /\
    ex_trace fs cmds x (Some 2) = Some [] /\
    ex_trace fs cmds x (Some 3) = Some [ESay "a"] /\
    ex_trace fs cmds x (Some 4) = Some [ESay "b"] /\
    ex_trace fs cmds x (Some 5) = Some [ESay "c2"; ESay "c"] /\
    ex_trace fs cmds x (Some 6) = Some [] /\
    ex_trace fs cmds x None = Some [].
Proof. cbn zeta. eexists _, _, _, _. repeat split; reflexivity. Qed.

(* the repaired single case: guarded *)
Example C06_nonvacuous_single_case :
  let x := ("$x", "__variable__")%string in
  exists cmds fs pc' sid',
    compile_switch default_names (mkCfg 15 false) x [(LNum 3, [ICmds [CSay "a"]])] 0 0 = Ok (cmds, fs, pc', sid') /\
    ex_trace fs cmds x (Some 3) = Some [ESay "a"] /\
    ex_trace fs cmds x (Some 4) = Some [] /\
    ex_trace fs cmds x None = Some [].
Proof. cbn zeta. eexists _, _, _, _. repeat split; reflexivity. Qed.

(* macro dispatch (pack format 48): sparse labels in any order and a default in the middle *)
Example C06_nonvacuous_macro :
  let x := ("@s", "obj")%string in
  let entries := [(LNum 7, [ICmds [CSay "seven"]; IBreak]); (LDefault, [ICmds [CSay "dflt"]]);
                  (LNum (-2), [ICmds [CSay "minus two"]])] in
  exists cmds fs pc' sid',
    compile_switch default_names (mkCfg 48 false) x entries 0 0 = Ok (cmds, fs, pc', sid') /\
    ex_trace fs cmds x (Some 7) = Some [ESay "seven"] /\
    ex_trace fs cmds x (Some (-2)) = Some [ESay "minus two"] /\
    ex_trace fs cmds x (Some 0) = Some [ESay "dflt"] /\
    ex_trace fs cmds x None = Some [ESay "dflt"] /\
    (* the same statement is rejected when the binary search tree is forced *)
    compile_switch default_names (mkCfg 48 true) x entries 0 0 = Err ESyntax /\
    compile_switch default_names (mkCfg 15 false) x entries 0 0 = Err EVersionTooLow.
Proof. cbn zeta. eexists _, _, _, _. repeat split; reflexivity. Qed.
