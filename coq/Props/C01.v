(* Property C01 — scoreboard assignment statements compute what Minecraft arithmetic
   defines.  Only statements of theorems, closed by `exact`, and Print Assumptions. *)
From Coq Require Import ZArith String List Bool.
From JMCV Require Import Base.Int32 Base.Dec MC.Syntax MC.Sem Model.Names Model.VarOp Proofs.VarOp.
Import ListNotations.
Open Scope Z_scope.

(* For every names configuration, target, operator and operand (any int32 literal,
   $variable or objective:selector, including operand = target), every function
   table, every meaning of abstract sub-programs and every initial state in which
   the requested __int__ constants are materialised: the emitted commands are
   well-formed, run to completion, the target holds the operator's meaning, the
   other side of a swap holds the old target, the operand reads as before, and no
   other score, storage value or trace entry changes.
   Full strength: no literal is excluded (the INT_MIN case of += / -= was a defect of
   the pinned tree, repaired by a `fix:` commit; see known_findings.json "fixed"). *)
Theorem C01_varop_correct :
  forall ft env nm t o r cmds ints st,
    compile_varop nm t o r = Some (cmds, ints) ->
    lit_ok o r -> loaded nm st ints -> snd t <> int_name nm -> int32_state st ->
    forallb wf_cmd cmds = true /\
    exists st', exec_list ft env 3 cmds st = Some st' /\ post nm t o r st st'.
Proof. exact varop_correct. Qed.
Print Assumptions C01_varop_correct.

(* The `loaded` hypothesis is what __load__ establishes. *)
Theorem C01_load_establishes_loaded :
  forall ft env nm ints st,
    exists st', exec_list ft env 1 (load_ints nm ints) st = Some st' /\ loaded nm st' ints /\
                (forall k, (forall z, In z ints -> k <> int_score nm z) -> sc st' k = sc st k).
Proof. exact load_ints_loaded. Qed.
Print Assumptions C01_load_establishes_loaded.

(* Regression witness of the repaired defect: `$x += -2147483648` must not emit
   `scoreboard players remove … 2147483648` (not a valid command). *)
Example C01_intmin_wf :
  forall nm t o cmds ints, (o = VAdd \/ o = VSub) ->
    compile_varop nm t o (OLit INT_MIN) = Some (cmds, ints) -> forallb wf_cmd cmds = true.
Proof. intros nm t o cmds ints [-> | ->] H; cbn in H; injection H as <- <-; reflexivity. Qed.

(* Non-vacuity: the hypotheses are met by a concrete state and statement, and the
   conclusion computes to the expected number (floor division, negative divisor). *)
Example C01_nonvacuous :
  let nm := default_names in
  let t := ("$x", "__variable__")%string in
  let st := mkState (fun k => if score_eqb k t then Some (-7)
                              else if score_eqb k (int_score nm 2) then Some 2 else None)
                    (fun _ => None) [] in
  compile_varop nm t VDiv (OLit 2) = Some ([COp t ODiv (int_score nm 2)], [2]) /\
  loaded nm st [2] /\ lit_ok VDiv (OLit 2) /\
  meaning VDiv (sc st t) (Some 2) = -4.
Proof.
  cbn. repeat split; try (vm_compute; intuition congruence).
  intros z [<-|[]]. reflexivity.
Qed.
