(* Property C17 — splitting a program across imported files does not change it.
   Only statements, closed by `exact`, each followed by Print Assumptions.

   Model (Model/Import.v): a source tree `t` maps canonical absolute paths to item lists
   (ILoad n | IDef n | IImport abs raw | IWild abs raw), `ds` gives for every directory the
   result of glob("**/*.jmc"), `cwd` is the process directory, the main path is given the
   way the user spelled it (absolute or relative, possibly with "." / ".." components).
   `parse_project m` is Lexer.parse_file run on a fresh DataPack: a fuelled DFS with the
   `_imported` set keyed as the code keys it, load commands buffered and flushed at every
   non-load item; it returns the events (file opened / definition parsed / batch of load
   commands parsed, with the file of the tokenizer it was parsed with) in order.  m = Repaired is /repo with fixes/C17-import-key-and-wildcard.patch,
   m = Pinned the code before it.
   `flatten` is the specification: the item list of the single file obtained by pasting every
   imported file in place of its first import, files identified by canonical absolute path. *)
From Coq Require Import String List Bool Arith.
From JMCV Require Import Model.Import Proofs.Import.
Import ListNotations.

(* Full statement (repaired code).  For every tree, directory listing whose glob results are
   canonical paths (no ".." component, as Path.glob returns them), cwd without "..", every
   spelling of the main path and every fuel larger than the number of files + 1:
   - the compile never runs out of fuel, and fails exactly when the specification fails (an import
     of a missing file / directory), with the same diagnostic;
   - otherwise the items it processes, in order, are exactly the flattened single file;
   - every file is opened at most once. *)
Theorem C17_import_flatten :
  forall t ds cwd mabs mraw fuel,
    no_dotdot cwd = true ->
    forallb (fun kv => forallb no_dotdot (snd kv)) ds = true ->
    length t + 2 <= fuel ->
    match parse_project Repaired t ds cwd mabs mraw fuel with
    | Ok evs =>
        flatten t ds cwd mabs mraw fuel = Ok (items_of evs) /\ NoDup (opens evs)
    | Err e =>
        e <> EFuel /\ flatten t ds cwd mabs mraw fuel = Err e
    end.
Proof. exact import_flatten. Qed.
Print Assumptions C17_import_flatten.

(* Compiling the flattened text as one file processes the same items (so: same definitions in the
   same order, same load commands in the same order; only the cutting of load commands into
   batches may differ). *)
Theorem C17_single_file :
  forall m ds cwd p l fuel,
    no_dotdot p = true -> pynorm p = p -> 1 <= fuel ->
    exists evs, parse_project m (single_file p l) ds cwd true p fuel = Ok evs /\ items_of evs = l.
Proof. exact single_file_items. Qed.
Print Assumptions C17_single_file.

(* Hence any back end that treats a batch of load commands as the sequence of its commands
   (on_batch is a monoid action) produces the same result for the project and for the flattened file. *)
Theorem C17_outputs_equal :
  forall (S : Type) (on_def : S -> nat -> S) (on_batch : S -> list nat -> S),
    (forall s, on_batch s [] = s) ->
    (forall s a b, on_batch s (a ++ b) = on_batch (on_batch s a) b) ->
    forall evs1 evs2 s,
      items_of evs1 = items_of evs2 ->
      consume S on_def on_batch s evs1 = consume S on_def on_batch s evs2.
Proof. exact consume_items. Qed.
Print Assumptions C17_outputs_equal.

(* The code before the fix: the full statement is false.
   (a) main path spelled relatively + an import cycle through the main file: the main file is
       opened twice and its items are processed twice (=> "Duplicate function declaration"). *)
Theorem C17_pinned_refuted_relative_main :
  exists t ds cwd mabs mraw fuel evs l,
    no_dotdot cwd = true /\ length t + 2 <= fuel /\
    parse_project Pinned t ds cwd mabs mraw fuel = Ok evs /\
    flatten t ds cwd mabs mraw fuel = Ok l /\
    items_of evs <> l /\ ~ NoDup (opens evs).
Proof. exact pinned_refuted_relative_main. Qed.
Print Assumptions C17_pinned_refuted_relative_main.

(* (b) `import "dir/*"` written in a file of a sub-directory is resolved against the cwd. *)
Theorem C17_pinned_refuted_wildcard_cwd :
  exists t ds cwd mabs mraw fuel l e,
    no_dotdot cwd = true /\ length t + 2 <= fuel /\
    flatten t ds cwd mabs mraw fuel = Ok l /\
    parse_project Pinned t ds cwd mabs mraw fuel = Err e.
Proof. exact pinned_refuted_wildcard_cwd. Qed.
Print Assumptions C17_pinned_refuted_wildcard_cwd.

(* What the code before the fix did get right: with the main path given absolute and canonical
   and no wildcard import anywhere, it behaves exactly as the repaired code. *)
Theorem C17_pinned_partial :
  forall t ds cwd mraw fuel,
    no_dotdot cwd = true -> no_dotdot (pynorm mraw) = true -> tree_no_wild t = true ->
    parse_project Pinned t ds cwd true mraw fuel = parse_project Repaired t ds cwd true mraw fuel.
Proof. exact pinned_partial. Qed.
Print Assumptions C17_pinned_partial.

(* Strengthening round 3 — the FILE of a load batch.  Load statements are buffered and compiled later, in batches, with ONE shared
   tokenizer (`Lexer.load_tokenizer`: file name, text and lines used for diagnostics, for the source line Debug.watch prints, for the
   folder JMC.pythonFile resolves against) that `__update_load` switches from file to file.  In the model a buffered statement
   remembers the file it was read from (`l_file`), the state has the tokenizer's file (`cur`), a batch records the file it was parsed
   with (`EvBatch tok l`).  For every tree, listing, cwd, spelling of main, fuel and BOTH modes: every batch is parsed with the
   tokenizer of the file each of its statements was read from, and that file of the tree really contains the statement.
   (Needs the flush BEFORE an import: `__update_load` with a non-empty buffer breaks it - Proofs/Import.v Inv_set_cur.) *)
Theorem C17_load_batch_file :
  forall m t ds cwd mabs mraw fuel evs,
    parse_project m t ds cwd mabs mraw fuel = Ok evs ->
    Forall (fun e => match e with
                     | EvBatch tok l => Forall (fun x => l_file x = tok /\ written_in t x) l
                     | _ => True
                     end) evs.
Proof. exact load_batch_file. Qed.
Print Assumptions C17_load_batch_file.

(* Hence a FILE-SENSITIVE back end (on_load s f n = statement n compiled with the tokenizer of file f) that consumes the batches with
   the batch's tokenizer computes exactly what it computes when every statement is compiled with the tokenizer of the file it is
   written in, in the order of the flattened file (the statements, files erased, are `items_of evs` = `flatten` by C17_import_flatten):
   the cutting into batches and the switching of the shared tokenizer are not observable. *)
Theorem C17_file_sensitive_backend :
  forall (S : Type) (on_def : S -> nat -> S) (on_load : S -> apath -> nat -> S)
         m t ds cwd mabs mraw fuel evs s,
    parse_project m t ds cwd mabs mraw fuel = Ok evs ->
    fconsume S on_def on_load s evs = fold_left (sstep S on_def on_load) (sitems_of evs) s
    /\ map erase_file (sitems_of evs) = items_of evs
    /\ Forall (fun i => match i with SLoad f n => written_in t (mkL n f) | SDef _ => True end) (sitems_of evs).
Proof. exact file_sensitive_backend. Qed.
Print Assumptions C17_file_sensitive_backend.

(* Non-vacuity: a diamond with a cycle through main, main spelled "sub/../main.jmc"; load statements before, between and after
   the imports, each batch with the tokenizer of its own file. *)
Example C17_nonvacuous :
  let M := ["R"; "p"; "main.jmc"]%string in let A := ["R"; "p"; "a.jmc"]%string in
  let B := ["R"; "p"; "b.jmc"]%string in let C := ["R"; "p"; "sub"; "c.jmc"]%string in
  let t := [ (M, [ILoad 1; IImport false ["a"]; IDef 2; IImport false ["b.jmc"]; ILoad 3]);
             (A, [IDef 4; IImport false ["sub"; "c"]; ILoad 5]);
             (B, [ILoad 6; IImport false ["."; "sub"; ".."; "sub"; "c.jmc"]; IDef 7]);
             (C, [IImport false [".."; "main"]; ILoad 8; IWild false [".."]]) ]%string in
  let ds := [ (["R"; "p"], [B; C; M; A]) ]%string in
  parse_project Repaired t ds ["R"; "p"]%string false ["sub"; ".."; "main.jmc"]%string 6 =
    Ok [ EvOpen M; EvBatch M [mkL 1 M]; EvOpen A; EvDef 4;
         EvOpen C; EvBatch C [mkL 8 C]; EvOpen B; EvBatch B [mkL 6 B]; EvDef 7;
         EvBatch A [mkL 5 A]; EvDef 2; EvBatch M [mkL 3 M] ]
  /\ flatten t ds ["R"; "p"]%string false ["sub"; ".."; "main.jmc"]%string 6 =
    Ok [FLoad 1; FDef 4; FLoad 8; FLoad 6; FDef 7; FLoad 5; FDef 2; FLoad 3].
Proof. vm_compute. split; reflexivity. Qed.
