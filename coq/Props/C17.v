(* Property C17 — splitting a program across imported files does not change it.
   Only statements, closed by `exact`, each followed by Print Assumptions.

   Model (Model/Import.v): a source tree `t` maps canonical absolute paths to item lists
   (ILoad n | IDef n | IImport abs raw | IWild abs raw), `ds` gives for every directory the
   result of glob("**/*.jmc"), `cwd` is the process directory, the main path is given the
   way the user spelled it (absolute or relative, possibly with "." / ".." components).
   `parse_project m` is Lexer.parse_file run on a fresh DataPack: a fuelled DFS with the
   `_imported` set keyed as the code keys it, load commands buffered and flushed at every
   non-load item; it returns the events (file opened / definition parsed / batch of load
   commands parsed, with the file of the tokenizer it was parsed with) in order.  m = Repaired is /repo with fixes/C17-import-key-and-wildcard.patch,
   m = Pinned the code before it.
   `flatten` is the specification: the item list of the single file obtained by pasting every
   imported file in place of its first import, files identified by canonical absolute path. *)
From Coq Require Import String List Bool Arith.
From JMCV Require Import Model.Import Proofs.Import Model.ImportPath Proofs.ImportPath.
Import ListNotations.

(* Full statement (repaired code).  For every tree, directory listing whose glob results are
   canonical paths (no ".." component, as Path.glob returns them), cwd without "..", every
   spelling of the main path and every fuel larger than the number of files + 1:
   - the compile never runs out of fuel, and fails exactly when the specification fails (an import
     of a missing file / directory), with the same diagnostic;
   - otherwise the items it processes, in order, are exactly the flattened single file;
   - every file is opened at most once. *)
Theorem C17_import_flatten :
  forall t ds cwd mabs mraw fuel,
    no_dotdot cwd = true ->
    forallb (fun kv => forallb no_dotdot (snd kv)) ds = true ->
    length t + 2 <= fuel ->
    match parse_project Repaired t ds cwd mabs mraw fuel with
    | Ok evs =>
        flatten t ds cwd mabs mraw fuel = Ok (items_of evs) /\ NoDup (opens evs)
    | Err e =>
        e <> EFuel /\ flatten t ds cwd mabs mraw fuel = Err e
    end.
Proof. exact import_flatten. Qed.
Print Assumptions C17_import_flatten.

(* Compiling the flattened text as one file processes the same items (so: same definitions in the
   same order, same load commands in the same order; only the cutting of load commands into
   batches may differ). *)
Theorem C17_single_file :
  forall m ds cwd p l fuel,
    no_dotdot p = true -> pynorm p = p -> 1 <= fuel ->
    exists evs, parse_project m (single_file p l) ds cwd true p fuel = Ok evs /\ items_of evs = l.
Proof. exact single_file_items. Qed.
Print Assumptions C17_single_file.

(* Hence any back end that treats a batch of load commands as the sequence of its commands
   (on_batch is a monoid action) produces the same result for the project and for the flattened file. *)
Theorem C17_outputs_equal :
  forall (S : Type) (on_def : S -> nat -> S) (on_batch : S -> list nat -> S),
    (forall s, on_batch s [] = s) ->
    (forall s a b, on_batch s (a ++ b) = on_batch (on_batch s a) b) ->
    forall evs1 evs2 s,
      items_of evs1 = items_of evs2 ->
      consume S on_def on_batch s evs1 = consume S on_def on_batch s evs2.
Proof. exact consume_items. Qed.
Print Assumptions C17_outputs_equal.

(* The code before the fix: the full statement is false.
   (a) main path spelled relatively + an import cycle through the main file: the main file is
       opened twice and its items are processed twice (=> "Duplicate function declaration"). *)
Theorem C17_pinned_refuted_relative_main :
  exists t ds cwd mabs mraw fuel evs l,
    no_dotdot cwd = true /\ length t + 2 <= fuel /\
    parse_project Pinned t ds cwd mabs mraw fuel = Ok evs /\
    flatten t ds cwd mabs mraw fuel = Ok l /\
    items_of evs <> l /\ ~ NoDup (opens evs).
Proof. exact pinned_refuted_relative_main. Qed.
Print Assumptions C17_pinned_refuted_relative_main.

(* (b) `import "dir/*"` written in a file of a sub-directory is resolved against the cwd. *)
Theorem C17_pinned_refuted_wildcard_cwd :
  exists t ds cwd mabs mraw fuel l e,
    no_dotdot cwd = true /\ length t + 2 <= fuel /\
    flatten t ds cwd mabs mraw fuel = Ok l /\
    parse_project Pinned t ds cwd mabs mraw fuel = Err e.
Proof. exact pinned_refuted_wildcard_cwd. Qed.
Print Assumptions C17_pinned_refuted_wildcard_cwd.

(* What the code before the fix did get right: with the main path given absolute and canonical
   and no wildcard import anywhere, it behaves exactly as the repaired code. *)
Theorem C17_pinned_partial :
  forall t ds cwd mraw fuel,
    no_dotdot cwd = true -> no_dotdot (pynorm mraw) = true -> tree_no_wild t = true ->
    parse_project Pinned t ds cwd true mraw fuel = parse_project Repaired t ds cwd true mraw fuel.
Proof. exact pinned_partial. Qed.
Print Assumptions C17_pinned_partial.

(* Strengthening round 3 — the FILE of a load batch.  Load statements are buffered and compiled later, in batches, with ONE shared
   tokenizer (`Lexer.load_tokenizer`: file name, text and lines used for diagnostics, for the source line Debug.watch prints, for the
   folder JMC.pythonFile resolves against) that `__update_load` switches from file to file.  In the model a buffered statement
   remembers the file it was read from (`l_file`), the state has the tokenizer's file (`cur`), a batch records the file it was parsed
   with (`EvBatch tok l`).  For every tree, listing, cwd, spelling of main, fuel and BOTH modes: every batch is parsed with the
   tokenizer of the file each of its statements was read from, and that file of the tree really contains the statement.
   (Needs the flush BEFORE an import: `__update_load` with a non-empty buffer breaks it - Proofs/Import.v Inv_set_cur.) *)
Theorem C17_load_batch_file :
  forall m t ds cwd mabs mraw fuel evs,
    parse_project m t ds cwd mabs mraw fuel = Ok evs ->
    Forall (fun e => match e with
                     | EvBatch tok l => Forall (fun x => l_file x = tok /\ written_in t x) l
                     | _ => True
                     end) evs.
Proof. exact load_batch_file. Qed.
Print Assumptions C17_load_batch_file.

(* Hence a FILE-SENSITIVE back end (on_load s f n = statement n compiled with the tokenizer of file f) that consumes the batches with
   the batch's tokenizer computes exactly what it computes when every statement is compiled with the tokenizer of the file it is
   written in, in the order of the flattened file (the statements, files erased, are `items_of evs` = `flatten` by C17_import_flatten):
   the cutting into batches and the switching of the shared tokenizer are not observable. *)
Theorem C17_file_sensitive_backend :
  forall (S : Type) (on_def : S -> nat -> S) (on_load : S -> apath -> nat -> S)
         m t ds cwd mabs mraw fuel evs s,
    parse_project m t ds cwd mabs mraw fuel = Ok evs ->
    fconsume S on_def on_load s evs = fold_left (sstep S on_def on_load) (sitems_of evs) s
    /\ map erase_file (sitems_of evs) = items_of evs
    /\ Forall (fun i => match i with SLoad f n => written_in t (mkL n f) | SDef _ => True end) (sitems_of evs).
Proof. exact file_sensitive_backend. Qed.
Print Assumptions C17_file_sensitive_backend.

(* Non-vacuity: a diamond with a cycle through main, main spelled "sub/../main.jmc"; load statements before, between and after
   the imports, each batch with the tokenizer of its own file. *)
Example C17_nonvacuous :
  let M := ["R"; "p"; "main.jmc"]%string in let A := ["R"; "p"; "a.jmc"]%string in
  let B := ["R"; "p"; "b.jmc"]%string in let C := ["R"; "p"; "sub"; "c.jmc"]%string in
  let t := [ (M, [ILoad 1; IImport false ["a"]; IDef 2; IImport false ["b.jmc"]; ILoad 3]);
             (A, [IDef 4; IImport false ["sub"; "c"]; ILoad 5]);
             (B, [ILoad 6; IImport false ["."; "sub"; ".."; "sub"; "c.jmc"]; IDef 7]);
             (C, [IImport false [".."; "main"]; ILoad 8; IWild false [".."]]) ]%string in
  let ds := [ (["R"; "p"], [B; C; M; A]) ]%string in
  parse_project Repaired t ds ["R"; "p"]%string false ["sub"; ".."; "main.jmc"]%string 6 =
    Ok [ EvOpen M; EvBatch M [mkL 1 M]; EvOpen A; EvDef 4;
         EvOpen C; EvBatch C [mkL 8 C]; EvOpen B; EvBatch B [mkL 6 B]; EvDef 7;
         EvBatch A [mkL 5 A]; EvDef 2; EvBatch M [mkL 3 M] ]
  /\ flatten t ds ["R"; "p"]%string false ["sub"; ".."; "main.jmc"]%string 6 =
    Ok [FLoad 1; FDef 4; FLoad 8; FLoad 6; FDef 7; FLoad 5; FDef 2; FLoad 3].
Proof. vm_compute. split; reflexivity. Qed.

(* Strengthening round 4 — the PATH handling of the import branch (Model/ImportPath.v).  The model now starts from the STRING of an
   import statement as the tokenizer hands it over (`SrcImport s`, projects `srctree`, `parse_project_src` = `parse_project` after
   `lower_tree`) and from a description `fs` of the directory tree (files and folders by canonical path).
   `lower_import s` is what lexer.py does with the string: wildcard iff it ends in "/*" or "\*", the folder text being the string
   without its last two characters; otherwise a named import; the text is cut at "/" only (POSIX pathlib: a backslash is an ordinary
   character of a name).  `import_files ds cwd X s` = the files the statement, written in file X, hands to parse_file, in order. *)
Theorem C17_import_string_kind :
  forall s,
    (forall d, strip_wild s = Some d <-> (s = (d ++ "/*")%string \/ s = (d ++ "\*")%string))
    /\ (forall d, strip_wild s = Some d -> lower_import s = IWild (is_abs d) (split_slash d))
    /\ (strip_wild s = None -> lower_import s = IImport (is_abs s) (split_slash s)).
Proof. exact import_kind_spec. Qed.
Print Assumptions C17_import_string_kind.

(* the spelling grammar `spells k q raw` talks about components; a string is its components with "/" in between *)
Theorem C17_spelling_strings :
  forall l, l <> [] -> forallb noslash l = true -> split_slash (join_slash l) = l.
Proof. exact split_join. Qed.
Print Assumptions C17_spelling_strings.

(* A NAMED import reads exactly one file, <folder>/<name>.jmc - for every spelling of the modelled grammar: "." and empty components
   (leading "./", doubled and trailing slashes), detours `x/..` through any name, leading ".."s (k levels up from the importer's
   folder, at the root it stays), relative or absolute, suffix written or left out.  The result does not mention the directory
   tree: a folder <name> next to <name>.jmc, a file <name> without suffix, <name>.jmc.jmc, the other case spelling ... play no part. *)
Theorem C17_named_import_one_file :
  forall ds cwd X s k (q : list comp) (name : comp),
    no_dotdot X = true -> strip_wild s = None ->
    ( (name <> ""%string /\ spells k (q ++ [(name ++ ".jmc")%string]) (split_slash s))
      \/ (exists r : list comp, split_slash s = r ++ [name] /\ spells k q r /\ plain name /\ has_jmc_suffix name = false) ) ->
    import_files ds cwd X s = Ok [ upk k (base_of X (is_abs s)) ++ q ++ [(name ++ ".jmc")%string] ].
Proof. exact named_import_one_file. Qed.
Print Assumptions C17_named_import_one_file.

(* A WILDCARD import (either ending) of a folder spelled any way reads exactly the .jmc FILES that lie below that folder - each once,
   nothing else (no file of a sibling folder, of the importer's folder, no folder that happens to be called x.jmc) - and is
   "Directory not found" exactly when the folder does not exist or cannot be walked to: `folder.is_dir()` is answered by the operating
   system on the UNRESOLVED path, so every name the spelling passes through must be an existing folder (`walk_ok (fs_dirs fs) B comps`;
   a detour `zz/..` through a name that does not exist fails for a wildcard, whereas a named import folds it away).
   `listing_ok fs ds`: the listings Path.glob returns describe the directory tree `fs`. *)
Theorem C17_wildcard_exact_files :
  forall fs ds cwd X s d k q,
    no_dotdot X = true -> listing_ok fs ds -> strip_wild s = Some d -> spells k q (split_slash d) ->
    let B := base_of X (is_abs d) in
    let D := upk k B ++ q in
    if walk_ok (fs_dirs fs) B (pynorm (split_slash d)) && is_dir fs D
    then exists fl, import_files ds cwd X s = Ok fl /\ NoDup fl /\ (forall p, In p fl <-> In p (jmc_files_below fs D))
    else import_files ds cwd X s = Err (EDirNotFound D).
Proof. exact wildcard_exact_files. Qed.
Print Assumptions C17_wildcard_exact_files.

(* ... where "the .jmc files below D" are the FILE nodes of the tree strictly below D whose name matches `*.jmc` *)
Theorem C17_jmc_files_below :
  forall fs D p,
    In p (jmc_files_below fs D) <-> In (p, NFile) fs /\ below D p = true /\ glob_jmc (last p ""%string) = true.
Proof. exact jmc_files_below_spec. Qed.
Print Assumptions C17_jmc_files_below.

(* the test evaluated on every generated project (directory tree and listings as found on disk) implies `listing_ok` *)
Theorem C17_listing_check_sound : forall fs ds, listing_okb fs ds = true -> listing_ok fs ds.
Proof. exact listing_okb_sound. Qed.
Print Assumptions C17_listing_check_sound.

(* The files a project reads are EXACTLY the files its import statements lead to from the main file (`reach`: the main file; a file
   handed to parse_file by an import statement of a reachable file): each of them is read, nothing else is. *)
Theorem C17_reads_exactly_reachable :
  forall t ds cwd mabs mraw fuel evs,
    no_dotdot cwd = true ->
    forallb (fun kv => forallb no_dotdot (snd kv)) ds = true ->
    parse_project Repaired t ds cwd mabs mraw fuel = Ok evs ->
    forall p, In p (opens evs) <-> reach t ds cwd (resolve cwd (mkR mabs (pynorm mraw))) p.
Proof. exact reads_exactly_reachable. Qed.
Print Assumptions C17_reads_exactly_reachable.

(* BYSTANDERS are never read: a file that is not the main file, that no import string of a file that is read resolves to, and that
   is in the listing of no folder a wildcard of such a file names, is not opened - whatever it is called and wherever it lies. *)
Theorem C17_bystander_never_read :
  forall (t : srctree) ds cwd mabs mraw fuel evs b,
    no_dotdot cwd = true ->
    forallb (fun kv => forallb no_dotdot (snd kv)) ds = true ->
    parse_project_src Repaired t ds cwd mabs mraw fuel = Ok evs ->
    b <> resolve cwd (mkR mabs (pynorm mraw)) ->
    (forall f items s fl, In f (opens evs) -> lookup t f = Some items -> In (SrcImport s) items ->
                          import_files ds cwd f s = Ok fl -> ~ In b fl) ->
    ~ In b (opens evs).
Proof. exact src_bystander_never_read. Qed.
Print Assumptions C17_bystander_never_read.

(* C17_import_flatten for projects given as text: whatever the import strings are *)
Theorem C17_import_strings_flatten :
  forall (t : srctree) ds cwd mabs mraw fuel,
    no_dotdot cwd = true ->
    forallb (fun kv => forallb no_dotdot (snd kv)) ds = true ->
    length t + 2 <= fuel ->
    match parse_project_src Repaired t ds cwd mabs mraw fuel with
    | Ok evs => flatten (lower_tree t) ds cwd mabs mraw fuel = Ok (items_of evs) /\ NoDup (opens evs)
    | Err e => e <> EFuel /\ flatten (lower_tree t) ds cwd mabs mraw fuel = Err e
    end.
Proof. exact src_import_flatten. Qed.
Print Assumptions C17_import_strings_flatten.

(* Non-vacuity: a module file lib.jmc next to its parts folder lib/ (which holds a folder called d.jmc, a text file and a file of the
   other case spelling), a bystander, a file whose name contains a backslash.  Named and wildcard spellings, both wildcard endings. *)
Example C17_paths_nonvacuous :
  let pp := fun l : list comp => ("R" :: "p" :: l)%string in
  let P := pp [] in let M := pp ["main.jmc"]%string in
  let fs := [ (["R"]%string, NDir); (P, NDir); (M, NFile); (pp ["lib.jmc"]%string, NFile); (pp ["lib"]%string, NDir);
              (pp ["lib"; "x.jmc"]%string, NFile); (pp ["lib"; "X.jmc"]%string, NFile); (pp ["lib"; "notes.txt"]%string, NFile);
              (pp ["lib"; "d.jmc"]%string, NDir); (pp ["lib"; "d.jmc"; "y.jmc"]%string, NFile);
              (pp ["by.jmc"]%string, NFile); (pp ["sub\c.jmc"]%string, NFile) ] in
  let lib := [pp ["lib"; "X.jmc"]%string; pp ["lib"; "d.jmc"; "y.jmc"]%string; pp ["lib"; "x.jmc"]%string] in
  let top := [pp ["by.jmc"]%string; pp ["lib.jmc"]%string; M; pp ["sub\c.jmc"]%string] in
  let ds := [ (pp ["lib"]%string, lib); (pp ["lib"; "d.jmc"]%string, [pp ["lib"; "d.jmc"; "y.jmc"]%string]);
              (P, top ++ lib); (["R"]%string, top ++ lib) ] in
  listing_okb fs ds = true
  /\ import_files ds P M "lib" = Ok [pp ["lib.jmc"]%string]
  /\ import_files ds P M "./sub/..//lib.jmc/" = Ok [pp ["lib.jmc"]%string]
  /\ import_files ds P M "lib/*" = Ok lib /\ import_files ds P M "lib\*" = Ok lib /\ import_files ds P M "lib/../lib/.\*" = Ok lib
  /\ import_files ds P M "zz/../lib/*" = Err (EDirNotFound (pp ["lib"]%string))
  /\ import_files ds P M "sub\c" = Ok [pp ["sub\c.jmc"]%string]
  /\ import_files ds P M "lib/" = Ok [pp ["lib"; ".jmc"]%string]
  /\ import_files ds P M "*" = Ok [pp ["*.jmc"]%string]
  /\ import_files ds P M "lib.jmc/*" = Err (EDirNotFound (pp ["lib.jmc"]%string))
  /\ spells 0 ["lib.jmc"]%string (split_slash "./sub/..//lib.jmc/")
  /\ spells 0 ["lib"]%string (split_slash "zz/../lib/.").
Proof.
  vm_compute. repeat split; try reflexivity.
  - apply sp_dot. apply (sp_detour "sub" [] 0)%string; [repeat split; discriminate|apply sp_nil|].
    apply sp_empty. apply sp_name; [repeat split; discriminate|]. apply sp_empty. apply sp_nil.
  - apply (sp_detour "zz" [] 0)%string; [repeat split; discriminate|apply sp_nil|].
    apply sp_name; [repeat split; discriminate|]. apply sp_dot. apply sp_nil.
Qed.
