(* C10 — Disk build touches only its own territory; failed compiles change nothing.
   Model: Model/FS.v (directory tree, primitive mutations), Model/Build.v (compile_jmc as a plan of mutations).
   The theorems are about the REPAIRED behaviour: every [sound] variant, i.e. [fixed] (fixes/C10-cert-after-compile.patch,
   C10-static-minecraft.patch, C10-static-resolved-path.patch, C11-namespace-deleted-last.patch) and [hardened]
   (in addition fixes/C10-function-tags-read-first.patch — needed by C10_failed_build_noop — and fixes/C11-atomic-cert.patch);
   the `_refuted_pinned` theorems show what the original tree ([pinned]) does instead, `_refuted_fixed` what [fixed] still did.
   [guarded] = [hardened] + the input checks of reports/C10C11-triage.md (fixes/C10-reject-non-namespace-override.patch,
   fixes/C10-reject-resource-path-outside-folder.patch; [Build.gate], [run] = [run_core] behind the gate) and
   fixes/C11-stale-own-tick-entry.patch: C10_rejected_noop, C10_paths_lexical need the checks.
   Which variant a source tree has is detected by harness/c10.py with witness builds.
   Tie: harness/c10.py runs the real compile_jmc under harness/fstrace.py and compares trace, tree and result
   with Build.run, and checks the property itself on the real trees (Run/C10.v). *)
From Coq Require Import String List Bool.
From JMCV Require Import Model.FS Model.Build Proofs.FS Proofs.Build Proofs.BuildC10 Proofs.BuildC11 Proofs.BuildGate.
Import ListNotations.

(* Territory.  For every initial tree [t], configuration, header facts, outcome of the front end, injected
   deletion failure, for BOTH variants, and for every point at which the build may be killed
   ([crash_trace]: any prefix of the plan, the last write possibly torn; the complete plan is one of them):
   a node that differs afterwards lies under data/<ns>, data/<override>, data/minecraft, is pack.mcmeta or a
   #copy destination ([terr_b]) — or it is the output directory / its data folder, which was absent and now is
   a directory.  Everything else is identical. *)
Theorem C10_territory : forall v c h out fault t ops t' p,
  crash_trace (plan v c h out fault t) ops -> exec ops t = Some t' ->
  node_at t' p <> node_at t p ->
  terr_b c h p = true \/ (anc_b p = true /\ node_at t p = None /\ node_at t' p = Some NDir).
Proof. exact g_territory. Qed.
Print Assumptions C10_territory.

(* #static folders and everything below them are byte-identical, at every crash point (repaired behaviour). *)
Theorem C10_statics_untouched : forall v c h out fault t ops t' p,
  sound v ->
  (forall o, out = Success o -> static_safe c h o = true) ->
  crash_trace (plan v c h out fault t) ops -> exec ops t = Some t' ->
  excepted h p = true -> node_at t' p = node_at t p.
Proof. exact g_statics_untouched. Qed.
Print Assumptions C10_statics_untouched.

(* pinned: `#static "../minecraft/keep"` is deleted (data/minecraft goes through plain shutil.rmtree) *)
Theorem C10_static_minecraft_refuted_pinned :
  exists c h o t t' p, static_safe c h o = true /\ excepted h p = true /\
    exec (plan pinned c h (Success o) None t) t = Some t' /\
    node_at t p = Some (NFile (Raw "kept by hand")) /\ node_at t' p = None.
Proof. exact g_static_minecraft_refuted_pinned. Qed.
Print Assumptions C10_static_minecraft_refuted_pinned.

(* A namespace folder that lacks jmc.txt is never touched: plan = [] and the result is the refusal (or the header
   error, when the header itself - or, with [v_ns_checked], one of its #override / #link namespaces - is rejected). *)
Theorem C10_refusal : forall v c h out fault t,
  is_dir t (ns_dir c) = true -> is_file t (cert_path c) = false ->
  run v c h out fault t = ([], match gate v c h out with FailHeader => RHeaderErr | _ => RRefused end).
Proof. exact g_refusal. Qed.
Print Assumptions C10_refusal.

(* A compile that ends in a compilation error (header, lexer/parser, DataPack.build) performs no mutation
   (repaired behaviour). *)
Theorem C10_failed_compile_noop : forall v c h out fault t,
  v_cert_early v = false ->
  (forall o, out <> Success o) -> plan v c h out fault t = [] /\ exec (plan v c h out fault t) t = Some t.
Proof. exact g_failed_compile_noop. Qed.
Print Assumptions C10_failed_compile_noop.

(* ... and so does a build that stops with the JMCBuildError for an unparsable / "values"-less function-tag file, once
   the tag files are read before the first mutation ([v_tags_early], fixes/C10-function-tags-read-first.patch):
   EVERY way a compile can fail ([failed]: header error, refusal, lexer/parser error, DataPack.build error, tag error)
   leaves the tree exactly as it was.  The one result that is neither success nor [failed] is ROsErr — the operating
   system refused a deletion half-way — whose effect C10_territory bounds. *)
Theorem C10_failed_build_noop : forall v c h out fault t,
  v_cert_early v = false -> v_tags_early v = true ->
  failed (snd (run v c h out fault t)) = true ->
  plan v c h out fault t = [] /\ exec (plan v c h out fault t) t = Some t.
Proof. exact g_failed_build_noop. Qed.
Print Assumptions C10_failed_build_noop.

(* The two input checks ([Build.gate]).  An #override / #link argument that is not a plain name of ANOTHER namespace
   ("..", "", "a/../..", a path with separators, the pack's own namespace: header_parse.py __check_namespace,
   fixes/C10-reject-non-namespace-override.patch) and a function / JSON resource path with an empty, "." or ".." segment
   (Predicate.locations(name="../../foreign/predicate/x"), a jmc.txt with PRIVATE=../..: compiling.py check_resource_paths,
   fixes/C10-reject-resource-path-outside-folder.patch) end the compile as a header / build error before anything is touched. *)
Theorem C10_rejected_noop : forall v c h out fault t,
  v_cert_early v = false ->
  (v_ns_checked v = true /\ hdr_ok c h = false) \/
  (v_paths_checked v = true /\ exists o, out = Success o /\ out_ok o = false) ->
  plan v c h out fault t = [] /\ failed (snd (run v c h out fault t)) = true.
Proof. exact rejected_noop. Qed.
Print Assumptions C10_rejected_noop.

(* With both checks every mutation of every plan is (a) a deletion below ./data/<ns>, ./data/<override>, ./data/minecraft,
   that folder being spelled with plain names (what lies below comes from directory listings), (b) at a path spelled "."
   followed by plain names only ([seg_ok]; plain = not "", ".", "..", no "/" or "\" inside), or (c) a #copy destination
   (names from the listing of the copied folder).  Header and sources cannot make the build address anything through "..":
   the lexical territory of C10_territory is the real one. *)
Theorem C10_paths_lexical : forall v c h out fault t x,
  v_cert_early v = false -> v_ns_checked v = true -> v_paths_checked v = true ->
  plain (c_ns c) = true -> plain (c_ff c) = true ->
  In x (plan v c h out fault t) ->
  (exists F, folderish c h F /\ seg_ok F /\ is_prefix F (op_path x) = true /\ is_mkdir x = false)
  \/ seg_ok (op_path x)
  \/ In (op_path x) (copy_paths h).
Proof. exact paths_lexical. Qed.
Print Assumptions C10_paths_lexical.

(* [hardened] (no resource-path check; finding C10-resource-path-escapes until the patch is committed):
   Predicate.locations(name="../../foreign/predicate/x") makes the build create data/ns/predicate/../../foreign/predicate/x.json *)
Theorem C10_paths_lexical_refuted_hardened :
  exists x, In x (plan hardened w_cfg w_hdr0 (Success u_out) None w_empty) /\ creates x = true /\
            In ".."%string (op_path x).
Proof. exact paths_lexical_refuted_hardened. Qed.
Print Assumptions C10_paths_lexical_refuted_hardened.

(* ... the same project, `#override ".."` and `#link <own namespace>` under [guarded]: rejected, nothing touched *)
Example C10_unsafe_input_rejected_guarded :
  run guarded w_cfg w_hdr0 (Success u_out) None w_empty = ([], RBuildErr) /\
  run guarded w_cfg (mkHdr [] [".."%string] None false) (Success w_out) None w_empty = ([], RHeaderErr) /\
  run guarded w_cfg (mkHdr [] ["ns"%string] None false) (Success w_out) None w_empty = ([], RHeaderErr).
Proof. exact unsafe_path_rejected_guarded. Qed.
Print Assumptions C10_unsafe_input_rejected_guarded.

(* #static without the [static_safe] proviso: a node inside a #static folder (the folder itself included: `#static "."`,
   `#static "../minecraft"`, `#static "../<override>"` - statics that ARE a deleted folder) changes only where the build
   itself writes, i.e. where it begins the path of jmc.txt / jmc.txt.tmp, a function tag, an emitted file, pack.mcmeta or
   a #copy destination.  Everything else in it is byte-identical at every crash point. *)
Theorem C10_statics_pointwise : forall v c h out fault t ops t' p,
  sound v ->
  crash_trace (plan v c h out fault t) ops -> exec ops t = Some t' ->
  excepted h p = true ->
  (forall o w, gate v c h out = Success o -> In w (written_paths c h o) -> is_prefix p w = false) ->
  node_at t' p = node_at t p.
Proof. exact statics_pointwise. Qed.
Print Assumptions C10_statics_pointwise.

(* pinned: refuted for a fresh namespace (read_cert writes jmc.txt before lexing) ... *)
Theorem C10_refuted_fresh_cert_pinned :
  exists c h out t t', (forall o, out <> Success o) /\
    exec (plan pinned c h out None t) t = Some t' /\ node_at t (cert_path c) = None /\
    node_at t' (cert_path c) = Some (NFile (Raw (c_cert c))).
Proof. exact g_failed_compile_noop_refuted_pinned. Qed.
Print Assumptions C10_refuted_fresh_cert_pinned.

(* ... and true on the pinned tree only when the namespace folder already exists *)
Theorem C10_failed_compile_noop_pinned_partial : forall c h out fault t,
  (forall o, out <> Success o) -> is_dir t (ns_dir c) = true -> plan pinned c h out fault t = [].
Proof. exact g_failed_compile_noop_pinned_partial. Qed.
Print Assumptions C10_failed_compile_noop_pinned_partial.

(* [fixed] (tag files read after make_cert / #copy; known finding C10-malformed-tag-after-mutation while
   fixes/C10-function-tags-read-first.patch is not committed): the JMCBuildError raised for an unparsable function-tag
   file comes after jmc.txt has been written ... *)
Theorem C10_tag_error_noop_refuted_fixed :
  exists c h o t t', run fixed c h (Success o) None t = (plan fixed c h (Success o) None t, RTagErr) /\
    exec (plan fixed c h (Success o) None t) t = Some t' /\
    node_at t (cert_path c) = None /\ node_at t' (cert_path c) <> None.
Proof. exact g_tag_error_noop_refuted_fixed. Qed.
Print Assumptions C10_tag_error_noop_refuted_fixed.

(* ... the same tree and project under [hardened]: the error is reported and nothing is touched *)
Example C10_tag_error_noop_hardened :
  run hardened w_cfg w_hdr0 (Success w_out) None w_tree_badtag = ([], RTagErr).
Proof. exact g_tag_error_noop_hardened. Qed.
Print Assumptions C10_tag_error_noop_hardened.

(* non-vacuity: the hypotheses (a plan that executes) are satisfiable, and such a build does change the tree *)
Example C10_build_executes :
  exists t', exec (plan fixed w_cfg w_hdr_mc (Success w_out) None w_tree_mc) w_tree_mc = Some t' /\
    snd (run fixed w_cfg w_hdr_mc (Success w_out) None w_tree_mc) = RDone /\
    node_at t' ["."; "data"; "ns"; "function"; "g.mcfunction"]%string = Some (NFile (Raw "say g")) /\
    node_at t' ["."; "data"; "minecraft"; "keep"; "m.txt"]%string = Some (NFile (Raw "kept by hand")).
Proof. exact g_build_executes. Qed.
Print Assumptions C10_build_executes.

(* non-vacuity for [hardened]: the complete build executes; jmc.txt arrives through jmc.txt.tmp + replace *)
Example C10_build_executes_hardened :
  exists t', exec (plan hardened w_cfg w_hdr_mc (Success w_out) None w_tree_mc) w_tree_mc = Some t' /\
    snd (run hardened w_cfg w_hdr_mc (Success w_out) None w_tree_mc) = RDone /\
    In (Replace (cert_path w_cfg) (Raw "LOAD=__load__"%string)) (plan hardened w_cfg w_hdr_mc (Success w_out) None w_tree_mc) /\
    node_at t' (cert_path w_cfg) = Some (NFile (Raw "LOAD=__load__"%string)) /\ node_at t' (cert_tmp w_cfg) = None /\
    node_at t' ["."; "data"; "ns"; "function"; "g.mcfunction"]%string = Some (NFile (Raw "say g")) /\
    node_at t' ["."; "data"; "minecraft"; "keep"; "m.txt"]%string = Some (NFile (Raw "kept by hand")).
Proof. exact g_build_executes_hardened. Qed.
Print Assumptions C10_build_executes_hardened.
