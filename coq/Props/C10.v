(* C10 — Disk build touches only its own territory; failed compiles change nothing.
   Model: Model/FS.v (directory tree, primitive mutations), Model/Build.v (compile_jmc as a plan of mutations).
   The theorems are about the REPAIRED behaviour: every [sound] variant, i.e. [fixed] (fixes/C10-cert-after-compile.patch,
   C10-static-minecraft.patch, C10-static-resolved-path.patch, C11-namespace-deleted-last.patch) and [hardened]
   (in addition fixes/C10-function-tags-read-first.patch — needed by C10_failed_build_noop — and fixes/C11-atomic-cert.patch);
   the `_refuted_pinned` theorems show what the original tree ([pinned]) does instead, `_refuted_fixed` what [fixed] still did.
   [guarded] = [hardened] + the input checks of reports/C10C11-triage.md (fixes/C10-reject-non-namespace-override.patch,
   fixes/C10-reject-resource-path-outside-folder.patch; [Build.gate], [run] = [run_core] behind the gate) and
   fixes/C11-stale-own-tick-entry.patch: C10_rejected_noop, C10_paths_lexical need the checks.
   Which variant a source tree has is detected by harness/c10.py with witness builds.
   Tie: harness/c10.py runs the real compile_jmc under harness/fstrace.py and compares trace, tree and result
   with Build.run, and checks the property itself on the real trees (Run/C10.v). *)
From Coq Require Import String List Bool.
From JMCV Require Import Model.FS Model.Build Model.BuildPath Proofs.FS Proofs.Build Proofs.BuildC10 Proofs.BuildC11 Proofs.BuildGate
  Proofs.BuildPath.
Import ListNotations.

(* Territory.  For every initial tree [t], configuration, header facts, outcome of the front end, injected
   deletion failure, for BOTH variants, and for every point at which the build may be killed
   ([crash_trace]: any prefix of the plan, the last write possibly torn; the complete plan is one of them):
   a node that differs afterwards lies under data/<ns>, data/<override>, data/minecraft, is pack.mcmeta or a
   #copy destination ([terr_b]) — or it is the output directory / its data folder, which was absent and now is
   a directory.  Everything else is identical. *)
Theorem C10_territory : forall v c h out fault t ops t' p,
  crash_trace (plan v c h out fault t) ops -> exec ops t = Some t' ->
  node_at t' p <> node_at t p ->
  terr_b c h p = true \/ (anc_b p = true /\ node_at t p = None /\ node_at t' p = Some NDir).
Proof. exact g_territory. Qed.
Print Assumptions C10_territory.

(* #static folders and everything below them are byte-identical, at every crash point (repaired behaviour). *)
Theorem C10_statics_untouched : forall v c h out fault t ops t' p,
  sound v ->
  (forall o, out = Success o -> static_safe c h o = true) ->
  crash_trace (plan v c h out fault t) ops -> exec ops t = Some t' ->
  excepted h p = true -> node_at t' p = node_at t p.
Proof. exact g_statics_untouched. Qed.
Print Assumptions C10_statics_untouched.

(* pinned: `#static "../minecraft/keep"` is deleted (data/minecraft goes through plain shutil.rmtree) *)
Theorem C10_static_minecraft_refuted_pinned :
  exists c h o t t' p, static_safe c h o = true /\ excepted h p = true /\
    exec (plan pinned c h (Success o) None t) t = Some t' /\
    node_at t p = Some (NFile (Raw "kept by hand")) /\ node_at t' p = None.
Proof. exact g_static_minecraft_refuted_pinned. Qed.
Print Assumptions C10_static_minecraft_refuted_pinned.

(* A namespace folder that lacks jmc.txt is never touched: plan = [] and the result is the refusal (or the header
   error, when the header itself - or, with [v_ns_checked], one of its #override / #link namespaces - is rejected). *)
Theorem C10_refusal : forall v c h out fault t,
  is_dir t (ns_dir c) = true -> is_file t (cert_path c) = false ->
  run v c h out fault t = ([], match gate v c h out with FailHeader => RHeaderErr | _ => RRefused end).
Proof. exact g_refusal. Qed.
Print Assumptions C10_refusal.

(* A compile that ends in a compilation error (header, lexer/parser, DataPack.build) performs no mutation
   (repaired behaviour). *)
Theorem C10_failed_compile_noop : forall v c h out fault t,
  v_cert_early v = false ->
  (forall o, out <> Success o) -> plan v c h out fault t = [] /\ exec (plan v c h out fault t) t = Some t.
Proof. exact g_failed_compile_noop. Qed.
Print Assumptions C10_failed_compile_noop.

(* ... and so does a build that stops with the JMCBuildError for an unparsable / "values"-less function-tag file, once
   the tag files are read before the first mutation ([v_tags_early], fixes/C10-function-tags-read-first.patch):
   EVERY way a compile can fail ([failed]: header error, refusal, lexer/parser error, DataPack.build error, tag error)
   leaves the tree exactly as it was.  The one result that is neither success nor [failed] is ROsErr — the operating
   system refused a deletion half-way — whose effect C10_territory bounds. *)
Theorem C10_failed_build_noop : forall v c h out fault t,
  v_cert_early v = false -> v_tags_early v = true ->
  failed (snd (run v c h out fault t)) = true ->
  plan v c h out fault t = [] /\ exec (plan v c h out fault t) t = Some t.
Proof. exact g_failed_build_noop. Qed.
Print Assumptions C10_failed_build_noop.

(* The two input checks ([Build.gate]).  An #override / #link argument that is not a plain name of ANOTHER namespace
   ("..", "", "a/../..", a path with separators, the pack's own namespace: header_parse.py __check_namespace,
   fixes/C10-reject-non-namespace-override.patch) and a function / JSON resource path with an empty, "." or ".." segment
   (Predicate.locations(name="../../foreign/predicate/x"), a jmc.txt with PRIVATE=../..: compiling.py check_resource_paths,
   fixes/C10-reject-resource-path-outside-folder.patch) end the compile as a header / build error before anything is touched. *)
Theorem C10_rejected_noop : forall v c h out fault t,
  v_cert_early v = false ->
  (v_ns_checked v = true /\ hdr_ok c h = false) \/
  (v_paths_checked v = true /\ exists o, out = Success o /\ out_ok o = false) ->
  plan v c h out fault t = [] /\ failed (snd (run v c h out fault t)) = true.
Proof. exact rejected_noop. Qed.
Print Assumptions C10_rejected_noop.

(* With both checks every mutation of every plan is (a) a deletion below ./data/<ns>, ./data/<override>, ./data/minecraft,
   that folder being spelled with plain names (what lies below comes from directory listings), (b) at a path spelled "."
   followed by plain names only ([seg_ok]; plain = not "", ".", "..", no "/" or "\" inside), or (c) a #copy destination
   (names from the listing of the copied folder).  Header and sources cannot make the build address anything through "..":
   the lexical territory of C10_territory is the real one. *)
Theorem C10_paths_lexical : forall v c h out fault t x,
  v_cert_early v = false -> v_ns_checked v = true -> v_paths_checked v = true ->
  plain (c_ns c) = true -> plain (c_ff c) = true ->
  In x (plan v c h out fault t) ->
  (exists F, folderish c h F /\ seg_ok F /\ is_prefix F (op_path x) = true /\ is_mkdir x = false)
  \/ seg_ok (op_path x)
  \/ In (op_path x) (copy_paths h).
Proof. exact paths_lexical. Qed.
Print Assumptions C10_paths_lexical.

(* [hardened] (no resource-path check; finding C10-resource-path-escapes until the patch is committed):
   Predicate.locations(name="../../foreign/predicate/x") makes the build create data/ns/predicate/../../foreign/predicate/x.json *)
Theorem C10_paths_lexical_refuted_hardened :
  exists x, In x (plan hardened w_cfg w_hdr0 (Success u_out) None w_empty) /\ creates x = true /\
            In ".."%string (op_path x).
Proof. exact paths_lexical_refuted_hardened. Qed.
Print Assumptions C10_paths_lexical_refuted_hardened.

(* ... the same project, `#override ".."` and `#link <own namespace>` under [guarded]: rejected, nothing touched *)
Example C10_unsafe_input_rejected_guarded :
  run guarded w_cfg w_hdr0 (Success u_out) None w_empty = ([], RBuildErr) /\
  run guarded w_cfg (mkHdr [] [".."%string] None false) (Success w_out) None w_empty = ([], RHeaderErr) /\
  run guarded w_cfg (mkHdr [] ["ns"%string] None false) (Success w_out) None w_empty = ([], RHeaderErr).
Proof. exact unsafe_path_rejected_guarded. Qed.
Print Assumptions C10_unsafe_input_rejected_guarded.

(* #static without the [static_safe] proviso: a node inside a #static folder (the folder itself included: `#static "."`,
   `#static "../minecraft"`, `#static "../<override>"` - statics that ARE a deleted folder) changes only where the build
   itself writes, i.e. where it begins the path of jmc.txt / jmc.txt.tmp, a function tag, an emitted file, pack.mcmeta or
   a #copy destination.  Everything else in it is byte-identical at every crash point. *)
Theorem C10_statics_pointwise : forall v c h out fault t ops t' p,
  sound v ->
  crash_trace (plan v c h out fault t) ops -> exec ops t = Some t' ->
  excepted h p = true ->
  (forall o w, gate v c h out = Success o -> In w (written_paths c h o) -> is_prefix p w = false) ->
  node_at t' p = node_at t p.
Proof. exact statics_pointwise. Qed.
Print Assumptions C10_statics_pointwise.

(* pinned: refuted for a fresh namespace (read_cert writes jmc.txt before lexing) ... *)
Theorem C10_refuted_fresh_cert_pinned :
  exists c h out t t', (forall o, out <> Success o) /\
    exec (plan pinned c h out None t) t = Some t' /\ node_at t (cert_path c) = None /\
    node_at t' (cert_path c) = Some (NFile (Raw (c_cert c))).
Proof. exact g_failed_compile_noop_refuted_pinned. Qed.
Print Assumptions C10_refuted_fresh_cert_pinned.

(* ... and true on the pinned tree only when the namespace folder already exists *)
Theorem C10_failed_compile_noop_pinned_partial : forall c h out fault t,
  (forall o, out <> Success o) -> is_dir t (ns_dir c) = true -> plan pinned c h out fault t = [].
Proof. exact g_failed_compile_noop_pinned_partial. Qed.
Print Assumptions C10_failed_compile_noop_pinned_partial.

(* [fixed] (tag files read after make_cert / #copy; known finding C10-malformed-tag-after-mutation while
   fixes/C10-function-tags-read-first.patch is not committed): the JMCBuildError raised for an unparsable function-tag
   file comes after jmc.txt has been written ... *)
Theorem C10_tag_error_noop_refuted_fixed :
  exists c h o t t', run fixed c h (Success o) None t = (plan fixed c h (Success o) None t, RTagErr) /\
    exec (plan fixed c h (Success o) None t) t = Some t' /\
    node_at t (cert_path c) = None /\ node_at t' (cert_path c) <> None.
Proof. exact g_tag_error_noop_refuted_fixed. Qed.
Print Assumptions C10_tag_error_noop_refuted_fixed.

(* ... the same tree and project under [hardened]: the error is reported and nothing is touched *)
Example C10_tag_error_noop_hardened :
  run hardened w_cfg w_hdr0 (Success w_out) None w_tree_badtag = ([], RTagErr).
Proof. exact g_tag_error_noop_hardened. Qed.
Print Assumptions C10_tag_error_noop_hardened.

(* non-vacuity: the hypotheses (a plan that executes) are satisfiable, and such a build does change the tree *)
Example C10_build_executes :
  exists t', exec (plan fixed w_cfg w_hdr_mc (Success w_out) None w_tree_mc) w_tree_mc = Some t' /\
    snd (run fixed w_cfg w_hdr_mc (Success w_out) None w_tree_mc) = RDone /\
    node_at t' ["."; "data"; "ns"; "function"; "g.mcfunction"]%string = Some (NFile (Raw "say g")) /\
    node_at t' ["."; "data"; "minecraft"; "keep"; "m.txt"]%string = Some (NFile (Raw "kept by hand")).
Proof. exact g_build_executes. Qed.
Print Assumptions C10_build_executes.

(* non-vacuity for [hardened]: the complete build executes; jmc.txt arrives through jmc.txt.tmp + replace *)
Example C10_build_executes_hardened :
  exists t', exec (plan hardened w_cfg w_hdr_mc (Success w_out) None w_tree_mc) w_tree_mc = Some t' /\
    snd (run hardened w_cfg w_hdr_mc (Success w_out) None w_tree_mc) = RDone /\
    In (Replace (cert_path w_cfg) (Raw "LOAD=__load__"%string)) (plan hardened w_cfg w_hdr_mc (Success w_out) None w_tree_mc) /\
    node_at t' (cert_path w_cfg) = Some (NFile (Raw "LOAD=__load__"%string)) /\ node_at t' (cert_tmp w_cfg) = None /\
    node_at t' ["."; "data"; "ns"; "function"; "g.mcfunction"]%string = Some (NFile (Raw "say g")) /\
    node_at t' ["."; "data"; "minecraft"; "keep"; "m.txt"]%string = Some (NFile (Raw "kept by hand")).
Proof. exact g_build_executes_hardened. Qed.
Print Assumptions C10_build_executes_hardened.

(* ---- Strengthening round 4: path SPELLINGS (Model/BuildPath.v).
   The paths above are canonical lists of names.  What JMC is given are spellings: the output directory of the configuration
   (`cwd / "../out"`, a relative path, a path through a symbolic link, `a/lnk/../out`) and the argument of `#static`
   (`./keep`, `a/../keep`, `../minecraft/loot_table`, `keep/`, an absolute path).  [resolve L acc s] is os.path.realpath
   (Path.resolve(): "" and "." dropped, ".." = parent of what is resolved so far, a symbolic link of the table [L] continues at
   the location it denotes); [static_of E c a] is the folder a `#static` argument denotes, as a path of the model;
   [run_spelled] is the build given the header and the output directory AS WRITTEN.  The harness hands the model the
   spellings, not the paths the code under test computed from them. *)

(* "" (doubled / trailing "/") and "." may be inserted anywhere in a spelling ... *)
Theorem C10_spelling_dot_segments : forall L a x b acc,
  skip x = true -> resolve L acc (a ++ x :: b) = resolve L acc (a ++ b).
Proof. exact resolve_skip. Qed.
Print Assumptions C10_spelling_dot_segments.

(* ... and so may `name/..`, unless `name` is a symbolic link there (`..` is then the parent of the link's target) *)
Theorem C10_spelling_down_up : forall L a x b acc,
  skip x = false -> dotdot x = false -> link_at (resolve L acc a ++ [x]) L = None ->
  resolve L acc (a ++ x :: ".."%string :: b) = resolve L acc (a ++ b).
Proof. exact resolve_down_up. Qed.
Print Assumptions C10_spelling_down_up.

Theorem C10_spelling_through_link : forall L a x b acc t,
  skip x = false -> dotdot x = false -> link_at (resolve L acc a ++ [x]) L = Some t ->
  resolve L acc (a ++ x :: b) = resolve L t b.
Proof. exact resolve_link. Qed.
Print Assumptions C10_spelling_through_link.

(* the stored static folder is canonical: resolving it again changes nothing (what the consumers in compiling.py rely on
   when they compare it with resolved paths) *)
Theorem C10_resolve_idempotent : forall L s, wf_links L -> resolve L [] (resolve L [] s) = resolve L [] s.
Proof. exact resolve_idem. Qed.
Print Assumptions C10_resolve_idempotent.

(* EVERY spelling of a relative `#static` argument that denotes the folder [r] of the output directory - whatever "", ".",
   `name/..`, `../<namespace>/...` it contains and however the output directory itself is spelled - is the model path "." :: r *)
Theorem C10_static_any_spelling : forall E c s r,
  ns_unlinked E c = true ->
  resolve (e_links E) (out_canon E ++ ["data"; c_ns c]%string) s = out_canon E ++ r ->
  static_of E c (rel s) = "."%string :: r.
Proof. exact static_of_inside. Qed.
Print Assumptions C10_static_any_spelling.

(* two spellings of the output directory that denote the same directory give every relative argument the same folder *)
Theorem C10_output_spelling_irrelevant : forall L o1 o2 c s,
  resolve L [] o1 = resolve L [] o2 -> ns_unlinked (mkEnv L o1) c = true ->
  static_of (mkEnv L o1) c (rel s) = static_of (mkEnv L o2) c (rel s).
Proof. exact static_of_out_spelling. Qed.
Print Assumptions C10_output_spelling_irrelevant.

(* The build is a function of the SET of folders the `#static` arguments denote: two headers as written, two spellings of the
   output directory, any links - same folders, same mutations and same result, on every tree, for every outcome of the front
   end and every injected failure. *)
Theorem C10_static_spelling_irrelevant : forall v E E' c rh rh' out fault t,
  rh_overrides rh' = rh_overrides rh -> rh_copy rh' = rh_copy rh -> rh_nometa rh' = rh_nometa rh ->
  (forall p, In p (map (static_of E' c) (rh_statics rh')) <-> In p (map (static_of E c) (rh_statics rh))) ->
  run_spelled v E' c rh' out fault t = run_spelled v E c rh out fault t.
Proof. exact static_spelling_irrelevant. Qed.
Print Assumptions C10_static_spelling_irrelevant.

(* #static folders stay byte-identical for every spelling: each argument [a] of the header as written shields the folder it
   denotes and everything below it, at every crash point, except where the build itself writes (C10_statics_pointwise). *)
Theorem C10_statics_untouched_spelled : forall v E c rh out fault t ops t' a p,
  sound v ->
  crash_trace (plan_spelled v E c rh out fault t) ops -> exec ops t = Some t' ->
  In a (rh_statics rh) -> is_prefix (static_of E c a) p = true ->
  (forall o w, gate v c (hdr_of E c rh) out = Success o -> In w (written_paths c (hdr_of E c rh) o) -> is_prefix p w = false) ->
  node_at t' p = node_at t p.
Proof. exact statics_untouched_spelled. Qed.
Print Assumptions C10_statics_untouched_spelled.

(* non-vacuity.  /w/lnk -> /w, /w/a/lnk2 -> /w/proj, /w/outlnk -> /w/out.  8 spellings of the output directory
   (/w/out, /w/proj/../out, /w/out/, /w/./out/., /w/lnk/out, /w/outlnk, /w/a/lnk2/../out, ...) x 8 spellings of the
   argument (keep, ./keep, a/../keep, keep/, function/../keep/., ../ns/keep, ../../data/ns/keep, keep/sub/..): all 64 denote
   ./data/ns/keep *)
Example C10_sixty_four_spellings : forallb (fun o => forallb (fun k =>
    path_eqb (static_of (mkEnv p_links o) p_cfg (rel k)) ["."; "data"; "ns"; "keep"]%string) p_keeps) p_outs = true.
Proof. exact p_all_spellings. Qed.
Print Assumptions C10_sixty_four_spellings.

(* ... and a rebuild with `#static "function/../keep/."`, output given as /w/a/lnk2/../out, keeps the folder while the old
   function file goes *)
Example C10_spelled_rebuild_keeps :
  let E := mkEnv p_links ["w"; "a"; "lnk2"; ".."; "out"]%string in
  let rh := mkRHdr [rel ["function"; ".."; "keep"; "."]%string] [] None false in
  exists t', exec (plan_spelled guarded E p_cfg rh (Success p_out) None p_tree) p_tree = Some t' /\
    snd (run_spelled guarded E p_cfg rh (Success p_out) None p_tree) = RDone /\
    node_at t' ["."; "data"; "ns"; "keep"; "a.txt"]%string = Some (NFile (Raw "precious")) /\
    node_at t' ["."; "data"; "ns"; "function"; "old.mcfunction"]%string = None /\
    node_at t' ["."; "data"; "ns"; "function"; "g.mcfunction"]%string = Some (NFile (Raw "say g")).
Proof. exact p_rebuild_keeps. Qed.
Print Assumptions C10_spelled_rebuild_keeps.

(* Round 5: a resource of the program goes to an override namespace only when its FIRST SEGMENT EQUALS a declared name; a folder
   whose name merely starts with (or is a prefix of) a declared name is the pack's own: its file lies below data/<ns>. *)
Theorem C10_override_needs_equal_segment : forall c h x r,
  ~ In x (h_overrides h) ->
  is_prefix (ns_dir c) (func_file c h (x :: r)) = true /\ is_prefix (ns_dir c) (json_file c h (x :: r)) = true.
Proof.
  intros c h x r H. unfold func_file, json_file.
  destruct (mem x (h_overrides h)) eqn:E; [exfalso; apply H, mem_in, E|].
  split; apply is_prefix_app.
Qed.
Print Assumptions C10_override_needs_equal_segment.
Example C10_prefix_name_is_own :
  func_file (mkCfg "ns" "function" "" "__load__" "__tick__") (mkHdr [] ["lib"%string] None false) ["library"; "init"]%string
  = ["."; "data"; "ns"; "function"; "library"; "init.mcfunction"]%string.
Proof. reflexivity. Qed.
