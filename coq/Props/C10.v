(* C10 — Disk build touches only its own territory; failed compiles change nothing.
   Model: Model/FS.v (directory tree, primitive mutations), Model/Build.v (compile_jmc as a plan of mutations).
   The theorems are about the REPAIRED behaviour: every [sound] variant, i.e. [fixed] (fixes/C10-cert-after-compile.patch,
   C10-static-minecraft.patch, C10-static-resolved-path.patch, C11-namespace-deleted-last.patch) and [hardened]
   (in addition fixes/C10-function-tags-read-first.patch — needed by C10_failed_build_noop — and fixes/C11-atomic-cert.patch);
   the `_refuted_pinned` theorems show what the original tree ([pinned]) does instead, `_refuted_fixed` what [fixed] still did.
   Which variant a source tree has is detected by harness/c10.py with witness builds.
   Tie: harness/c10.py runs the real compile_jmc under harness/fstrace.py and compares trace, tree and result
   with Build.run, and checks the property itself on the real trees (Run/C10.v). *)
From Coq Require Import String List Bool.
From JMCV Require Import Model.FS Model.Build Proofs.FS Proofs.Build Proofs.BuildC10.
Import ListNotations.

(* Territory.  For every initial tree [t], configuration, header facts, outcome of the front end, injected
   deletion failure, for BOTH variants, and for every point at which the build may be killed
   ([crash_trace]: any prefix of the plan, the last write possibly torn; the complete plan is one of them):
   a node that differs afterwards lies under data/<ns>, data/<override>, data/minecraft, is pack.mcmeta or a
   #copy destination ([terr_b]) — or it is the output directory / its data folder, which was absent and now is
   a directory.  Everything else is identical. *)
Theorem C10_territory : forall v c h out fault t ops t' p,
  crash_trace (plan v c h out fault t) ops -> exec ops t = Some t' ->
  node_at t' p <> node_at t p ->
  terr_b c h p = true \/ (anc_b p = true /\ node_at t p = None /\ node_at t' p = Some NDir).
Proof. exact territory. Qed.
Print Assumptions C10_territory.

(* #static folders and everything below them are byte-identical, at every crash point (repaired behaviour). *)
Theorem C10_statics_untouched : forall v c h out fault t ops t' p,
  sound v ->
  (forall o, out = Success o -> static_safe c h o = true) ->
  crash_trace (plan v c h out fault t) ops -> exec ops t = Some t' ->
  excepted h p = true -> node_at t' p = node_at t p.
Proof. exact statics_untouched. Qed.
Print Assumptions C10_statics_untouched.

(* pinned: `#static "../minecraft/keep"` is deleted (data/minecraft goes through plain shutil.rmtree) *)
Theorem C10_static_minecraft_refuted_pinned :
  exists c h o t t' p, static_safe c h o = true /\ excepted h p = true /\
    exec (plan pinned c h (Success o) None t) t = Some t' /\
    node_at t p = Some (NFile (Raw "kept by hand")) /\ node_at t' p = None.
Proof. exact static_minecraft_refuted_pinned. Qed.
Print Assumptions C10_static_minecraft_refuted_pinned.

(* A namespace folder that lacks jmc.txt is never touched: plan = [] and the result is the refusal. *)
Theorem C10_refusal : forall v c h out fault t,
  is_dir t (ns_dir c) = true -> is_file t (cert_path c) = false ->
  run v c h out fault t = ([], if match out with FailHeader => true | _ => false end then RHeaderErr else RRefused).
Proof. exact refusal. Qed.
Print Assumptions C10_refusal.

(* A compile that ends in a compilation error (header, lexer/parser, DataPack.build) performs no mutation
   (repaired behaviour). *)
Theorem C10_failed_compile_noop : forall v c h out fault t,
  v_cert_early v = false ->
  (forall o, out <> Success o) -> plan v c h out fault t = [] /\ exec (plan v c h out fault t) t = Some t.
Proof. exact failed_compile_noop. Qed.
Print Assumptions C10_failed_compile_noop.

(* ... and so does a build that stops with the JMCBuildError for an unparsable / "values"-less function-tag file, once
   the tag files are read before the first mutation ([v_tags_early], fixes/C10-function-tags-read-first.patch):
   EVERY way a compile can fail ([failed]: header error, refusal, lexer/parser error, DataPack.build error, tag error)
   leaves the tree exactly as it was.  The one result that is neither success nor [failed] is ROsErr — the operating
   system refused a deletion half-way — whose effect C10_territory bounds. *)
Theorem C10_failed_build_noop : forall v c h out fault t,
  v_cert_early v = false -> v_tags_early v = true ->
  failed (snd (run v c h out fault t)) = true ->
  plan v c h out fault t = [] /\ exec (plan v c h out fault t) t = Some t.
Proof. exact failed_build_noop. Qed.
Print Assumptions C10_failed_build_noop.

(* pinned: refuted for a fresh namespace (read_cert writes jmc.txt before lexing) ... *)
Theorem C10_refuted_fresh_cert_pinned :
  exists c h out t t', (forall o, out <> Success o) /\
    exec (plan pinned c h out None t) t = Some t' /\ node_at t (cert_path c) = None /\
    node_at t' (cert_path c) = Some (NFile (Raw (c_cert c))).
Proof. exact failed_compile_noop_refuted_pinned. Qed.
Print Assumptions C10_refuted_fresh_cert_pinned.

(* ... and true on the pinned tree only when the namespace folder already exists *)
Theorem C10_failed_compile_noop_pinned_partial : forall c h out fault t,
  (forall o, out <> Success o) -> is_dir t (ns_dir c) = true -> plan pinned c h out fault t = [].
Proof. exact failed_compile_noop_pinned_partial. Qed.
Print Assumptions C10_failed_compile_noop_pinned_partial.

(* [fixed] (tag files read after make_cert / #copy; known finding C10-malformed-tag-after-mutation while
   fixes/C10-function-tags-read-first.patch is not committed): the JMCBuildError raised for an unparsable function-tag
   file comes after jmc.txt has been written ... *)
Theorem C10_tag_error_noop_refuted_fixed :
  exists c h o t t', run fixed c h (Success o) None t = (plan fixed c h (Success o) None t, RTagErr) /\
    exec (plan fixed c h (Success o) None t) t = Some t' /\
    node_at t (cert_path c) = None /\ node_at t' (cert_path c) <> None.
Proof. exact tag_error_noop_refuted_fixed. Qed.
Print Assumptions C10_tag_error_noop_refuted_fixed.

(* ... the same tree and project under [hardened]: the error is reported and nothing is touched *)
Example C10_tag_error_noop_hardened :
  run hardened w_cfg w_hdr0 (Success w_out) None w_tree_badtag = ([], RTagErr).
Proof. exact tag_error_noop_hardened. Qed.
Print Assumptions C10_tag_error_noop_hardened.

(* non-vacuity: the hypotheses (a plan that executes) are satisfiable, and such a build does change the tree *)
Example C10_build_executes :
  exists t', exec (plan fixed w_cfg w_hdr_mc (Success w_out) None w_tree_mc) w_tree_mc = Some t' /\
    snd (run fixed w_cfg w_hdr_mc (Success w_out) None w_tree_mc) = RDone /\
    node_at t' ["."; "data"; "ns"; "function"; "g.mcfunction"]%string = Some (NFile (Raw "say g")) /\
    node_at t' ["."; "data"; "minecraft"; "keep"; "m.txt"]%string = Some (NFile (Raw "kept by hand")).
Proof. exact build_executes. Qed.
Print Assumptions C10_build_executes.

(* non-vacuity for [hardened]: the complete build executes; jmc.txt arrives through jmc.txt.tmp + replace *)
Example C10_build_executes_hardened :
  exists t', exec (plan hardened w_cfg w_hdr_mc (Success w_out) None w_tree_mc) w_tree_mc = Some t' /\
    snd (run hardened w_cfg w_hdr_mc (Success w_out) None w_tree_mc) = RDone /\
    In (Replace (cert_path w_cfg) (Raw "LOAD=__load__"%string)) (plan hardened w_cfg w_hdr_mc (Success w_out) None w_tree_mc) /\
    node_at t' (cert_path w_cfg) = Some (NFile (Raw "LOAD=__load__"%string)) /\ node_at t' (cert_tmp w_cfg) = None /\
    node_at t' ["."; "data"; "ns"; "function"; "g.mcfunction"]%string = Some (NFile (Raw "say g")) /\
    node_at t' ["."; "data"; "minecraft"; "keep"; "m.txt"]%string = Some (NFile (Raw "kept by hand")).
Proof. exact build_executes_hardened. Qed.
Print Assumptions C10_build_executes_hardened.
