(* Property C20 — Math.sqrt and Math.random meet their numeric contracts for every input.
   Only statements of theorems, closed by `exact`, and Print Assumptions.
   The emitted code the theorems speak about (Model.MathFn: sqrt_run / sqrt_nr_body /
   sqrt_main_body, random_run / random_main_body / random_setup_body) is compared with
   what the current tree emits on every run (coq/Gen/C20/MathEmitted_<k>.v, harness/c20.py). *)
From Coq Require Import ZArith String List Bool.
From JMCV Require Import Base.Int32 Base.Dec MC.Syntax MC.Sem Model.Names Model.VarOp Proofs.VarOp
     Model.MathFn Proofs.MathFnNewton Proofs.MathFnLcg Proofs.MathFn Proofs.MathFnRange.
Import ListNotations.
Open Scope Z_scope.

(* ------------------------------------------------------------------ Math.sqrt *)

(* FULL STRENGTH.  For every names configuration, every target and argument score
   (also target = argument, or either being one of the scratch scores), every n with
   0 <= n <= 2^31-1 and every state in which the argument reads n and the constant
   `2 __int__` is loaded: the emitted commands are well-formed; there is fuel for which
   the call terminates; the target then holds floor(sqrt n); every other score that is
   not one of the five `__math__.*`/`__main__.*` scratch scores reads as before (and is
   literally unchanged unless it is the argument, which Minecraft may turn from unset
   into an explicit 0); storage and output are unchanged.
   [sqrt_post nm target arg r st st' :=
      sc st' target = Some r /\
      (forall k, k <> target -> ~ In k (sqrt_scratch nm) ->
         rd (sc st') k = rd (sc st) k /\ (k <> arg -> sc st' k = sc st k)) /\
      stg st' = stg st /\ tr st' = tr st] *)
Theorem C20_sqrt :
  forall ft env nm target arg st n,
    sqrt_ft_ok nm ft ->
    rd (sc st) arg = n -> 0 <= n <= INT_MAX -> sc st (kscore nm 2) = Some 2 ->
    forallb wf_cmd (sqrt_run nm target arg ++ sqrt_nr_body nm ++ sqrt_main_body nm) = true /\
    exists fuel st', exec_list ft env fuel (sqrt_run nm target arg) st = Some st' /\
                     sqrt_post nm target arg (Z.sqrt n) st st'.
Proof. exact sqrt_correct. Qed.
Print Assumptions C20_sqrt.

(* No intermediate value leaves int32 (so the result does not rely on wrap-around):
   the same computation on unbounded integers — `sqrt_trace n vs r`: the Newton run
   from 1225 (never dividing by 0), then y*y and the conditional decrement, with `vs`
   all values written on the way — ends in floor(sqrt n) and all of vs are int32 … *)
Theorem C20_sqrt_no_overflow :
  forall n, 0 <= n <= INT_MAX ->
    exists vs, sqrt_trace n vs (Z.sqrt n) /\ Forall in_int32 vs.
Proof. exact sqrt_ideal. Qed.
Print Assumptions C20_sqrt_no_overflow.

(* … and the emitted code computes exactly that unbounded run whenever its values are
   int32 (any n, any names, any target/argument). *)
Theorem C20_sqrt_follows_ideal :
  forall ft env nm, sqrt_ft_ok nm ft ->
  forall target arg st n vs r,
    sqrt_trace n vs r -> Forall in_int32 vs ->
    rd (sc st) arg = n -> sc st (kscore nm 2) = Some 2 ->
    exists fuel st', exec_list ft env fuel (sqrt_run nm target arg) st = Some st' /\
                     sqrt_post nm target arg r st st'.
Proof. exact sqrt_simulates. Qed.
Print Assumptions C20_sqrt_follows_ideal.

(* ------------------------------------------------------------------ Math.random *)

(* FULL STRENGTH (partial correctness, repaired MathRandom).  For every names
   configuration, target, min and max (integer literal, $variable or objective:selector —
   also min = target and max = target), every seed, every multiplier/increment, every
   int32 state with 1 <= max - min + 1 <= 2^31-1: the emitted commands are well-formed,
   and every terminating run leaves min <= target <= max (min, max read *before* the call);
   every other score that is not one of the six `__math__.*` scratch scores reads as
   before and is literally unchanged unless it is an operand / the __int__ constant.
   [random_post nm target lo hi a b st st' :=
      (exists v, sc st' target = Some v /\ a <= v <= b) /\
      (forall k, k <> target -> ~ In k (random_scratch nm) ->
         rd (sc st') k = rd (sc st) k /\
         (~ In k (opnd_scores lo ++ opnd_scores hi ++ map (kscore nm) (random_ints lo)) -> sc st' k = sc st k)) /\
      stg st' = stg st /\ tr st' = tr st] *)
Theorem C20_random_range :
  forall ft env nm target lo hi st,
    random_ft_ok nm ft ->
    ~ In target (random_scratch nm) -> opnd_ok nm lo -> opnd_ok nm hi ->
    (forall z, In z (random_ints lo) -> target <> kscore nm z) ->
    kloaded nm st (random_ints lo) -> int32_state st ->
    1 <= opnd_val st hi - opnd_val st lo + 1 <= INT_MAX ->
    forallb wf_cmd (random_run nm target lo hi ++ random_main_body nm) = true /\
    forall fuel st', exec_list ft env fuel (random_run nm target lo hi) st = Some st' ->
                     random_post nm target lo hi (opnd_val st lo) (opnd_val st hi) st st'.
Proof. exact random_range_thm. Qed.
Print Assumptions C20_random_range.

(* FULL STRENGTH (total correctness).  With the multiplier 656891 and increment 875773
   that setup.mcfunction stores, the rejection loop terminates for every seed and every
   bound, so the call always ends within the bounds.  (Recursion depth is not bounded by
   this theorem: MC.Sem does not model maxCommandChainLength.) *)
Theorem C20_random_correct :
  forall ft env nm target lo hi st,
    random_ft_ok nm ft ->
    ~ In target (random_scratch nm) -> opnd_ok nm lo -> opnd_ok nm hi ->
    (forall z, In z (random_ints lo) -> target <> kscore nm z) ->
    kloaded nm st (random_ints lo) -> int32_state st ->
    1 <= opnd_val st hi - opnd_val st lo + 1 <= INT_MAX ->
    sc st (rn_a nm) = Some LCG_A -> sc st (rn_c nm) = Some LCG_C ->
    exists fuel st', exec_list ft env fuel (random_run nm target lo hi) st = Some st' /\
                     random_post nm target lo hi (opnd_val st lo) (opnd_val st hi) st st'.
Proof. exact random_correct_thm. Qed.
Print Assumptions C20_random_correct.

(* What `tmp = result - result % bound + bound; execute if score tmp matches ..0` tests,
   wrap-around included: a fresh seed s is kept iff 0 <= s and the block of `bound`
   consecutive values containing s ends at or below 2^31-1 (no modulo bias); negative
   seeds are always rejected. *)
Theorem C20_random_rejection_test :
  forall b s, 1 <= b <= INT_MAX -> in_int32 s ->
    (lcg_acc b s -> 0 < tmp_of b s) /\ (~ lcg_acc b s -> tmp_of b s <= 0).
Proof. exact rejection_test_thm. Qed.
Print Assumptions C20_random_rejection_test.

(* From every seed the generator reaches an accepted seed, for every bound: its
   2^29-fold iterate is x -> x -/+ 2^30 (mod 2^32), computed by repeated squaring. *)
Theorem C20_lcg_always_reaches :
  forall b s, 1 <= b <= INT_MAX -> lcg_reaches b s.
Proof. exact lcg_always_reaches. Qed.
Print Assumptions C20_lcg_always_reaches.

(* setup.mcfunction (run from __load__ when the seed is unset) is well-formed and establishes
   the hypotheses on multiplier and increment *)
Theorem C20_random_setup :
  forall ft env nm st,
    forallb wf_cmd (random_load_line nm :: random_setup_body nm) = true /\
    exists st', exec_list ft env 3 (random_setup_body nm) st = Some st' /\
      sc st' (rn_a nm) = Some LCG_A /\ sc st' (rn_c nm) = Some LCG_C /\ is_set st' (rn_seed nm) /\
      (forall k, k <> rn_a nm -> k <> rn_c nm -> k <> rn_seed nm -> sc st' k = sc st k).
Proof. exact random_setup_effect. Qed.
Print Assumptions C20_random_setup.

(* `execute … run $x = Math.…(…)`: the commands are moved into a private function; calling
   it is the same as running them inline. *)
Theorem C20_wrapped_call :
  forall ft env fuel me f run st st',
    ft f = Some run -> exec_list ft env fuel run st = Some st' ->
    exec ft env (S fuel) me (CCall f) st = Some (st', r_ok 0).
Proof. exact wrapped_call_thm. Qed.
Print Assumptions C20_wrapped_call.

(* The bound `max - min + 1 <= 2^31-1` of the property's quantifier is sharp for constant arguments: for EVERY pair
   of integer literals beyond it (e.g. `Math.random(0)` = (0, 2147483647), `Math.random(min=-2147483648, max=5)`)
   the current tree emits `scoreboard players set __math__.rng.bound … <max-min+1>` with an amount that is not a
   Java int — not a well-formed command, the function does not load.  The model term has no notion of how the
   arguments are spelled (positional, keyword, macro …): harness/c20.py checks on every run that every spelling
   of a call gives this one text.  These calls lie OUTSIDE the property's quantifier; this is not a `_refuted`. *)
Theorem C20_random_constant_range_beyond_quantifier_not_wf :
  forall nm target a b,
    INT_MAX < b - a + 1 ->
    forallb wf_cmd (random_run nm target (PLit a) (PLit b)) = false.
Proof. exact random_const_range_beyond_not_wf. Qed.
Print Assumptions C20_random_constant_range_beyond_quantifier_not_wf.

(* ------------------------------------------------------------------ the pinned tree (before the fix) *)
(* Regression witnesses of the two defects repaired by the `fix:` commits a9e13bd / 2cdc990
   (= fixes/C20-random-min-alias-and-int32-literals.patch): what the pinned MathRandom emitted
   (random_run_pinned, a model of the *old* text, not of the current tree) violated the
   property — an aliased min doubles the result, and three argument shapes produced
   commands Minecraft rejects. *)
Theorem C20_pinned_alias_defect_witness :
  let nm := default_names in
  let x := vs nm "$x" in
  let st := demo_state [(x, 3); (rn_seed nm, 6); (rn_a nm, LCG_A); (rn_c nm, LCG_C)] in
  exists st', exec_list (demo_ft nm) (fun _ s => s) 20 (random_run_pinned nm x (PScore x) (PLit 10)) st = Some st' /\
              sc st' x = Some 14.
Proof. exact random_alias_pinned_refuted. Qed.
Print Assumptions C20_pinned_alias_defect_witness.

Theorem C20_pinned_literal_defect_witness :
  forall nm target s t,
    forallb wf_cmd (random_run_pinned nm target (PScore s) (PLit INT_MAX)) = false /\
    forallb wf_cmd (random_run_pinned nm target (PLit INT_MIN) (PScore t)) = false /\
    forallb wf_cmd (random_run_pinned nm target (PLit INT_MIN) (PLit (-5))) = false.
Proof. exact random_pinned_not_wf. Qed.
Print Assumptions C20_pinned_literal_defect_witness.

(* ------------------------------------------------------------------ non-vacuity *)
(* The hypotheses of C20_sqrt are satisfiable and the emitted code, run by MC.Sem on a
   concrete state, gives 46340 for n = 2^31-1 and 0 for n = 0. *)
Example C20_sqrt_nonvacuous :
  let nm := default_names in
  let r := vs nm "$r" in let a := vs nm "$n" in
  sqrt_ft_ok nm (demo_ft nm) /\
  (let st := demo_state [(a, INT_MAX); (kscore nm 2, 2)] in
   rd (sc st) a = INT_MAX /\ sc st (kscore nm 2) = Some 2 /\
   match exec_list (demo_ft nm) (fun _ s => s) 40 (sqrt_run nm r a) st with
   | Some st' => sc st' r = Some 46340 | None => False end) /\
  (let st := demo_state [(kscore nm 2, 2)] in
   match exec_list (demo_ft nm) (fun _ s => s) 40 (sqrt_run nm r a) st with
   | Some st' => sc st' r = Some 0 | None => False end).
Proof. vm_compute. repeat split; reflexivity. Qed.

(* `$x = Math.random($x, 10)` with x = 3 on the repaired code: the result 10 is within 3..10;
   and a negative constant min with a variable max. *)
Example C20_random_nonvacuous :
  let nm := default_names in
  let x := vs nm "$x" in
  random_ft_ok nm (demo_ft nm) /\
  (let st := demo_state [(x, 3); (rn_seed nm, 6); (rn_a nm, LCG_A); (rn_c nm, LCG_C)] in
   match exec_list (demo_ft nm) (fun _ s => s) 20 (random_run nm x (PScore x) (PLit 10)) st with
   | Some st' => sc st' x = Some 10 | None => False end) /\
  (let st := demo_state [(x, 3); (rn_seed nm, -77); (rn_a nm, LCG_A); (rn_c nm, LCG_C)] in
   match exec_list (demo_ft nm) (fun _ s => s) 20 (random_run nm x (PLit (-5)) (PScore x)) st with
   | Some st' => match sc st' x with Some v => -5 <= v <= 3 | None => False end | None => False end).
Proof. vm_compute. repeat split; try reflexivity; discriminate. Qed.
