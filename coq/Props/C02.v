(* Property C02 — expression assignment `target := expr` and `:+= :-= :*= :/= :%=`.
   Only statements of theorems, closed by `exact`, each followed by Print Assumptions.

   The model (Model/Expr*.v) is a faithful port of the pinned pipeline, quirks included, and is
   tied to /repo by exact text equality on every run.  Two one/two-line defects are repaired by
   fixes/C02-optconst-identity.patch and fixes/C02-evalexpr-unary-plus.patch, and the model
   describes the repaired code.  The FULL statement of the property,

     C02_expr_correct :
       forall nm target form e st, lits_ok e = true -> loaded … ->
         exists cmds ints, compile_expr nm target form e = (Ok (cmds, ints), _) /\ wf cmds /\
           exists st', exec cmds st = Some st' /\
             (forall v, form_sem form (old target) (eval e) = Some v -> target holds v in st') /\
             no other user variable changes,

   is FALSE for the pinned code in 16 independent ways: C02_refuted_* give one witness per defect
   class (the tag fired by the quirky branch), proved by computation on the model.  What holds:
   C02_lowering_correct / C02_lowering_wf (every operation list, no hypothesis on its shape) and
   C02_partial (the full conclusion for `:=` on the clean fragment, by induction on the tree). *)
From Coq Require Import ZArith String List Bool.
From JMCV Require Import Base.Int32 Base.Dec MC.Syntax MC.Sem Model.Names Model.VarOp Proofs.VarOp
     Model.Expr Model.ExprSpec Model.ExprFront Model.ExprBack
     Proofs.ExprLower Proofs.ExprRefute Proofs.ExprParse Proofs.ExprOps Proofs.ExprClean Proofs.ExprSmall.
Import ListNotations.
Open Scope Z_scope.

(* ------------------------------------------------------------------ lowering: full strength *)
(* For EVERY list of (variable, operator, number) triples (any length, any operators, constants of
   any sign and size incl. -2^31, variables aliasing each other), every function table, every
   meaning of abstract sub-programs and every state in which the requested __int__ constants are
   materialised: the emitted commands run to completion and leave every score with the value the
   interpreter of operation lists gives it; storage and trace are untouched.
   (Side condition: no triple assigns into the __int__ objective.) *)
Theorem C02_lowering_correct :
  forall ft env nm ops cmds ints tags st all,
    lower nm ops = (Ok (cmds, ints), tags) ->
    (forall o, In o ops -> snd (o_var o) <> int_name nm) ->
    loaded nm st all -> (forall z, In z ints -> In z all) ->
    exists st', exec_list ft env 1 cmds st = Some st' /\
      (forall k, rd (sc st') k = interp_ops ops (rd (sc st)) k) /\
      loaded nm st' all /\ stg st' = stg st /\ tr st' = tr st.
Proof. exact lower_correct_gen. Qed.
Print Assumptions C02_lowering_correct.

(* The emitted commands together with the __load__ lines of their constants are accepted by
   Minecraft exactly when the tag const_range did not fire (add/remove amounts 0..2^31-1, set and
   __int__ constants in int32). *)
Theorem C02_lowering_wf :
  forall nm ops cmds ints tags,
    lower nm ops = (Ok (cmds, ints), tags) ->
    forallb wf_cmd cmds && forallb wf_cmd (load_ints nm ints) = negb (range_tags tags).
Proof. exact lower_wf. Qed.
Print Assumptions C02_lowering_wf.

(* ------------------------------------------------------------------ the clean fragment: full conclusion *)
(* `clean nm out e`: e is a variable other than the target, or an operation + - * / % whose operands
   are variables other than the target or parenthesised such operations, except `( … ) - ( … )`.
   For every such expression of ANY size and shape, every target, names configuration, function
   table and initial state: the pipeline produces commands without firing any tag, they are
   well-formed, run to completion, the target holds the value of the expression computed from the
   scores BEFORE the statement, every score that is neither the target nor a __tempN__ scratch
   score is unchanged, storage and trace are unchanged.
   (Side conditions: target and variables are not themselves named __tempN__; VAR <> INT.) *)
Theorem C02_partial :
  forall ft env nm target e st,
    let out := score_of nm target in
    clean nm out e = true ->
    (forall n, out <> temp_score nm n) ->
    (forall s n, In s (evars nm e) -> s <> temp_score nm n) ->
    snd out <> int_name nm -> var_name nm <> int_name nm ->
    exists cmds,
      compile_expr nm out PEmpty e = (Ok (cmds, []), []) /\
      forallb wf_cmd cmds = true /\
      exists st', exec_list ft env 1 cmds st = Some st' /\
        (forall v, eval nm (rd (sc st)) e = Some v -> rd (sc st') out = v) /\
        (forall s, s <> out -> (forall n, s <> temp_score nm n) -> rd (sc st') s = rd (sc st) s) /\
        stg st' = stg st /\ tr st' = tr st.
Proof. exact partial_clean. Qed.
Print Assumptions C02_partial.

(* `small e`: e is one operand — ANY variable, also the target itself, or a 32-bit literal — or one
   operation + - * / % of two variables EITHER OR BOTH OF WHICH MAY BE THE TARGET
   (`$x := $a - $x`, `$x := $x * $x`, …).  Same conclusion: in particular every operand is read as it
   was before the statement. *)
Theorem C02_partial_small :
  forall ft env nm target e st,
    let out := score_of nm target in
    small e = true ->
    (forall n, out <> temp_score nm n) ->
    (forall s n, In s (evars nm e) -> s <> temp_score nm n) ->
    snd out <> int_name nm -> var_name nm <> int_name nm ->
    exists cmds,
      compile_expr nm out PEmpty e = (Ok (cmds, []), []) /\
      forallb wf_cmd cmds = true /\
      exists st', exec_list ft env 1 cmds st = Some st' /\
        (forall v, eval nm (rd (sc st)) e = Some v -> rd (sc st') out = v) /\
        (forall s, s <> out -> (forall n, s <> temp_score nm n) -> rd (sc st') s = rd (sc st) s) /\
        stg st' = stg st /\ tr st' = tr st.
Proof. exact partial_small. Qed.
Print Assumptions C02_partial_small.

(* ------------------------------------------------------------------ the full statement is false: one witness per class *)
(* `violates w t` (Proofs/ExprRefute.v): the statement w, compiled by the model, fires tag t and
   - leaves a wrong value in the target from the state w_init (V_wrong_value), or
   - emits a command Minecraft rejects (V_invalid_command), or
   - is rejected with a diagnostic although it has a value (V_rejected), or
   - makes the compiler raise a non-JMC exception (V_internal_error). *)
Theorem C02_refuted_parse_precedence :      (* $x := $a + $b * $c * $d   computes (a + b*c) * d *)
  exists w, lits_ok (w_e w) = true /\ violates w T_parse_pop_lower.
Proof. exists w_parse. exact refuted_parse. Qed.
Print Assumptions C02_refuted_parse_precedence.

Theorem C02_refuted_unary_minus :           (* $x := $b / -$a   computes (b / -1) * a *)
  exists w, lits_ok (w_e w) = true /\ violates w T_neg_after_tight.
Proof. exists w_neg. exact refuted_neg. Qed.
Print Assumptions C02_refuted_unary_minus.

Theorem C02_refuted_compound_leading_minus : (* $x :+= -$a   is rejected *)
  exists w, lits_ok (w_e w) = true /\ violates w T_iop_leading_minus.
Proof. exists w_iop_minus. exact refuted_iop_minus. Qed.
Print Assumptions C02_refuted_compound_leading_minus.

Theorem C02_refuted_compound_inject :       (* $x :+= $a * 2   computes (x + a) * 2 *)
  exists w, lits_ok (w_e w) = true /\ violates w T_iop_inject.
Proof. exists w_iop. exact refuted_iop. Qed.
Print Assumptions C02_refuted_compound_inject.

Theorem C02_refuted_inject_reused_temp :    (* $x := 0 - $a * $b + $x   overwrites $x before reading it *)
  exists w, lits_ok (w_e w) = true /\ violates w T_inject_reused_temp.
Proof. exists w_reuse. exact refuted_reuse. Qed.
Print Assumptions C02_refuted_inject_reused_temp.

Theorem C02_refuted_sub_rewrite_fold :      (* $x := (1 + 2) - (3 + 4)   is folded to -10 *)
  exists w, lits_ok (w_e w) = true /\ violates w T_sub_rewrite_fold.
Proof. exists w_subfold. exact refuted_subfold. Qed.
Print Assumptions C02_refuted_sub_rewrite_fold.

Theorem C02_refuted_fold_pow_negbase :      (* $x := (-3) ** 2   is folded to -9 *)
  exists w, lits_ok (w_e w) = true /\ violates w T_fold_pow_negbase.
Proof. exists w_pow. exact refuted_pow. Qed.
Print Assumptions C02_refuted_fold_pow_negbase.

Theorem C02_refuted_pow_nonconst :          (* $x := $a ** $b   is rejected *)
  exists w, lits_ok (w_e w) = true /\ violates w T_pow_nonconst.
Proof. exists w_pownc. exact refuted_pownc. Qed.
Print Assumptions C02_refuted_pow_nonconst.

Theorem C02_refuted_opt_final_minus :       (* $x := $a - 3 - 2   computes a + 5 *)
  exists w, lits_ok (w_e w) = true /\ violates w T_opt_final_minus.
Proof. exists w_minus. exact refuted_minus. Qed.
Print Assumptions C02_refuted_opt_final_minus.

Theorem C02_refuted_opt_final_div :         (* $x := $a / 3 / -2   computes a / -6 *)
  exists w, lits_ok (w_e w) = true /\ violates w T_opt_final_div.
Proof. exists w_div. exact refuted_div. Qed.
Print Assumptions C02_refuted_opt_final_div.

Theorem C02_refuted_opt_final_mod :         (* $x := 7 % $a % 3   computes (7 % 3) % a *)
  exists w, lits_ok (w_e w) = true /\ violates w T_opt_final_mod.
Proof. exists w_mod. exact refuted_mod. Qed.
Print Assumptions C02_refuted_opt_final_mod.

Theorem C02_refuted_opt_mid_merge :         (* $x := ($a - 3 - 2) * $b   computes (a - 1) * b *)
  exists w, lits_ok (w_e w) = true /\ violates w T_opt_mid_merge.
Proof. exists w_mid. exact refuted_mid. Qed.
Print Assumptions C02_refuted_opt_mid_merge.

Theorem C02_refuted_opt_swap_self :         (* $x := ($x ** 0) ** 2   emits only `$x = $x` *)
  exists w, lits_ok (w_e w) = true /\ violates w T_opt_swap_self.
Proof. exists w_swap. exact refuted_swap. Qed.
Print Assumptions C02_refuted_opt_swap_self.

Theorem C02_refuted_opt_merge_self :        (* $x := ($a * 2) ** 2 * 3   computes (a * 6) ** 2 *)
  exists w, lits_ok (w_e w) = true /\ violates w T_opt_merge_self.
Proof. exists w_mself. exact refuted_mself. Qed.
Print Assumptions C02_refuted_opt_merge_self.

Theorem C02_refuted_const_range :           (* $x := $a + -2147483648   emits `remove … 2147483648` *)
  exists w, lits_ok (w_e w) = true /\ violates w T_const_range.
Proof. exists w_range. exact refuted_range. Qed.
Print Assumptions C02_refuted_const_range.

Theorem C02_refuted_crash_fold :            (* $x := 1 / 0   ZeroDivisionError escapes *)
  exists w, lits_ok (w_e w) = true /\ violates w T_crash_fold.
Proof. exists w_crash. exact refuted_crash. Qed.
Print Assumptions C02_refuted_crash_fold.

(* ------------------------------------------------------------------ non-vacuity *)
(* `$x := ($a + $b) * ($c - $d)` is in the clean fragment, meets the side conditions of C02_partial,
   and the model compiles it to five commands; from a = 2, b = 3, c = 1, d = 8 its value
   is (2 + 3) * (1 - 8) = -35. *)
Example C02_partial_nonvacuous :
  let nm := default_names in
  let v (n : string) := EVar (SDollar n) in
  let e := EBin BMul (EPar (EBin BAdd (v "$a"%string) (v "$b"%string))) (EPar (EBin BSub (v "$c"%string) (v "$d"%string))) in
  let out := score_of nm (SDollar "$x"%string) in
  clean nm out e = true /\
  (forall n, out <> temp_score nm n) /\
  (forall s n, In s (evars nm e) -> s <> temp_score nm n) /\
  List.length (match fst (compile_expr nm out PEmpty e) with Ok (c, _) => c | _ => [] end) = 5%nat /\
  eval nm (fun k => if score_eqb k ("$a", "__variable__") then 2 else if score_eqb k ("$b", "__variable__") then 3
                    else if score_eqb k ("$c", "__variable__") then 1 else 8)%string e = Some (-35).
Proof.
  cbn zeta. split; [reflexivity|]. split; [|split; [|split; reflexivity]].
  - intros n H. injection H as H _. cbn in H. discriminate.
  - intros s n Hs H. cbn in Hs.
    repeat (destruct Hs as [<-|Hs]; [injection H as H _; cbn in H; discriminate|]). destruct Hs.
Qed.
