(* Property C02 — expression assignment `target := expr` and `:+= :-= :*= :/= :%=`.
   Only statements of theorems, closed by `exact`, each followed by Print Assumptions.

   The model (Model/Expr*.v) is a port of the pipeline as repaired by fixes/C02-*.patch (18 of the
   19 defect classes recorded for the pinned tree), tied to /repo by exact text equality on every
   run.  What is proved:

     C02_partial            the full conclusion of the property — no tag, well-formed commands,
                            termination, target = `old <form> value of e` computed from the scores
                            BEFORE the statement, no other user variable changed — for all six
                            forms and EVERY tree of + - * / % over variables, the target included,
                            in any parenthesisation (by induction through all six stages);
     C02_partial_literal    the same for a 32-bit literal as right side;
     C02_parse_correct      operator precedence and left associativity of the parser;
     C02_optimize_correct   optimize_const preserves the meaning of EVERY operation list;
     C02_lowering_correct / C02_lowering_wf   the lowering, for EVERY operation list;
     C02_target_spelling_irrelevant / C02_spelling_irrelevant   a selector `obj:@e[tag=x, limit=1]` is
                            its CLEANED text (`score_of`, `clean_sel`): target and operands written
                            with different blanks / line breaks are the same score for `eval`, for
                            "does the target occur in the expression" and for the emitted commands.

     C02_context_execute / C02_partial_in_context / C02_context_return / C02_partial_return /
     C02_chain_copy / C02_partial_chained   the statement in a position that takes ONE command
                            (`execute if score … run S;`, `return run S;`, `$o = S;`): all commands of the
                            lowering run iff the tests of the prefix hold, nothing happens otherwise
                            (Model/ExprCtx.v: the placement repaired by fixes/C02-10, C02-11; the placement of the
                            tree before them is refuted by C02_context_unwrapped_refuted / C02_chain_unwrapped_refuted).

   The full statement for all expressions is still false in one way: `**` accepts only a constant,
   non-negative exponent (C02_refuted_pow_nonconst). *)
From Coq Require Import ZArith String List Bool.
From JMCV Require Import Base.Int32 Base.Dec MC.Syntax MC.Sem MC.Print Model.Names Model.VarOp Proofs.VarOp
     Model.Expr Model.ExprSpec Model.ExprFront Model.ExprBack
     Model.ExprCtx Proofs.ExprLower Proofs.ExprRefute Proofs.ExprParse Proofs.ExprOps Proofs.ExprOpt Proofs.ExprClean Proofs.ExprSmall Proofs.ExprSpell
     Proofs.ExprCtx.
Import ListNotations.
Open Scope Z_scope.

(* ------------------------------------------------------------------ lowering: full strength *)
(* For EVERY list of (variable, operator, number) triples (any length, any operators, constants of
   any sign and size incl. -2^31, variables aliasing each other), every function table, every
   meaning of abstract sub-programs and every state in which the requested __int__ constants are
   materialised: the emitted commands run to completion and leave every score with the value the
   interpreter of operation lists gives it; storage and trace are untouched.
   (Side condition: no triple assigns into the __int__ objective.) *)
Theorem C02_lowering_correct :
  forall ft env nm ops cmds ints tags st all,
    lower nm ops = (Ok (cmds, ints), tags) ->
    (forall o, In o ops -> snd (o_var o) <> int_name nm) ->
    loaded nm st all -> (forall z, In z ints -> In z all) ->
    exists st', exec_list ft env 1 cmds st = Some st' /\
      (forall k, rd (sc st') k = interp_ops ops (rd (sc st)) k) /\
      loaded nm st' all /\ stg st' = stg st /\ tr st' = tr st.
Proof. exact lower_correct_gen. Qed.
Print Assumptions C02_lowering_correct.

(* The emitted commands together with the __load__ lines of their constants are accepted by
   Minecraft exactly when the tag const_range did not fire (add/remove amounts 0..2^31-1, set and
   __int__ constants in int32; `+ -2147483648` goes through the constant). *)
Theorem C02_lowering_wf :
  forall nm ops cmds ints tags,
    lower nm ops = (Ok (cmds, ints), tags) ->
    forallb wf_cmd cmds && forallb wf_cmd (load_ints nm ints) = negb (range_tags tags).
Proof. exact lower_wf. Qed.
Print Assumptions C02_lowering_wf.

(* ------------------------------------------------------------------ the parser: precedence and associativity *)
(* `arith e`: e is built from variables with + - * / % and parentheses.  For every such expression,
   written with the parentheses standard precedence and left associativity require (`render`) plus
   any redundant ones, tokens_to_tokens and the shunting-yard of expression_to_tree build exactly
   the tree of e (`tree_of`: the Expression objects with the operand swaps of __post_init__). *)
Theorem C02_parse_correct :
  forall nm e, arith e = true ->
    tokens_to_tokens nm (render e) = (Ok (flat nm e), []) /\
    expression_to_tree (flat nm e) = (Ok (tree_of nm e), []).
Proof. intros nm e H. split; [exact (ttt_ok nm e H)|exact (parse_arith nm e H)]. Qed.
Print Assumptions C02_parse_correct.

(* ------------------------------------------------------------------ optimize_const: full strength *)
(* For EVERY operation list with 32-bit constants (any operators, operands, aliasing, order) and every
   assignment g of 32-bit values to the scores: the optimised list (constants merged, `v = c; v += a`
   reordered, `v += 0` / `v *= 1` deleted) leaves every score with the value the original list leaves;
   its constants are 32-bit and it assigns to the same variables with the same operators. *)
Theorem C02_optimize_correct :
  forall ops, consts32 ops ->
    (forall g, R32 g -> forall k, interp_ops (optimize_const ops) g k = interp_ops ops g k) /\
    consts32 (optimize_const ops) /\
    (forall y, In y (optimize_const ops) -> exists x, In x ops /\ (o_var x, o_op x) = (o_var y, o_op y)).
Proof. exact optimize_const_correct. Qed.
Print Assumptions C02_optimize_correct.

(* ------------------------------------------------------------------ the arithmetic fragment: full conclusion *)
(* For every expression e with `arith e` — ANY size and shape, the target may occur in it any number
   of times —, each of the six forms (`form`: PEmpty is `:=`, PAdd is `:+=`, …), every target, names
   configuration, function table and initial state with 32-bit scores in which the __int__ constants
   the statement asks for are materialised: the pipeline produces commands without firing any tag,
   they (and the __load__ lines of their constants) are well-formed, run to completion, the target
   holds `old target <form> value of e` where the value is computed from the scores BEFORE the
   statement, every score that is neither the target nor a __tempN__ scratch score is unchanged,
   storage and trace are unchanged.
   (Side conditions: target and variables are not themselves named __tempN__; VAR <> INT.) *)
Theorem C02_partial :
  forall ft env nm target form e,
    let out := score_of nm target in
    arith e = true -> form <> PPow ->
    (forall n, out <> temp_score nm n) ->
    (forall s n, In s (evars nm e) -> s <> temp_score nm n) ->
    snd out <> int_name nm -> var_name nm <> int_name nm ->
    exists cmds ints,
      compile_expr nm out form e = (Ok (cmds, ints), []) /\
      forallb wf_cmd cmds && forallb wf_cmd (load_ints nm ints) = true /\
      forall st all, int32_state st -> loaded nm st all -> (forall z, In z ints -> In z all) ->
        exists st', exec_list ft env 1 cmds st = Some st' /\
          (forall v w, eval nm (rd (sc st)) e = Some v -> form_sem form (rd (sc st) out) v = Some w ->
                       rd (sc st') out = w) /\
          (forall s, s <> out -> (forall n, s <> temp_score nm n) -> rd (sc st') s = rd (sc st) s) /\
          stg st' = stg st /\ tr st' = tr st.
Proof. exact partial_arith. Qed.
Print Assumptions C02_partial.

(* The same for a 32-bit literal as the whole right side (`$x := -5`, `$x :*= 3`, `$x :+= -2147483648`, …). *)
Theorem C02_partial_literal :
  forall ft env nm target form z,
    let out := score_of nm target in
    in_int32b z = true -> form <> PPow ->
    snd out <> int_name nm -> var_name nm <> int_name nm ->
    exists cmds ints,
      compile_expr nm out form (EConst z) = (Ok (cmds, ints), []) /\
      forallb wf_cmd cmds && forallb wf_cmd (load_ints nm ints) = true /\
      forall st all, int32_state st -> loaded nm st all -> (forall z, In z ints -> In z all) ->
        exists st', exec_list ft env 1 cmds st = Some st' /\
          (forall w, form_sem form (rd (sc st) out) z = Some w -> rd (sc st') out = w) /\
          (forall s, s <> out -> rd (sc st') s = rd (sc st) s) /\
          stg st' = stg st /\ tr st' = tr st.
Proof. exact partial_literal. Qed.
Print Assumptions C02_partial_literal.

(* ------------------------------------------------------------------ selector spelling *)
(* `SObjSel o s` carries the selector as WRITTEN in the source; `score_of` (used for the target in every
   theorem above, for each operand by tokens_to_tokens and by `eval`) cleans it with `clean_sel`
   (clean_up_paren_token: blanks, tabs, line breaks outside double-quoted strings removed).  Hence
   C02_partial already covers `obj:@e[tag=x, limit=1] := $a * 2 + obj:@e[tag=x,limit=1]`: both
   spellings are ONE score, read before it is written.  Made explicit:
   two spellings that clean to the same text are the same score, have the same meaning, and as
   targets give the same output for every form and expression; cleaning is idempotent. *)
Theorem C02_target_spelling_irrelevant :
  forall nm o s1 s2, clean_sel s1 = clean_sel s2 ->
    score_of nm (SObjSel o s1) = score_of nm (SObjSel o s2) /\
    (forall rdv, eval nm rdv (EVar (SObjSel o s1)) = eval nm rdv (EVar (SObjSel o s2))) /\
    (forall form e, compile_expr nm (score_of nm (SObjSel o s1)) form e
                    = compile_expr nm (score_of nm (SObjSel o s2)) form e).
Proof. exact spelling_irrelevant. Qed.
Print Assumptions C02_target_spelling_irrelevant.

Theorem C02_clean_sel_idempotent : forall s, clean_sel (clean_sel s) = clean_sel s.
Proof. exact clean_sel_idem. Qed.
Print Assumptions C02_clean_sel_idempotent.

(* For EVERY expression (any operators, literals, parentheses — not only the fragment of C02_partial),
   target and form: re-spelling all selectors, target and operands independently (`f` may send
   different occurrences' spellings to different spellings as long as each keeps its score), changes
   neither the meaning nor anything the pipeline produces (commands, constants, tags, diagnostic). *)
Theorem C02_spelling_irrelevant :
  forall nm f target form e, same_scores nm f ->
    score_of nm (f target) = score_of nm target /\
    (forall rdv, eval nm rdv (respell f e) = eval nm rdv e) /\
    compile_expr nm (score_of nm (f target)) form (respell f e) = compile_expr nm (score_of nm target) form e.
Proof. exact respell_irrelevant. Qed.
Print Assumptions C02_spelling_irrelevant.

(* non-vacuity: writing every selector compactly is such an f *)
Example C02_spelling_nonvacuous : forall nm, same_scores nm canon_svar.
Proof. exact canon_same_scores. Qed.
Print Assumptions C02_spelling_nonvacuous.

(* `obj:@e[tag=x, limit=1] := $a * 2 + obj:@e[tag=x,<line break> limit=1 ]` (spell_t, spell_t': two different
   spellings of the holder `@e[tag=x,limit=1]`; w_spell: a = 6, old target = 1): the model emits
       __temp0__ = $a;  __temp0__ *= 2;  @e[tag=x,limit=1] obj += __temp0__
   — the target is read (by `+=`) before anything is written to it — and the target ends as 13 = 6 * 2 + 1
   (a compiler that compared the raw spellings would emit `target = $a; target *= 2; target += <operand>`:
   the old value 1 is lost before it is read). *)
Example C02_spelling_example :
  score_of nm0 spell_t = spell_holder /\ score_of nm0 spell_t' = spell_holder /\
  spell_t <> spell_t' /\
  (exists cmds ints, model_run w_spell = (Ok (cmds, ints), []) /\ pr_cmds cmds = spell_text) /\
  expected w_spell = Some 13 /\ holds_b w_spell = true.
Proof. exact spell_example. Qed.
Print Assumptions C02_spelling_example.

(* ------------------------------------------------------------------ the statement in a one-command position *)
(* `execute if score … [unless score …] run <statement>;`   (Model.ExprCtx.wrap_under, tied to
   FuncContent.__handle_startswith_var by the correspondence on statements placed behind generated prefixes.)
   For EVERY list of commands `cmds` (the lowering of a statement: any length, 0 and 1 included), every list
   g of `if` / `unless` score tests, every function table in which the private function created by the
   placement (if any) is registered, every state:
     - if a test of g fails, the placed command changes NOTHING (state identical, the command fails);
     - if all hold, the placed command terminates exactly when running all of `cmds` terminates, in the
       same state.
   (`cmds` of one command: that command under the tests; otherwise ONE call of a function holding all of them.) *)
Theorem C02_context_execute :
  forall ft env nm g count cmds c defs,
    wrap_under nm g count cmds = (c, defs) ->
    (forall d, In d defs -> ft (fst d) = Some (snd d)) ->
    forall st,
      (guard_holds st g = false -> forall fuel, exec ft env (S fuel) no_menv c st = Some (st, r_fail)) /\
      (guard_holds st g = true -> forall st',
         (exists fuel r, exec ft env fuel no_menv c st = Some (st', r)) <->
         (exists fuel, exec_list ft env fuel cmds st = Some st')).
Proof. exact context_execute. Qed.
Print Assumptions C02_context_execute.

(* C02_partial for a statement behind `execute <tests> run`: with the hypotheses of C02_partial and
   well-formed tests, the ONE command standing in the function (and the private function, if one is made)
   is well-formed, terminates, and
     - if every test holds in the state BEFORE the statement: the conclusion of C02_partial (target =
       `old <form> value of e` on the old scores, every other non-scratch score, storage, trace unchanged);
     - otherwise the state is unchanged altogether. *)
Theorem C02_partial_in_context :
  forall ft env nm target form e g count,
    let out := score_of nm target in
    arith e = true -> form <> PPow ->
    (forall n, out <> temp_score nm n) ->
    (forall s n, In s (evars nm e) -> s <> temp_score nm n) ->
    snd out <> int_name nm -> var_name nm <> int_name nm ->
    forallb (fun p => wf_test (snd p)) g = true ->
    exists cmds ints c defs,
      compile_expr nm out form e = (Ok (cmds, ints), []) /\
      wrap_under nm g count cmds = (c, defs) /\
      wf_cmd c && forallb (fun d => forallb wf_cmd (snd d)) defs && forallb wf_cmd (load_ints nm ints) = true /\
      forall st all, (forall d, In d defs -> ft (fst d) = Some (snd d)) ->
        int32_state st -> loaded nm st all -> (forall z, In z ints -> In z all) ->
        exists st' r, exec ft env 3 no_menv c st = Some (st', r) /\
          if guard_holds st g then
            (forall v w, eval nm (rd (sc st)) e = Some v -> form_sem form (rd (sc st) out) v = Some w ->
                         rd (sc st') out = w) /\
            (forall s, s <> out -> (forall n, s <> temp_score nm n) -> rd (sc st') s = rd (sc st) s) /\
            stg st' = stg st /\ tr st' = tr st
          else st' = st.
Proof. exact partial_in_context. Qed.
Print Assumptions C02_partial_in_context.

(* The tree before fixes/C02-10 put the prefix in front of the FIRST line only (Model.ExprCtx.naive_under).
   `execute if score $c __variable__ matches 1.. run $x := $a * $b + 1;` from c = 0, a = 2, b = 3, x = 0:
   the test fails, yet lines two and three run and leave x = 0 * 3 + 1 = 1. *)
Theorem C02_context_unwrapped_refuted :
  exists cmds ints st',
    model_run w_ctx = (Ok (cmds, ints), []) /\ length cmds = 3%nat /\
    guard_holds (w_state w_ctx ints) g_ctx = false /\
    exec_list no_ft no_env 2 (naive_under g_ctx cmds) (w_state w_ctx ints) = Some st' /\
    sc (w_state w_ctx ints) (w_score w_ctx) = Some 0 /\ sc st' (w_score w_ctx) = Some 1.
Proof. exact naive_under_refuted. Qed.
Print Assumptions C02_context_unwrapped_refuted.

(* non-vacuity: the repaired placement of that statement is
   `execute if score $c __variable__ matches 1.. run function TEST:__private__/anonymous/0`
   and from the same state it changes nothing *)
Example C02_context_example :
  exists cmds ints c defs,
    model_run w_ctx = (Ok (cmds, ints), []) /\ wrap_under nm0 g_ctx 0 cmds = (c, defs) /\
    pr_cmd c = "execute if score $c __variable__ matches 1.. run function TEST:__private__/anonymous/0"%string /\
    map fst defs = ["TEST:__private__/anonymous/0"%string] /\
    forall ft env, (forall d, In d defs -> ft (fst d) = Some (snd d)) ->
      exec ft env 3 no_menv c (w_state w_ctx ints) = Some (w_state w_ctx ints, r_fail).
Proof. exact wrap_under_witness. Qed.
Print Assumptions C02_context_example.

(* `return run <statement>;` and `execute <tests> run return run <statement>;`  (Model.ExprCtx.place with
   k_ret = true; `xrun` = MC.Sem + "return run C leaves the function with C's result").  `body` = the
   statement's commands (after the copies of a chained assignment).  The placement is ONE line; for every
   function table of returning functions holding the private function (if any), all following lines `rest`
   and every state:
     - a test of the prefix fails: the line is skipped, the function goes on with `rest`;
     - otherwise ALL commands of the body run, the function is left — `rest` does not run — and the value
       returned is the result of the body's LAST command (a body without commands returns failure). *)
Theorem C02_context_return :
  forall ft env xft nm g chain count out cmds lines defs,
    place nm (mkCtx g true chain) count out cmds = (lines, defs) ->
    (forall d, In d defs -> xft (fst d) = Some (snd d)) ->
    let body := chain_all chain out cmds in
    forallb no_call body = true ->
    forall rest st,
      (guard_holds st g = false -> forall m, xrun ft env xft (S m) (lines ++ rest) st = xrun ft env xft m rest st) /\
      (guard_holds st g = true ->
         (body = [] -> forall m, (2 <= m)%nat -> xrun ft env xft m (lines ++ rest) st = Some (Returned st r_fail)) /\
         (forall fuel st1 st' r,
            body <> [] ->
            exec_list ft env fuel (removelast body) st = Some st1 ->
            exec ft env fuel no_menv (last body (COther "")) st1 = Some (st', r) ->
            forall m, (length body + fuel + 2 <= m)%nat ->
                      xrun ft env xft m (lines ++ rest) st = Some (Returned st' r))).
Proof. exact context_return. Qed.
Print Assumptions C02_context_return.

(* C02_partial behind `[execute <tests> run] return run`: if the tests hold the function returns in a state
   that satisfies the conclusion of C02_partial (whatever follows the statement does not run); otherwise the
   function goes on with the following lines from the unchanged state. *)
Theorem C02_partial_return :
  forall ft env xft nm target form e g count,
    let out := score_of nm target in
    arith e = true -> form <> PPow ->
    (forall n, out <> temp_score nm n) ->
    (forall s n, In s (evars nm e) -> s <> temp_score nm n) ->
    snd out <> int_name nm -> var_name nm <> int_name nm ->
    exists cmds ints lines defs,
      compile_expr nm out form e = (Ok (cmds, ints), []) /\
      place nm (mkCtx g true []) count out cmds = (lines, defs) /\
      forall rest st all, (forall d, In d defs -> xft (fst d) = Some (snd d)) ->
        int32_state st -> loaded nm st all -> (forall z, In z ints -> In z all) ->
        if guard_holds st g then
          exists st' r, (forall m, (length cmds + 3 <= m)%nat ->
                                   xrun ft env xft m (lines ++ rest) st = Some (Returned st' r)) /\
            (forall v w, eval nm (rd (sc st)) e = Some v -> form_sem form (rd (sc st) out) v = Some w ->
                         rd (sc st') out = w) /\
            (forall s, s <> out -> (forall n, s <> temp_score nm n) -> rd (sc st') s = rd (sc st) s) /\
            stg st' = stg st /\ tr st' = tr st
        else forall m, xrun ft env xft (S m) (lines ++ rest) st = xrun ft env xft m rest st.
Proof. exact partial_return. Qed.
Print Assumptions C02_partial_return.

(* Chained assignment `$o = <statement>;` whose inner statement is not exactly one command
   (Model.ExprCtx.chain_stmt, fixes/C02-11): the inner commands run, then the inner target is copied.
   For EVERY command list: the outer target ends with the value the inner target ends with, nothing else
   changes with respect to the state the inner statement leaves. *)
Theorem C02_chain_copy :
  forall ft env fuel cmds o out st st',
    exec_list ft env (S fuel) cmds st = Some st' ->
    exists st'', exec_list ft env (S fuel) (cmds ++ [COp o OAssign out]) st = Some st'' /\
      rd (sc st'') o = rd (sc st') out /\ (forall s, s <> o -> rd (sc st'') s = rd (sc st') s) /\
      stg st'' = stg st' /\ tr st'' = tr st'.
Proof. exact chain_copy. Qed.
Print Assumptions C02_chain_copy.

(* … hence, on the fragment of C02_partial: both targets end with `old <form> value of e`. *)
Theorem C02_partial_chained :
  forall ft env nm target form e o,
    let out := score_of nm target in
    arith e = true -> form <> PPow ->
    (forall n, out <> temp_score nm n) ->
    (forall s n, In s (evars nm e) -> s <> temp_score nm n) ->
    snd out <> int_name nm -> var_name nm <> int_name nm ->
    exists cmds ints,
      compile_expr nm out form e = (Ok (cmds, ints), []) /\
      (length cmds <> 1%nat -> chain_stmt o out cmds = (cmds ++ [COp o OAssign out])%list) /\
      forall st all, int32_state st -> loaded nm st all -> (forall z, In z ints -> In z all) ->
        exists st', exec_list ft env 1 (cmds ++ [COp o OAssign out]) st = Some st' /\
          (forall v w, eval nm (rd (sc st)) e = Some v -> form_sem form (rd (sc st) out) v = Some w ->
                       rd (sc st') out = w /\ rd (sc st') o = w) /\
          (forall s, s <> out -> s <> o -> (forall n, s <> temp_score nm n) -> rd (sc st') s = rd (sc st) s) /\
          stg st' = stg st /\ tr st' = tr st.
Proof. exact partial_chained. Qed.
Print Assumptions C02_partial_chained.

(* The tree before fixes/C02-11 put `execute store result score $o … run` in front of the first line only:
   `$o = $x := $a * $b + 1;` from a = 2, b = 3 leaves $o = 2 (the result of `$x = $a`) while $x = 7. *)
Theorem C02_chain_unwrapped_refuted :
  exists cmds ints st',
    model_run w_ctx = (Ok (cmds, ints), []) /\
    exec_list no_ft no_env 2 (naive_chain so cmds) (w_state w_ctx ints) = Some st' /\
    sc st' (w_score w_ctx) = Some 7 /\ sc st' so = Some 2.
Proof. exact naive_chain_refuted. Qed.
Print Assumptions C02_chain_unwrapped_refuted.

(* ------------------------------------------------------------------ what is still false *)
(* `violates w t` (Proofs/ExprRefute.v): the statement w, compiled by the model, fires tag t and
   - leaves a wrong value in the target from the state w_init (V_wrong_value), or
   - emits a command Minecraft rejects (V_invalid_command), or
   - is rejected with a diagnostic although it has a value (V_rejected), or
   - makes the compiler raise a non-JMC exception (V_internal_error). *)
Theorem C02_refuted_pow_nonconst :          (* $x := $a ** $b   is rejected *)
  exists w, lits_ok (w_e w) = true /\ violates w T_pow_nonconst.
Proof. exists w_pownc. exact refuted_pownc. Qed.
Print Assumptions C02_refuted_pow_nonconst.

(* ------------------------------------------------------------------ the repaired classes, non-vacuity *)
(* The 18 statements that witnessed the defect classes repaired by fixes/C02-*.patch
   (`$x := $a + $b * $c * $d`, `$x := $b / -$a`, `$x :+= -$a`, `$x :+= $a * 2`, `$x := 0 - $a * $b + $x`,
   `$x := (1 + 2) - (3 + 4)`, `$x := (-3) ** 2`, `$x := $a - 3 - 2`, `$x := $a / 3 / -2`, `$x := 7 % $a % 3`,
   `$x := ($a - 3 - 2) * $b`, `$x := $a + -2147483648`, `$x := 1 / 0`, `$x := ($x ** 0) ** 2`,
   `$x := ($a * 2) ** 2 * 3`, `$x := 1000000 * 46341 / 46341`, `$x := 7 / 2 * 2`, `$x := 2 ** 7 ** 7`):
   the model compiles each without a tag to well-formed commands that leave the demanded value in the
   target from the witness state (`1 / 0`, which has no value, is rejected with a JMC diagnostic). *)
Example C02_repaired_witnesses : forallb holds_b repaired_witnesses = true.
Proof. exact repaired_hold. Qed.
Print Assumptions C02_repaired_witnesses.

(* `$x :-= ($a + $x) * ($c - $x) / $x` is in the fragment (the target occurs three times), meets the
   side conditions of C02_partial, and the model compiles it; from x = 7, a = 2, c = 1 the value of the
   right side is (2 + 7) * (1 - 7) / 7 = floor(-54 / 7) = -8, so the target must become 7 - -8 = 15. *)
Example C02_partial_nonvacuous :
  let nm := default_names in
  let v (n : string) := EVar (SDollar n) in
  let e := EBin BDiv (EBin BMul (EPar (EBin BAdd (v "$a"%string) (v "$x"%string)))
                                (EPar (EBin BSub (v "$c"%string) (v "$x"%string)))) (v "$x"%string) in
  let out := score_of nm (SDollar "$x"%string) in
  let f := (fun k => if score_eqb k ("$a", "__variable__") then 2 else if score_eqb k ("$x", "__variable__") then 7 else 1)%string in
  arith e = true /\
  (forall n, out <> temp_score nm n) /\
  (forall s n, In s (evars nm e) -> s <> temp_score nm n) /\
  eval nm f e = Some (-8) /\ form_sem PSub (f out) (-8) = Some 15.
Proof.
  cbn zeta. split; [reflexivity|]. split; [|split; [|split; reflexivity]].
  - intros n H. injection H as H _. cbn in H. discriminate.
  - intros s n Hs H. cbn in Hs.
    repeat (destruct Hs as [<-|Hs]; [injection H as H _; cbn in H; discriminate|]). destruct Hs.
Qed.
Print Assumptions C02_partial_nonvacuous.
