(* Property C03 — boolean conditions (&&, ||, !, parentheses) guard exactly when true.
   Only statements of theorems, closed by `exact`, and Print Assumptions.

   The model is Model/Cond.v with the REPAIRED flag numbering of ast_to_strings
   (fixes/C03-logic-flag-numbering.patch) and `!==` against a score treated like `!=`
   (fixes/C03-strict-ne-score.patch).  C03_pinned_numbering_refuted shows that the walk
   as pinned violates the property. *)
From Coq Require Import ZArith String List Bool.
From JMCV Require Import Base.Int32 Base.Dec MC.Syntax MC.Sem Model.Names Model.Cond
     Proofs.CondBase Proofs.Cond Proofs.CondFormula.
Import ListNotations.
Open Scope Z_scope.

(* FULL STATEMENT (C03_guard_iff): for every names configuration, every formula f built with
   &&, ||, ! (any nesting, any number >= 2 of operands) over the atoms `$v`, `s <op> int`,
   `s <op> score`, `s matches a..b` on user-visible scores, in either position (bracket
   token of if / else-if / while / do-while, or bare middle statement of for), every state st
   (scores set or unset), every function table, every abstract body `CExt n`:
   if the compiler accepts the condition then every emitted line is a well-formed command, the
   precommands terminate in a state st1 that differs from st on `__logic__N` flags only, and
   `execute <conditions> run <body>` started in st1 runs the body exactly once if f is true of
   st and not at all otherwise.

   It is FALSE on the tree at one point (C03_range_edge_refuted): `s > 2147483647` and
   `s < -2147483648` (and literals outside Java int) make JMC write a `matches` bound that is
   not a Java int.  C03_guard_iff_partial is the full statement under the extra hypothesis
   `atom_lit_ok` (part of formula_ok): every bound JMC writes is a Java int. *)
Theorem C03_guard_iff_partial :
  forall ft env nm wrapped f pcs cs n st,
    parse_condition nm (source_tokens wrapped f) = Some (pcs, cs) ->
    formula_ok nm f ->
    forallb wf_cmd (pcs ++ [guarded cs (CExt n)]) = true /\
    exists st1,
      exec_list ft env 2 pcs st = Some st1 /\
      (forall s, user_score nm s -> sc st1 s = sc st s) /\ stg st1 = stg st /\ tr st1 = tr st /\
      exec ft env 2 no_menv (guarded cs (CExt n)) st1 =
      Some (if eval st f then (log (env n st1) (EExt n), r_ok 1) else (st1, r_fail)).
Proof. exact guard_iff. Qed.
Print Assumptions C03_guard_iff_partial.

Theorem C03_range_edge_refuted :
  exists s z c, in_int32 z /\ custom_condition (ACmp s SGt (RLit z)) = Some c /\ wf_test (snd c) = false.
Proof.
  exists ("$a", "__variable__")%string, 2147483647. eexists.
  split; [unfold in_int32, INT_MIN, INT_MAX; split; discriminate|]. split; reflexivity.
Qed.
Print Assumptions C03_range_edge_refuted.

(* The compiler refuses (JMC diagnostic, nothing is emitted) exactly the formulas that contain
   `s matches a..b` with a >= b.  So the first hypothesis of C03_guard_iff_partial never hides
   an exhausted fuel or a lost formula. *)
Theorem C03_accepted_iff :
  forall nm wrapped f, wff f = true ->
    (Forall atom_accepted (atoms f) <-> parse_condition nm (source_tokens wrapped f) <> None).
Proof. exact accepted_iff. Qed.
Print Assumptions C03_accepted_iff.

(* condition_to_ast (precedence split: || then && then !, one level of brackets unwrapped per
   call) rebuilds exactly the formula from its canonical token list: `a || b && c` groups as
   a || (b && c), brackets are needed and sufficient where tokens_of puts them. *)
Theorem C03_parse_print :
  forall f fuel, wff f = true -> (toks_size (tokens_of f) < fuel)%nat ->
    condition_to_ast fuel (tokens_of f) = ast_of f.
Proof. exact parse_print. Qed.
Print Assumptions C03_parse_print.

(* For ANY token list the parser accepts (redundant brackets, `!` before a bracket, …) the
   lowering is right for the AST the parser built. *)
Theorem C03_guard_iff_tokens :
  forall ft env nm toks a pcs cs n st,
    condition_to_ast (S (toks_size toks)) toks = Some a ->
    parse_condition nm toks = Some (pcs, cs) -> ast_ok nm a ->
    forallb wf_cmd (pcs ++ [guarded cs (CExt n)]) = true /\
    exists st1,
      exec_list ft env 2 pcs st = Some st1 /\
      (forall s, user_score nm s -> sc st1 s = sc st s) /\ stg st1 = stg st /\ tr st1 = tr st /\
      exec ft env 2 no_menv (guarded cs (CExt n)) st1 =
      Some (if aeval st a then (log (env n st1) (EExt n), r_ok 1) else (st1, r_fail)).
Proof. exact guard_iff_tokens. Qed.
Print Assumptions C03_guard_iff_tokens.

(* The flag-numbering invariant itself (the induction behind the theorems above): operand a
   compiled from flag number c uses flags c..c'-1 only, and whatever was initialised before
   (all below c), its precommands change nothing else and make its conditions equivalent to a. *)
Theorem C03_numbering_invariant :
  forall nm fuel a c r, ast_to_commands nm fuel a c = Some r -> Good nm a c r.
Proof. exact a2c_good. Qed.
Print Assumptions C03_numbering_invariant.

(* The numbering as pinned before the fix (`current_count` walk) violates the property:
   `($a || $b) || $c` with a unset, b = 1, c unset is true, yet the body does not run. *)
Definition pinned_witness_formula : formula :=
  Or [Or [Leaf (ATruthy ("$a", "__variable__")%string); Leaf (ATruthy ("$b", "__variable__")%string)];
      Leaf (ATruthy ("$c", "__variable__")%string)].
Definition pinned_witness_state : state :=
  mkState (fun k => if score_eqb k ("$b", "__variable__")%string then Some 1 else None) (fun _ => None) [].

Theorem C03_pinned_numbering_refuted :
  formula_ok default_names pinned_witness_formula /\
  eval pinned_witness_state pinned_witness_formula = true /\
  match parse_condition_pinned default_names (source_tokens true pinned_witness_formula) with
  | Some (pcs, cs) =>
    match exec_list (fun _ => None) (fun _ st => st) 2 pcs pinned_witness_state with
    | Some st1 =>
      match exec (fun _ => None) (fun _ st => st) 2 no_menv (guarded cs (CExt 0)) st1 with
      | Some (st2, r) => ok r = false /\ tr st2 = []
      | None => False
      end
    | None => False
    end
  | None => False
  end.
Proof.
  split.
  - split; [reflexivity|]. cbn. repeat constructor; intros k E; discriminate E.
  - split; [reflexivity|]. vm_compute. split; reflexivity.
Qed.
Print Assumptions C03_pinned_numbering_refuted.

(* Non-vacuity: a formula with every connective and atom kind satisfies the hypotheses, is
   accepted, and the repaired lowering of the pinned witness does run the body. *)
Example C03_nonvacuous :
  let v := fun n => (n, "__variable__")%string in
  let f := Or [Leaf (ACmp (v "$a"%string) SEq2 (RLit 1));
               And [Leaf (ACmp (v "$b"%string) SGt (RLit (-5)));
                    Not (And [Leaf (AMatches ("@s", "obj")%string 1 5); Leaf (ATruthy (v "$c"%string))]);
                    Or [Leaf (ACmp (v "$c"%string) SNe3 (RScore (v "$d"%string))); Leaf (ATruthy (v "$e"%string))]]] in
  formula_ok default_names f /\
  parse_condition default_names (source_tokens true f) <> None /\
  match parse_condition default_names (source_tokens true pinned_witness_formula) with
  | Some (pcs, cs) =>
    match exec_list (fun _ => None) (fun _ st => st) 2 pcs pinned_witness_state with
    | Some st1 =>
      match exec (fun _ => None) (fun _ st => st) 2 no_menv (guarded cs (CExt 0)) st1 with
      | Some (st2, r) => ok r = true /\ tr st2 = [EExt 0]
      | None => False
      end
    | None => False
    end
  | None => False
  end.
Proof.
  cbn zeta. split; [|split].
  - split; [reflexivity|]. cbn.
    repeat constructor; try (intros k E; discriminate E); vm_compute; discriminate.
  - vm_compute. discriminate.
  - vm_compute. split; reflexivity.
Qed.

(* ====================================================================================
   `if (<formula>) expand { c1; c2; … }`  (strengthening round 3; Model/CondExpand.v is the port
   of the is_expand branch of Lexer.parse_if_else, Proofs/CondExpand.v the proofs).

   Every command of the batch is guarded by its OWN fresh evaluation of the formula.  The
   commands are arbitrary: one line (kept after `run`, an `execute` merged at the junction) or
   several lines (stored as `expand/k`, called under the guard); they may overwrite the
   `__logic__N` flags — any command that evaluates a condition of its own or calls a function
   that does will — and any user score.

     expand_sem ft env test T batch st st'   source meaning: the commands in order, each run iff
                                             `test` holds of the state it is reached in; T = the
                                             side effect of evaluating the test
     runs ft env lines st st'                MC.Sem: with enough fuel the lines take st to st'
   ==================================================================================== *)
From JMCV Require Import Model.PrivAlloc Model.CondExpand Proofs.CondExpand.
From JMCV Require Proofs.IfElseBase.

(* Partial for the same reason as C03_guard_iff_partial only (atom_lit_ok inside formula_ok). *)
Theorem C03_expand_guard_iff_partial :
  forall ft env nm wrapped f pcs cs,
    parse_condition nm (source_tokens wrapped f) = Some (pcs, cs) ->
    formula_ok nm f ->
    (* evaluating the test changes `__logic__N` scores only *)
    (forall st, (forall s, user_score nm s -> sc (test_effect ft env pcs st) s = sc st s) /\
                stg (test_effect ft env pcs st) = stg st /\ tr (test_effect ft env pcs st) = tr st) /\
    forall batch : list xitem,
      (* no command lowers to nothing; the function table holds the `expand/k` functions the lowering created *)
      (forall it, In it batch ->
                  fst it <> [] /\
                  (length (fst it) <> 1%nat -> ft (priv_fn nm EXPAND (snd it)) = Some (fst it))) ->
      forall st st',
        Proofs.IfElseBase.runs ft env (fst (expand_code nm pcs cs batch)) st st' <->
        expand_sem ft env (fun s => eval s f) (test_effect ft env pcs) (map fst batch) st st'.
Proof. exact expand_guard_iff. Qed.
Print Assumptions C03_expand_guard_iff_partial.

(* Batches of abstract one-line commands: the emitted lines always terminate, in exactly the state
   the source meaning computes (expand_ext: fold over the batch, testing the formula before each command). *)
Theorem C03_expand_batch_state_partial :
  forall ft env nm wrapped f pcs cs ns st,
    parse_condition nm (source_tokens wrapped f) = Some (pcs, cs) ->
    formula_ok nm f ->
    forall st',
      Proofs.IfElseBase.runs ft env (fst (expand_code nm pcs cs (map (fun n => ([CExt n], O)) ns))) st st' <->
      st' = expand_ext env (fun s => eval s f) (test_effect ft env pcs) ns st.
Proof. exact expand_ext_runs. Qed.
Print Assumptions C03_expand_batch_state_partial.

(* Why the helper block must be repeated: emitted once for the whole batch (expand_code_hoisted),
   `if ($a || $b) expand { c0; c1; }` with a = 1 and a c0 that leaves `__logic__0` = 0 behind (as a
   nested `if ($c || $d)` with c, d false does) skips c1, although `$a || $b` still holds.  The
   lowering of the model (= of the tree) runs both. *)
Definition expand_witness_env (n : nat) (st : state) : state :=
  match n with O => set_sc st (flag default_names 0) 0 | _ => st end.
Definition expand_witness_formula : formula :=
  Or [Leaf (ATruthy ("$a", "__variable__")%string); Leaf (ATruthy ("$b", "__variable__")%string)].
Definition expand_witness_state : state :=
  mkState (fun k => if score_eqb k ("$a", "__variable__")%string then Some 1 else None) (fun _ => None) [].

Theorem C03_expand_hoisted_refuted :
  let ft := fun _ : string => @None (list cmd) in
  let batch := [([CExt 0], O); ([CExt 1], O)] in
  formula_ok default_names expand_witness_formula /\
  match parse_condition default_names (source_tokens true expand_witness_formula) with
  | Some (pcs, cs) =>
    tr (expand_ext expand_witness_env (fun s => eval s expand_witness_formula)
                   (test_effect ft expand_witness_env pcs) [0%nat; 1%nat] expand_witness_state) = [EExt 1; EExt 0] /\
    option_map tr (exec_list ft expand_witness_env 3 (fst (expand_code default_names pcs cs batch)) expand_witness_state)
      = Some [EExt 1; EExt 0] /\
    option_map tr (exec_list ft expand_witness_env 3 (fst (expand_code_hoisted default_names pcs cs batch)) expand_witness_state)
      = Some [EExt 0]
  | None => False
  end.
Proof.
  cbn zeta. split.
  - split; [reflexivity|]. cbn. repeat constructor; intros k E; discriminate E.
  - vm_compute. repeat split; reflexivity.
Qed.
Print Assumptions C03_expand_hoisted_refuted.

(* Non-vacuity of C03_expand_guard_iff_partial: a batch with a one-line command, an `execute` that is
   merged and a two-line command stored as expand/0 satisfies the hypotheses; the emitted lines run. *)
Example C03_expand_nonvacuous :
  let nm := default_names in
  let lines2 := [CSet ("$s", "__variable__")%string 1; CExt 2] in
  let batch := [([CExt 0], O); ([CExecute [MIf true (Matches ("$c", "__variable__")%string (Exact 1))] (CExt 1)], O); (lines2, O)] in
  let ft := fun fn => if String.eqb fn (priv_fn nm EXPAND 0) then Some lines2 else None in
  (forall it, In it batch ->
     fst it <> [] /\ (length (fst it) <> 1%nat -> ft (priv_fn nm EXPAND (snd it)) = Some (fst it))) /\
  match parse_condition nm (source_tokens true expand_witness_formula) with
  | Some (pcs, cs) =>
    option_map tr (exec_list ft (fun _ st => st) 4 (fst (expand_code nm pcs cs batch)) expand_witness_state)
      = Some [EExt 2; EExt 0] /\
    length (fst (expand_code nm pcs cs batch)) = 12%nat /\ map fst (snd (expand_code nm pcs cs batch)) = [priv_fn nm EXPAND 0]
  | None => False
  end.
Proof.
  cbn zeta. split.
  - intros it [<-|[<-|[<-|[]]]]; cbn [fst snd length]; (split; [discriminate|]); intros C; try (now elim C); reflexivity.
  - vm_compute. repeat split; reflexivity.
Qed.
