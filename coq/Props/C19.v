(* Property C19 — compile-time expansion (Hardcode.repeat / repeatList / repeatLists, Hardcode.calc,
   @lazy) equals manual expansion.  Only statements, closed by `exact`, each followed by
   Print Assumptions.  Models: Model/StrOps.v, Model/Hardcode.v, Model/Lazy.v.
   HRepaired = /repo with fixes/C19-simultaneous-substitution.patch, HPinned = the code before it. *)
From Coq Require Import ZArith String List Bool Ascii Arith.
From JMCV Require Import Base.Dec Model.StrOps Model.Hardcode Model.Lazy
     Proofs.StrOps Proofs.HardcodeRange Proofs.HardcodeCalc Proofs.Lazy.
Import ListNotations.

(* ---------------------------------------------------------------- range *)

(* range(start, stop, step) is exactly [start + k*step | k >= 0, before stop], for every start, stop
   and every non-zero step; in particular it is empty when the step points away from stop. *)
Theorem C19_range :
  forall start stop step : Z, step <> 0%Z ->
    let l := py_range start stop step in
    (forall k : nat, (k < length l)%nat -> nth k l 0%Z = (start + Z.of_nat k * step)%Z) /\
    (forall x : Z, In x l <->
                   exists k : Z, (0 <= k)%Z /\ x = (start + k * step)%Z /\
                                 (if (0 <? step)%Z then (x < stop)%Z else (stop < x)%Z)) /\
    (((0 < step)%Z /\ (stop <= start)%Z) \/ ((step < 0)%Z /\ (start <= stop)%Z) -> l = []).
Proof. exact py_range_spec. Qed.
Print Assumptions C19_range.

(* ---------------------------------------------------------------- repeat = one text per index *)

(* Hardcode.repeat hands the parser, in order, the body with the index substituted (and its
   Hardcode.calc's evaluated) once per element of the range — the texts of the manual expansion. *)
Theorem C19_repeat :
  forall m macros body p start stop step,
    repeat_texts m macros body p start stop step =
    map (fun i => hardcode_process m macros body (dollar p) (z_dec i)) (py_range start stop step).
Proof. exact repeat_texts_spec. Qed.
Print Assumptions C19_repeat.

(* Numbering of private functions.  The real code parses the texts one after the other with one
   DataPack (one allocation state); the manual expansion is one text whose statements are those of
   the iterations in order.  For ANY parser that works statement by statement, threading an
   allocation state (parse1), parsing iteration by iteration and concatenating the results is the
   same run as parsing the concatenated statements: same commands, same final state, hence the same
   private-function numbers.  (That jmc's FuncContent is statement-wise for complete statements is
   NOT proved here: it is what the metamorphic comparison of real file maps exercises.) *)
Theorem C19_unroll_alloc :
  forall (St Stmt Cmd : Type) (parse1 : St -> Stmt -> St * list Cmd) (iterations : list (list Stmt)) (s : St),
    parse_iterations parse1 iterations s = parse_content parse1 (concat iterations) s.
Proof. exact unroll_alloc. Qed.
Print Assumptions C19_unroll_alloc.

(* ---------------------------------------------------------------- Hardcode.calc *)

(* Integer expression trees: non-negative literals, unary minus, + - * \ (floor division) % and **
   with a non-negative exponent; `ieval` is exact integer arithmetic (Python's floor division and
   modulo), undefined on division by zero and negative exponents.  Printed fully parenthesised,
   eval_expr returns the decimal representation of the exact value. *)
Theorem C19_calc :
  forall e z, ieval e = Some z ->
    eval_expr ("(" ++ iprint e ++ ")") = COk (z_dec z).
Proof. exact eval_expr_exact. Qed.
Print Assumptions C19_calc.

(* and hardcode_parse_calc splices exactly that value in place of `Hardcode.calc(<expr>)` *)
Theorem C19_calc_splice :
  forall e z pre rest, ieval e = Some z ->
    parse_calc [] pre ("(" ++ iprint e ++ ")" ++ rest) = COk (pre ++ z_dec z ++ rest)%string.
Proof. exact parse_calc_exact. Qed.
Print Assumptions C19_calc_splice.

(* ---------------------------------------------------------------- substitution (@lazy, repeatList(s)) *)

(* The repaired code substitutes in one simultaneous pass (subst_sim over the keys sorted longest
   first).  Its meaning, for keys of the form "$name" (names without "$"):
   (1) text without "$" is copied unchanged; *)
Theorem C19_subst_copy :
  forall pats s,
    Forall (fun pa => exists n, fst pa = dollar n) pats ->
    contains_char "$"%char s = false ->
    subst_sim pats s = s.
Proof. exact subst_sim_copy. Qed.
Print Assumptions C19_subst_copy.

(* (2) a reference is replaced by its argument VERBATIM — the argument is never scanned again, so an
       argument that mentions another parameter stays as written — and scanning resumes behind it; *)
Theorem C19_subst_ref :
  forall pats p a rest,
    first_match pats (p ++ rest) = Some (p, a) ->
    subst_sim pats (p ++ rest) = (a ++ subst_sim pats rest)%string.
Proof. exact subst_sim_ref. Qed.
Print Assumptions C19_subst_ref.

(* (3) what precedes a "$" is substituted independently of what follows it; *)
Theorem C19_subst_app :
  forall pats a b,
    Forall (fun pa => exists n, fst pa = dollar n /\ contains_char "$"%char n = false) pats ->
    subst_sim pats (a ++ dollar b) = (subst_sim pats a ++ subst_sim pats (dollar b))%string.
Proof. exact subst_sim_app. Qed.
Print Assumptions C19_subst_app.

(* (4) a "$" that starts no key is copied; *)
Theorem C19_subst_nomatch :
  forall pats c rest,
    first_match pats (String c rest) = None ->
    subst_sim pats (String c rest) = String c (subst_sim pats rest).
Proof. exact subst_sim_nomatch. Qed.
Print Assumptions C19_subst_nomatch.

(* (5) and with the keys sorted as the code sorts them, the key chosen at a position is a longest
       one matching there ($item is not clobbered by $i). *)
Theorem C19_subst_longest :
  forall pats s p a,
    first_match (sort_by_len_desc pats) s = Some (p, a) ->
    forall q b, In (q, b) pats -> q <> EmptyString -> prefixb q s = true ->
                (String.length q <= String.length p)%nat.
Proof. exact first_match_longest. Qed.
Print Assumptions C19_subst_longest.

(* The code before the fix substituted sequentially (one str.replace per parameter). *)
(* With a single parameter (Hardcode.repeat) that is the same thing: *)
Theorem C19_subst_pinned_partial :
  forall p a s, p <> EmptyString -> subst_seq [(p, a)] s = subst_sim [(p, a)] s.
Proof. exact subst_seq_single. Qed.
Print Assumptions C19_subst_pinned_partial.

(* with several it is not: `f($b, 5)` for `@lazy function f(a, b) { say "$a $b"; }` gave "5 5"; *)
Theorem C19_lazy_pinned_refuted :
  exists body b,
    bind ["a"; "b"]%string ["$b"; "5"]%string [] = BOk b /\
    lazy_subst HPinned body b <> lazy_subst HRepaired body b /\
    lazy_subst HPinned body b = " say ""5 5""; "%string /\
    lazy_subst HRepaired body b = " say ""$b 5""; "%string.
Proof. exact lazy_pinned_refuted. Qed.
Print Assumptions C19_lazy_pinned_refuted.

(* Hardcode.repeatList((i, item) => ...) clobbered $item with the index; *)
Theorem C19_repeatlist_pinned_refuted :
  exists body,
    until_err (repeat_list_texts HPinned [] body "i" "item" ["a"]%string) = (["{ say ""0 0tem""; }"%string], None) /\
    until_err (repeat_list_texts HRepaired [] body "i" "item" ["a"]%string) = (["{ say ""0 a""; }"%string], None).
Proof. exact repeatlist_pinned_refuted. Qed.
Print Assumptions C19_repeatlist_pinned_refuted.

(* and Hardcode.repeatLists expanded only the first Hardcode.calc of the body. *)
Theorem C19_repeatlists_pinned_refuted :
  exists body,
    until_err (repeat_lists_texts HPinned [] body ["i"; "a"]%string [["x"]]%string)
      = (["{ say ""x 1 Hardcode.calc(0*2)""; }"%string], None) /\
    until_err (repeat_lists_texts HRepaired [] body ["i"; "a"]%string [["x"]]%string)
      = (["{ say ""x 1 0""; }"%string], None).
Proof. exact repeatlists_pinned_refuted. Qed.
Print Assumptions C19_repeatlists_pinned_refuted.

(* ---------------------------------------------------------------- @lazy binding *)

(* positional call with as many arguments as parameters: the i-th argument is bound to the i-th parameter *)
Theorem C19_bind_positional :
  forall params pos,
    NoDup params -> length pos = length params ->
    bind params pos [] = BOk (combine params pos).
Proof. exact bind_positional. Qed.
Print Assumptions C19_bind_positional.

(* Every call form (strengthening round 1).  The call `f(p1, .., pk, n1 = v1, ..)` with positional texts `pos` and
   keyword dictionary `kw` (distinct keys, all of them parameters; not more positionals than parameters; every
   parameter without keyword has a positional at ITS OWN index) binds each parameter to its keyword argument if
   there is one and else to the positional argument at the parameter's index — whatever the order of the
   keywords, and also when a parameter has both (the keyword wins: what the code does). *)
Theorem C19_bind_general :
  forall params pos kw,
    NoDup params -> NoDup (map fst kw) ->
    (length pos <= length params)%nat ->
    (forall k, In k (map fst kw) -> In k params) ->
    (forall j p, nth_error params j = Some p -> kw_get p kw = None -> (j < length pos)%nat) ->
    bind params pos kw = BOk (expected_bind 0 params pos kw).
Proof. exact bind_general. Qed.
Print Assumptions C19_bind_general.

(* ---------------------------------------------------------------- @lazy argument -> text *)

(* What is substituted for a parameter is the text rebuilt from the argument's tokens (Model/Lazy.v: arg_text =
   merge_tokens(.., use_full_string=True)).  It does not depend on the call form: a keyword argument gets the text
   the same tokens get as a positional argument (HRepaired = with fixes/C19-lazy-keyword-arrow-function.patch). *)
Theorem C19_arg_text_form_independent :
  forall toks, arg_text HRepaired true toks = arg_text HRepaired false toks.
Proof. exact arg_text_form_independent. Qed.
Print Assumptions C19_arg_text_form_independent.

(* the code before that fix: an arrow function lost its head `(i)=>` as a keyword argument and its parameter
   list as a positional argument *)
Theorem C19_arg_text_pinned_refuted :
  exists toks, arg_text HPinned true toks <> arg_text HPinned false toks /\
               arg_text HPinned false toks <> arg_text HRepaired false toks.
Proof. exact arg_text_pinned_refuted. Qed.
Print Assumptions C19_arg_text_pinned_refuted.

(* tokens of an argument that were apart in the source stay apart (one blank), adjacent ones stay adjacent
   (HRepaired = with fixes/C19-lazy-argument-spacing.patch; before it `~ ~1 ~` was substituted as `~~1~`) *)
Theorem C19_arg_text_spacing :
  forall is_kw a b,
    arg_text HRepaired is_kw [AOther a; AGap; AOther b] = (a ++ " " ++ b)%string /\
    arg_text HRepaired is_kw [AOther a; AOther b] = (a ++ b)%string /\
    arg_text HPinned is_kw [AOther a; AGap; AOther b] = (a ++ b)%string.
Proof. exact arg_text_spacing. Qed.
Print Assumptions C19_arg_text_spacing.

(* A string-literal argument is written as a literal (Python's repr of the decoded content, quotes included) that
   the function-content tokenizer (ast.literal_eval; py_unquote models it on the escapes repr produces) reads
   back as exactly the same string: `$p` stands for the string the caller wrote, in either call form.
   (py_repr is CPython's repr on the characters 9, 10, 13, 32..126; the tie excludes anything else.) *)
Theorem C19_arg_string_roundtrip :
  forall m is_kw s, py_unquote (arg_text m is_kw [AStr false s]) = Some s.
Proof. exact lazy_string_argument_roundtrip. Qed.
Print Assumptions C19_arg_string_roundtrip.

(* ---------------------------------------------------------------- non-vacuity *)

Example C19_nonvacuous :
  ieval (IBin IMod (IBin IFloorDiv (INeg (INum 7)) (INum 2)) (INeg (INum 3))) = Some (-1)%Z /\
  iprint (IBin IMod (IBin IFloorDiv (INeg (INum 7)) (INum 2)) (INeg (INum 3))) = "(((-7)\2)%(-3))"%string /\
  py_range 3 (-4) (-3) = [3; 0; -3]%Z /\
  until_err (repeat_texts HRepaired [("N", "5")]%string "{ say ""$i Hardcode.calc($i*N)""; }" "i" 0 2 1)
    = (["{ say ""0 0""; }"; "{ say ""1 5""; }"]%string, None) /\
  (* f(7, c = "it's", a = @a[tag=x]) for f(a, b, c): hypotheses of C19_bind_general hold; keyword wins over position *)
  bind_toks HRepaired ["a"; "b"; "c"]%string [[AOther "7"]; [AOther "8"]]%string
            [("c", [AStr false "it's"]); ("a", [AOther "@a"; AParen "[tag=x]"])]%string
    = BOk [("a", "@a[tag=x]"); ("b", "8"); ("c", """it's""")]%string /\
  arg_text HRepaired true [AFunc "(i)" "{ say 1; }"]%string = "(i)=>{ say 1; }"%string /\
  py_repr "a'b""c" = "'a\'b""c'"%string.
Proof. vm_compute. repeat split; reflexivity. Qed.
