(* Model.TokMacro — `Tokenizer.merge_vanilla_macro` (tokenizer.py) and the loops that call it while they iterate over the
   very list it shrinks (strengthening round 4 of C13).  Definitions only (proofs: Proofs/TokMacro.v).

   A vanilla macro `$(name)` is tokenised as  KEYWORD `..$`, PAREN_ROUND `(name)` [, KEYWORD suffix connected to the bracket].
   merge_vanilla_macro(tokens, key_pos) folds these two / three tokens into ONE token, in place:

       if (len(tokens[key_pos:]) >= 2 and tokens[key_pos + 1].token_type == PAREN_ROUND and tokens[key_pos].string.endswith("$")):
           if (len(tokens[key_pos:]) >= 3 and tokens[key_pos + 2].token_type == KEYWORD
                   and is_connected(tokens[key_pos + 2], tokens[key_pos + 1])):
               tokens[key_pos] = self.merge_tokens(tokens[key_pos : key_pos + 3]);  del tokens[key_pos + 1 : key_pos + 3]
           else:
               tokens[key_pos] = self.merge_tokens(tokens[key_pos : key_pos + 2]);  del tokens[key_pos + 1]

   Its callers keep counting positions of the ORIGINAL list:
     condition_to_ast    for key_pos in range(len(tokens)): tokenizer.merge_vanilla_macro(tokens, key_pos)      (range computed once)
     _is_vanilla_func    for i in range(len(command)): if i >= len(command): break; if <own guard>: merge_vanilla_macro(command, i)
     FuncContent         for key_pos, token in enumerate(self.command): ... merge_vanilla_macro(self.command, key_pos)   (some positions)
   so key_pos may lie BEYOND the end of the list: the length guard has to come before every subscript.

   Every Python failure mode is explicit (`Crash IndexError` for a subscript out of range, `Crash ValueError` for
   Token.__post_init__); slices follow Python (indices clamped, negative indices count from the end).

   PARAMETERS (outside the model; every theorem quantifies over them)
     cleanup  : token -> result str   `clean_up_paren_token(token, tokenizer)`, what merge_tokens writes for a bracket token
                                      (it re-tokenises the bracket's content: it may raise one of JMC's diagnostics)
     repr_len : str -> Z              `len(repr(s))`, the length of a STRING token (Token.length)
   The check ties the model to the source by running the real method on traced and on generated token lists (tables of the
   observed cleanup / repr_len values are part of each case) and comparing the resulting list, token by token. *)
From Coq Require Import ZArith NArith List Bool.
From JMCV Require Import Model.Tok Model.TokGuards.
Import ListNotations.
Open Scope Z_scope.

(* ---- Python slices *)
(* the index a slice bound stands for: negative bounds count from the end, everything is clamped to [0, len] *)
Definition clamp {A} (l : list A) (i : Z) : Z :=
  let j := if i <? 0 then zlen l + i else i in Z.max 0 (Z.min j (zlen l)).
(* l[a:] *)
Definition py_tail {A} (l : list A) (a : Z) : list A := skipn (Z.to_nat (clamp l a)) l.
(* l[a:b] *)
Definition py_slice {A} (l : list A) (a b : Z) : list A :=
  let s := clamp l a in let e := clamp l b in firstn (Z.to_nat (e - s)) (skipn (Z.to_nat s) l).
(* del l[a:b]  (never raises) *)
Definition py_del_slice {A} (l : list A) (a b : Z) : list A :=
  let s := clamp l a in let e := clamp l b in
  if e <=? s then l else firstn (Z.to_nat s) l ++ skipn (Z.to_nat e) l.
(* l[i] = x *)
Definition py_set {A} (l : list A) (i : Z) (x : A) : result (list A) :=
  match py_index l i with
  | Ok _ => let j := Z.to_nat (if i <? 0 then zlen l + i else i) in Ok (firstn j l ++ x :: skipn (S j) l)
  | Diag d a b => Diag d a b
  | Crash e => Crash e
  end.

(* ---- str helpers *)
Definition str_len (s : str) : Z := Z.of_nat (List.length s).
Definition ends_dollar (s : str) : bool :=                       (* s.endswith("$") *)
  match rev s with c :: _ => ceqb c c_dollar | [] => false end.
Definition has_nl (s : str) : bool := mem_char c_nl s.           (* NEW_LINE in s *)
Fixpoint count_nl (s : str) : Z :=                               (* s.count(NEW_LINE) *)
  match s with [] => 0 | c :: r => (if ceqb c c_nl then 1 else 0) + count_nl r end.
(* number of characters after the last newline *)
Fixpoint tail_len (s : str) (acc : Z) : Z :=
  match s with [] => acc | c :: r => tail_len r (if ceqb c c_nl then 0 else acc + 1) end.

Definition is_bracket3 (ty : ttype) : bool :=
  match ty with PAREN_ROUND | PAREN_SQUARE | PAREN_CURLY => true | _ => false end.

Section Macro.
Variable cleanup : token -> result str.
Variable repr_len : str -> Z.

(* Token.length / Token.end (no header macro: `_macro_end is None`) *)
Definition tok_length (t : token) : Z :=
  if ttype_eqb (t_type t) STRING then repr_len (t_str t) else str_len (t_str t).
Definition tok_end (t : token) : Z * Z :=
  if negb (ttype_eqb (t_type t) STRING) && has_nl (t_str t)
  then (t_line t + count_nl (t_str t), tail_len (t_str t) 0 + 1)     (* len(s) - s.rfind("\n") *)
  else (t_line t, t_col t + tok_length t).
(* utils.is_connected(current, previous) *)
Definition is_connected (cur prev : token) : bool :=
  let e := tok_end prev in (fst e =? t_line cur) && (snd e =? t_col cur).

(* Tokenizer.merge_tokens(tokens)  (use_full_string=False, is_clean_up=True) *)
Definition handle (t : token) : result str :=
  if is_bracket3 (t_type t) then cleanup t else Ok (t_str t).
Fixpoint join_handle (l : list token) : result str :=
  match l with
  | [] => Ok []
  | t :: r => do a <- handle t; do b <- join_handle r; Ok (a ++ b)
  end.
Definition merge_tokens (l : list token) : result token :=
  match l with
  | [] => Crash IndexError                                   (* tokens[0] *)
  | t0 :: _ =>
    let ty := if ttype_eqb (t_type t0) OPERATOR then KEYWORD else t_type t0 in
    do s <- join_handle l;
    if ttype_eqb ty PAREN_CURLY && negb (curly_shape_ok s) then Crash ValueError    (* Token.__post_init__ *)
    else Ok (mkTok ty (t_line t0) (t_col t0) s false)
  end.

(* ---- merge_vanilla_macro; `guard_first` = the tree under test evaluates the length guard before the subscripts
   (true: the source;  false: the ordering of the change the round-4 testers seeded: endswith("$") is read first) *)
Definition merge_vm_gen (guard_first : bool) (l : list token) (kp : Z) : result (list token) :=
  do enter <-
    (if guard_first then
       if zlen (py_tail l kp) <? 2 then Ok false else
       do t1 <- py_index l (kp + 1);
       if negb (ttype_eqb (t_type t1) PAREN_ROUND) then Ok false else
       do t0 <- py_index l kp; Ok (ends_dollar (t_str t0))
     else
       do t0 <- py_index l kp;
       if negb (ends_dollar (t_str t0)) then Ok false else
       if zlen (py_tail l kp) <? 2 then Ok false else
       do t1 <- py_index l (kp + 1); Ok (ttype_eqb (t_type t1) PAREN_ROUND));
  if negb enter then Ok l else
  do three <-
    (if zlen (py_tail l kp) <? 3 then Ok false else
     do t2 <- py_index l (kp + 2);
     if negb (ttype_eqb (t_type t2) KEYWORD) then Ok false else
     do t2' <- py_index l (kp + 2); do t1 <- py_index l (kp + 1); Ok (is_connected t2' t1));
  if three then
    do m <- merge_tokens (py_slice l kp (kp + 3));
    do l1 <- py_set l kp m;
    Ok (py_del_slice l1 (kp + 1) (kp + 3))
  else
    do m <- merge_tokens (py_slice l kp (kp + 2));
    do l1 <- py_set l kp m;
    py_del l1 (kp + 1).

Definition merge_vm : list token -> Z -> result (list token) := merge_vm_gen true.

(* ---- the callers *)
(* `for key_pos in range(k0, k0 + n): body(tokens, key_pos)` over a list the body mutates in place *)
Fixpoint range_loop (body : list token -> Z -> result (list token)) (n : nat) (k : Z) (l : list token)
  : result (list token) :=
  match n with
  | O => Ok l
  | S n' => do l' <- body l k; range_loop body n' (k + 1) l'
  end.

(* condition_to_ast: `for key_pos in range(len(tokens) - short)` computed ONCE (the source: short = 0) *)
Definition cond_merge_gen (guard_first : bool) (short : nat) (l : list token) : result (list token) :=
  range_loop (merge_vm_gen guard_first) (List.length l - short) 0 l.
Definition cond_merge : list token -> result (list token) := cond_merge_gen true 0.

(* Lexer._is_vanilla_func (on a copy of the command) *)
Definition vanilla_step (l : list token) (i : Z) : result (list token) :=
  if zlen l <=? i then Ok l                                    (* if i >= len(command): break  (nothing happens any more) *)
  else
    do t <- py_index l i;
    if negb (ends_dollar (t_str t)) then Ok l else
    if negb (i + 1 <? zlen l) then Ok l else
    do t1 <- py_index l (i + 1);
    if ttype_eqb (t_type t1) PAREN_ROUND then merge_vm l i else Ok l.
Definition vanilla_merge (l : list token) : result (list token) := range_loop vanilla_step (List.length l) 0 l.

(* FuncContent and any other caller: an arbitrary sequence of positions *)
Fixpoint merge_seq (ks : list Z) (l : list token) : result (list token) :=
  match ks with
  | [] => Ok l
  | k :: r => do l' <- merge_vm l k; merge_seq r l'
  end.

End Macro.

(* what Token.__post_init__ guarantees of every Token object: a PAREN_CURLY token starts with `{` and ends with `}` *)
Definition wf_tok (t : token) : Prop := t_type t = PAREN_CURLY -> curly_shape_ok (t_str t) = true.
(* `cleanup` raises nothing but JMC's own diagnostics (outside the model: searched by the check) *)
Definition cleanup_total (cleanup : token -> result str) : Prop :=
  forall t, (exists s, cleanup t = Ok s) \/ (exists d a b, cleanup t = Diag d a b).
Definition no_crash {A} (r : result A) : Prop := (exists a, r = Ok a) \/ (exists d a b, r = Diag d a b).
