(* Model.CondExpand — Gallina port of the `is_expand` branch of Lexer.parse_if_else
   (src/jmc/compile/lexer.py): `if (<condition>) expand { c1; c2; … }`.

   The batch is lowered command by command; EVERY command gets the condition's precommand
   lines (the `||` / `!(&&)` helper block that writes `__logic__N`) followed by its own
   guarded line:

       for expanded_command in expanded_commands:
           "\n" in it                  ->  {precommand}execute {condition} run {add_private_function('expand', it)}
           it.startswith("execute ")   ->  {precommand}execute {condition} {it[8:]}
           otherwise                   ->  {precommand}execute {condition} run {it}

   so each command is guarded by a FRESH evaluation of the condition: a command of the batch may
   itself evaluate a condition (flag numbering restarts at `__logic__0` in every
   parse_condition) or call a function that does, and so overwrite the flags.

   A command of the batch is taken in the form parse_function_token returned it: its lines
   (one line unless the statement lowers to several, e.g. a nested `if` with `||`), paired
   with the number add_private_function gives it if it needs a function.  An `execute` here
   is a CExecute of MC.Syntax (if/unless score, store), as in Model.IfElse.merge1.
   A command that lowers to NO line is outside the model (the theorems exclude it).

   Property C03.  No proofs here. *)
From Coq Require Import ZArith String List Bool.
From JMCV Require Import Base.Dec MC.Syntax Model.Names Model.PrivAlloc Model.Cond.
Import ListNotations.
Open Scope list_scope.

Definition EXPAND : string := "expand"%string.

Definition xitem := (list cmd * nat)%type.

Definition expand_one (nm : names) (pcs : list cmd) (cs : list cond) (it : xitem)
  : list cmd * list fdef :=
  match fst it with
  | [CExecute ms b] => (pcs ++ [CExecute (map mif cs ++ ms) b], [])
  | [c] => (pcs ++ [guarded cs c], [])
  | lines => (pcs ++ [guarded cs (call_func nm EXPAND (snd it))],
              [(priv_fn nm EXPAND (snd it), lines)])
  end.

Definition expand_code (nm : names) (pcs : list cmd) (cs : list cond) (batch : list xitem)
  : list cmd * list fdef :=
  (flat_map (fun it => fst (expand_one nm pcs cs it)) batch,
   flat_map (fun it => snd (expand_one nm pcs cs it)) batch).

(* DataPack.get_count('expand') is taken, in batch order, by the commands that need a function *)
Fixpoint number_batch (b : list (list cmd)) (k : nat) : list xitem :=
  match b with
  | [] => []
  | l :: r => (l, k) :: number_batch r (match l with [_] => k | _ => S k end)
  end.

(* NOT what the compiler does — kept to state in Coq why it must not (Props/C03.v,
   C03_expand_hoisted_refuted): the helper block emitted once for the whole batch. *)
Definition expand_code_hoisted (nm : names) (pcs : list cmd) (cs : list cond) (batch : list xitem)
  : list cmd * list fdef :=
  (pcs ++ flat_map (fun it => fst (expand_one nm [] cs it)) batch,
   flat_map (fun it => snd (expand_one nm [] cs it)) batch).
