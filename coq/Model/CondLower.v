(* Model.CondLower — where property C03's model meets the models of C04/C05: the condition of an
   if / else-if / while / do-while / for, as Model.IfElse and Model.Loop take it (precommand lines,
   `execute` guards), computed from the boolean FORMULA the user wrote by Model.Cond.parse_condition.

   This is the definition the correspondence drivers use (Run/C04.v `lowc`, hence every generated C04/C05
   case) and the one the composition theorems are about (Proofs/ComposeCond.v, Props/C04.v, Props/C05.v).
   No proofs here. *)
From Coq Require Import String List.
From JMCV Require Import MC.Syntax Model.Names Model.IfElse.
From JMCV Require Model.Cond.
Import ListNotations.

(* wrapped = the compiler receives the round-bracket token (if / else if / while / do-while);
   false = the bare token list (the middle statement of `for (..; ..; ..)`).
   None = the compiler refuses the condition (a JMC diagnostic; nothing is emitted). *)
Definition cond_of_formula (nm : names) (wrapped : bool) (f : Cond.formula) : option cond :=
  let toks := Cond.tokens_of f in
  match Cond.parse_condition nm (if wrapped then [Cond.TParen toks] else toks) with
  | Some (pcs, cs) => Some (mkCond pcs cs)
  | None => None
  end.

(* total version for the correspondence drivers: a formula the model refuses yields a line no
   compiler output equals *)
Definition cond_or_refused (nm : names) (wrapped : bool) (f : Cond.formula) : cond :=
  match cond_of_formula nm wrapped f with
  | Some c => c
  | None => mkCond [COther "<condition refused by Model.Cond>"%string] []
  end.
